(** C02 -- Monte Carlo results are the moments of the formula under the stated normal model.
    Algebraic core (PARTIAL by design, see the end of the file): what is computed from the offsets
    actually drawn.  Only theorem statements, each closed by [exact], each followed by Print Assumptions.
    [f] = the formula on one joint draw ([None] = not finite), [C] = correlation matrix of the sources in
    source order, [normal i n] = result of the i-th call numpy.random.normal(0, 1, n); all arbitrary. *)
From Coq Require Import List ZArith QArith Bool.
From QV Require Import Base.Py Model.MC Proofs.MCState Proofs.MCPipe.
Import ListNotations.
Open Scope Q_scope.

(** a quantity with the default strategy, no range and no stored samples (new, recalculated, or after a
    sample-size assignment): with Z the k x N offsets drawn now (N = the quantity's own size if not 0, else
    the global one), X_n = v + s * (offsets used)_n, Y = the finite f(X_n):
    value = mean Y, error^2 = sum (y - mean Y)^2 / (|Y| - 1); the samples retrievable afterwards are Y *)
Theorem C02_pipeline : forall f C normal s,
  raw s = [] -> strat s = MeanStd -> xr s = None ->
  let N := Z.to_nat (eff_size s) in
  let k := length (srcs s) in
  let Zrows := rows_at normal (ncalls s) k N in
  let Y := keep_finite (map (fun c => f (scale_shift (srcs s) c)) (offsets_used C k (columns Zrows N))) in
  snd (read f C normal s) = mean_std Y /\
  raw (fst (read f C normal s)) = Y /\
  (forall y1 y2 l, Y = y1 :: y2 :: l ->
     snd (read f C normal s) = mkrep (Some (mean Y)) (ESqrt (svar Y)) /\
     mean Y == psum Y / inject_Z (Z.of_nat (length Y)) /\
     svar Y == psum (map (fun y => (y - pmean Y) * (y - pmean Y)) Y) / (inject_Z (Z.of_nat (length Y)) - 1)).
Proof.
  intros f C normal s He Hs Hx. cbv zeta.
  destruct (read_fresh_meanstd f C normal s He Hs Hx) as (H1 & H2 & _).
  rewrite compute_samples_spec in H1, H2.
  split; [exact H1|]. split; [exact H2|].
  intros y1 y2 l E. rewrite H1. rewrite E. split; [apply mean_std_two|].
  split; [apply mean_pmean|apply svar_pvar].
Qed.
Print Assumptions C02_pipeline.

(** which offsets reach the formula: the drawn ones when no correlation is set or the matrix is not positive
    definite, L . (drawn ones) with the Cholesky factor L otherwise *)
Theorem C02_offsets_used : forall C k cols,
  offsets_used C k cols =
    if offdiag_zero C k then cols
    else match chol k C with CholOk L => map (matvec L) cols | _ => cols end.
Proof. reflexivity. Qed.
Print Assumptions C02_offsets_used.

(** closed-form lower-triangular factor for k = 1, 2, 3: L L^T = C (on and below the diagonal; C is
    symmetric), whenever the factorisation succeeds -- and then C is positive definite (leading minors) *)
Theorem C02_chol : forall k C L, chol k C = CholOk L ->
  forall i j, (j <= i)%nat -> (i < k)%nat -> pdot (nth i L []) (nth j L []) == mget C i j.
Proof. exact chol_ok. Qed.
Print Assumptions C02_chol.

Theorem C02_chol_pd : forall k C L, (1 <= k <= 3)%nat -> chol k C = CholOk L -> pd_minors k C.
Proof. exact chol_ok_pd. Qed.
Print Assumptions C02_chol_pd.

(** second moments of L . Z are L (second moments of Z) L^T, for ANY matrix L and any number of draws:
    offsets with identity second moments give draws with covariance L L^T = C *)
Theorem C02_cov_push : forall L cols i j,
  mom (map (matvec L) cols) i j ==
  wsum (nth i L []) (fun a => wsum (nth j L []) (fun b => mom cols a b) 0) 0.
Proof. exact cov_push. Qed.
Print Assumptions C02_cov_push.

(** X_i = v_i + s_i * offset_i: sample mean and variance scale and shift accordingly; s_i is the
    UNCERTAINTY of the measurement *)
Theorem C02_scale_shift : forall srcs c i v s l,
  ((i < length srcs)%nat -> (i < length c)%nat ->
   qnth (scale_shift srcs c) i ==
   s_value (nth i srcs (mksrc 0 0 0)) + s_error (nth i srcs (mksrc 0 0 0)) * qnth c i) /\
  (l <> [] -> pmean (map (fun o => v + s * o) l) == v + s * pmean l) /\
  (l <> [] -> pvar (map (fun o => v + s * o) l) == s * s * pvar l).
Proof.
  intros srcs c i v s l. split; [apply qnth_scale_shift|]. split; [apply pmean_affine|apply pvar_affine].
Qed.
Print Assumptions C02_scale_shift.

(** the spread of the raw readings (std) never enters: only central value and uncertainty do *)
Theorem C02_uses_error_not_std : forall f C srcs srcs' rows N,
  map (fun s => (s_value s, s_error s)) srcs = map (fun s => (s_value s, s_error s)) srcs' ->
  compute_samples f C srcs rows N = compute_samples f C srcs' rows N.
Proof. exact compute_samples_ignores_std. Qed.
Print Assumptions C02_uses_error_not_std.

(** N joint draws, N = effective sample size (per quantity if set, else global); all N outcomes are kept
    when the formula is defined on every draw, undefined ones are discarded otherwise *)
Theorem C02_size : forall f C normal s,
  raw s = [] ->
  let N := Z.to_nat (eff_size s) in
  let k := length (srcs s) in
  eff_size s = (if (own s =? 0)%Z then gsz s else own s) /\
  length (columns (rows_at normal (ncalls s) k N) N) = N /\
  length (offsets_used C k (columns (rows_at normal (ncalls s) k N) N)) = N /\
  ((forall x, f x <> None) -> length (raw (fst (read f C normal s))) = N).
Proof.
  intros f C normal s He. cbv zeta. split; [reflexivity|]. split; [apply columns_length|]. split.
  - unfold offsets_used. destruct (offdiag_zero C (length (srcs s))); [apply columns_length|].
    destruct (chol (length (srcs s)) C); rewrite ?map_length; apply columns_length.
  - intros Htot. apply read_after_empty_size; assumption.
Qed.
Print Assumptions C02_size.

(** correlations that are pairwise valid but jointly not positive definite: the factorisation fails exactly
    then (k <= 3), the warning is raised, the drawn offsets are used uncorrelated, and evaluation goes on
    (the model is a total function: no exception) *)
Theorem C02_fallback : forall f C srcs rows N,
  (1 <= length srcs <= 3)%nat ->
  (chol (length srcs) C = CholNotPD <-> ~ pd_minors (length srcs) C) /\
  (offdiag_zero C (length srcs) = false -> ~ pd_minors (length srcs) C ->
     d_warn_pd (compute_samples f C srcs rows N) = true /\
     d_unsup (compute_samples f C srcs rows N) = false /\
     offsets_used C (length srcs) (columns rows N) = columns rows N) /\
  (d_warn_pd (compute_samples f C srcs rows N) = true ->
     offdiag_zero C (length srcs) = false /\ ~ pd_minors (length srcs) C).
Proof.
  intros f C srcs rows N Hk. pose proof (chol_notpd_iff (length srcs) C Hk) as Hiff.
  split; [exact Hiff|]. split.
  - intros Ho Hn. apply compute_samples_fallback; [exact Ho|]. apply Hiff. exact Hn.
  - intros Hw. destruct (compute_samples_warn_only_notpd f C srcs rows N Hw) as [Ho Hc].
    split; [exact Ho|]. apply Hiff. exact Hc.
Qed.
Print Assumptions C02_fallback.

(** PARTIAL form of the property's last sentence ("the results agree, within sampling error, with the exact
    moments under that multivariate normal distribution").
    FULL statement, not provable with what is installed: if the offsets are independent standard normal
    variables then the N draws are independent N(v, D C D) vectors and value / uncertainty converge (N -> oo)
    to the exact mean / standard deviation of f under that law.
    PROVED: the deterministic core -- whenever the offsets actually drawn have second moments n * identity
    (what i.i.d. standard normal offsets have in expectation), the correlated offsets L . Z have second moments
    n * C: the draws carry exactly the correlations set between the measurements. *)
Theorem C02_moments_partial : forall k C L cols n,
  chol k C = CholOk L ->
  (forall a b, (a < k)%nat -> (b < k)%nat -> mom cols a b == if (a =? b)%nat then n else 0) ->
  forall i j, (j <= i)%nat -> (i < k)%nat ->
  mom (map (matvec L) cols) i j == n * mget C i j.
Proof.
  intros k C L cols n Hc Hid i j Hji Hi.
  rewrite (identity_moments_push L cols n k i j (chol_rows_length k C L i Hc) (chol_rows_length k C L j Hc) Hid).
  rewrite (chol_ok k C L Hc i j Hji Hi). reflexivity.
Qed.
Print Assumptions C02_moments_partial.

(** non-vacuity: rho = 3/5 (k = 2), a 3 x 3 matrix with a rational factor, a jointly non-positive-definite
    triple of valid correlations, and a first read of x*y with correlated sources and a division-free formula *)
Definition ex_C3 : matrix := [[1; 3 # 5; 2 # 3]; [3 # 5; 1; 14 # 15]; [2 # 3; 14 # 15; 1]].
Definition ex_bad : matrix := [[1; 9 # 10; 9 # 10]; [9 # 10; 1; -9 # 10]; [9 # 10; -9 # 10; 1]].
Definition ex_normal2 (i n : nat) : list Q :=
  map (fun j => inject_Z (Z.of_nat ((j * 3 + i * 2) mod 7)) / 2 - (3 # 2)) (seq 0 n).
Definition ex_signs : list (list Q) :=
  map (fun n => map (fun j => if Nat.testbit n j then 1 else -1) [0; 1; 2]%nat) (seq 0 8).
Example C02_nonvacuous_moments :
  forallb (fun a => forallb (fun b => Qeq_bool (mom ex_signs a b) (if (a =? b)%nat then 8 else 0)) [0; 1; 2]%nat)
          [0; 1; 2]%nat = true.
Proof. vm_compute. reflexivity. Qed.
Example C02_nonvacuous :
  chol 2 [[1; 3 # 5]; [3 # 5; 1]] = CholOk [[1; 0]; [3 # 5; 4 # 5]] /\
  chol 3 ex_C3 = CholOk [[1; 0; 0]; [3 # 5; 4 # 5; 0]; [2 # 3; 600 # 900; 1 # 3]] /\
  chol 3 ex_bad = CholNotPD /\ offdiag_zero ex_bad 3 = false /\
  (let s := init [mksrc 2 (1 # 2) 5; mksrc (-1) 1 1] 6 in
   raw s = [] /\ strat s = MeanStd /\ xr s = None /\
   length (raw (fst (read (eval (Mul (Var 0) (Var 1))) [[1; 3 # 5]; [3 # 5; 1]] ex_normal2 s))) = 6%nat /\
   r_value (snd (read (eval (Mul (Var 0) (Var 1))) [[1; 3 # 5]; [3 # 5; 1]] ex_normal2 s)) = Some (-183 # 80)).
Proof. vm_compute. repeat split; reflexivity. Qed.

(** NOT PROVED (the property's last sentence): that numpy.random.normal yields independent standard normal
    offsets, hence that the draws follow the multivariate normal law N(v, D C D), and that mean / standard
    deviation of the outcomes converge to the exact moments of the formula under that law (law of large
    numbers).  Nothing installed lets these be stated; they are checked statistically in the thorough tier
    (N = 200000, exact Gaussian moments by Isserlis' formula, 6 sigma).  What IS proved above: for the offsets
    actually drawn, value and uncertainty are the mean and ddof-1 deviation of the finite outcomes of the
    formula on X = v + s * (L . Z) with L L^T = C, so that offsets with identity second moments give draws
    with covariance D C D. *)
