(** C03 -- derivative() returns the true partial derivative of the composed formula.
    sem_u/sem_b/d_u/d_b are GENERATED from OPERATIONS / DIFFERENTIATORS of operations.py on every
    run; the object DAG (sharing explicit) and the recursion of derivative() are Model/Core.v. *)
From Coq Require Import List Arith Bool Reals.
From Coquelicot Require Import Coquelicot.
From Coq Require Import QArith Qreals.
From QV Require Import Base.RealOps Base.QOps Gen.OpsTable Model.Core Model.CoreQ Proofs.OpsRules Proofs.CoreR Proofs.QROps Proofs.QRCore.
Import ListNotations.
Local Open Scope R_scope.

(** every generated rule is the derivative of the generated operation (all 14 unary operators) *)
Theorem C03_rule_unary : forall o y, DomU o y -> is_derive (sem_u o) y (d_u o y 1).
Proof. exact rule_u. Qed.
Print Assumptions C03_rule_unary.

(** ... both operand positions of every binary operator at once (variable exponents, two-argument log) *)
Theorem C03_rule_binary : forall o f g x df dg,
  is_derive f x df -> is_derive g x dg -> DomB o (f x) (g x) ->
  is_derive (fun t => sem_b o (f t) (g t)) x (d_b o (f x) df (g x) dg).
Proof. exact rule_b. Qed.
Print Assumptions C03_rule_binary.

(** ... and integer constant powers of any non-zero (or, for non-negative powers, any) base *)
Theorem C03_rule_pow_int : forall f x df k,
  is_derive f x df -> (f x <> 0 \/ (0 <= k)%Z) ->
  is_derive (fun t => sem_b POW (f t) (IZR k)) x (d_b POW (f x) df (IZR k) 0).
Proof. exact rule_pow_int. Qed.
Print Assumptions C03_rule_pow_int.

(** chain rule through every nested operation and every occurrence of m: for every well-formed
    object DAG inside the operators' domains, every object k and every measurement m with central
    value v, derivative(m) is the derivative of k's value as a function of m's value, at v *)
Theorem C03_is_derive : forall l m v,
  wf R l = true -> Dom l -> meas_at l m v ->
  forall k, (k < length l)%nat ->
  is_derive (fun t => rvalue (set_value R l m t) k) v (rderiv l k m).
Proof. exact deriv_is_derive. Qed.
Print Assumptions C03_is_derive.

(** 0 when the result does not depend on m *)
Theorem C03_unrelated : forall l m,
  wf R l = true -> not_derived l m ->
  forall k, (k < length l)%nat -> ~ In m (sources R l k) -> rderiv l k m = 0.
Proof. exact deriv_unrelated. Qed.
Print Assumptions C03_unrelated.

(** 1 when the result is m itself *)
Theorem C03_self : forall l m v, meas_at l m v -> rderiv l m m = 1.
Proof. exact deriv_self. Qed.
Print Assumptions C03_self.

(** what the correspondence EXECUTES is what the theorem is about: on a rational object list, whenever the
    executed instance (over option Q, with the generated tables qsem / qd) computes a derivative, that
    number is the true partial derivative of the real-valued formula *)
Theorem C03_executed_is_derivative : forall (lq : list (obj Q)) m v k x,
  wf R (injR lq) = true -> Dom (injR lq) -> meas_at (injR lq) m v -> (k < length (injR lq))%nat ->
  qderiv (injQ lq) k m = Some x ->
  is_derive (fun t => rvalue (set_value R (injR lq) m t) k) v (Q2R x).
Proof. exact executed_is_derivative. Qed.
Print Assumptions C03_executed_is_derivative.

(** non-vacuity: r = (a * b) * (a * b) built through the shared intermediate t = a * b, a = 5, b = 4:
    the hypotheses hold and dr/da = 2 a b^2 = 160 *)
Example C03_nonvacuous :
  let l := [ODer (FB MUL (RObj 2) (RObj 2)); ODer (FB MUL (RObj 0) (RObj 1)); OMeas 4 (3/10); OMeas 5 (1/2)] in
  wf R l = true /\ Dom l /\ meas_at l 0%nat 5 /\ rderiv l 3 0 = 160.
Proof.
  cbv zeta. split; [reflexivity|]. split; [cbn; intuition|]. split.
  - split; [cbn; auto with arith|]. exists (1/2). reflexivity.
  - unfold rderiv, deriv. cbn. ring.
Qed.
