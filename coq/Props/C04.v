(** C04 -- Correlation/covariance records are symmetric, consistent, bounded, isolated.
    Only theorem statements, each closed by [exact], each followed by Print Assumptions.
    [s] ranges over ALL states of the model (any table of quantities, any store), or, where an
    invariant of the store is needed, over the states [run ops (init t)] reached from an empty
    store by ANY finite history [ops] of calls (set / get in function and method form with any
    operands and numbers, reset, .error and .value writes) on ANY table [t] of quantities. *)
From Coq Require Import List ZArith QArith Bool.
From QV Require Import Model.Stats Model.Corr Proofs.Corr.
Import ListNotations.
Open Scope Q_scope.

(** symmetric in the pair (any state) *)
Theorem C04_symmetric : forall s a b,
  get_corr s a b = get_corr s b a /\ get_cov s a b = get_cov s b a.
Proof. exact symmetric_lemma. Qed.
Print Assumptions C04_symmetric.

(** both call forms of the getters return these values *)
Theorem C04_getters : forall s f a b, nthq s a <> None -> nthq s b <> None ->
  step s (GetCorr f (Ref a) (Ref b)) = (s, Ret (get_corr s a b)) /\
  step s (GetCov f (Ref a) (Ref b)) = (s, Ret (get_cov s a b)).
Proof. exact getters_lemma. Qed.
Print Assumptions C04_getters.

(** an accepted set_correlation(a, b, r): the pair reads r and r * std a * std b *)
Theorem C04_set_corr_ok : forall s f a b r,
  a <> b -> snd (step s (SetCorr f (Ref a) (Ref b) (ANum r))) = Done ->
  let s' := fst (step s (SetCorr f (Ref a) (Ref b) (ANum r))) in
  get_corr s' a b = r /\ get_cov s' a b = r * (std_of s a * std_of s b).
Proof. exact set_corr_ok_lemma. Qed.
Print Assumptions C04_set_corr_ok.

(** an accepted set_covariance(a, b, c): the pair reads c and c / (std a * std b) *)
Theorem C04_set_cov_ok : forall s f a b c,
  a <> b -> snd (step s (SetCov f (Ref a) (Ref b) (ANum c))) = Done ->
  let s' := fst (step s (SetCov f (Ref a) (Ref b) (ANum c))) in
  get_cov s' a b = c /\ get_corr s' a b = c / (std_of s a * std_of s b).
Proof. exact set_cov_ok_lemma. Qed.
Print Assumptions C04_set_cov_ok.

(** ANY accepted request (either setter, either form, explicit or inferred number): the operands are
    two measurements with non-zero standard deviation, the pair then reads a correlation in [-1, 1],
    covariance = correlation * the two standard deviations at the time of recording, and an explicit
    number is read back unchanged *)
Theorem C04_consistent : forall s o cv oa ob r,
  set_parts o = Some (cv, oa, ob, r) -> snd (step s o) = Done ->
  exists a b, oa = Ref a /\ ob = Ref b /\
    measured_id s a = true /\ measured_id s b = true /\ ~ std_of s a == 0 /\ ~ std_of s b == 0 /\
    (a <> b ->
     let s' := fst (step s o) in
     -1 <= get_corr s' a b <= 1 /\
     get_cov s' a b == get_corr s' a b * (std_of s a * std_of s b) /\
     match r with
     | ANum v => if cv then get_cov s' a b = v else get_corr s' a b = v
     | _ => True
     end).
Proof. exact accepted_consistent. Qed.
Print Assumptions C04_consistent.

(** exactly the physical requests between two measurements with non-zero uncertainty are accepted *)
Theorem C04_accept_iff_corr : forall s f a b r,
  snd (step s (SetCorr f (Ref a) (Ref b) (ANum r))) = Done <->
  measured_id s a = true /\ measured_id s b = true /\ ~ std_of s a == 0 /\ ~ std_of s b == 0 /\ -1 <= r <= 1.
Proof. exact accept_iff_corr. Qed.
Print Assumptions C04_accept_iff_corr.

Theorem C04_accept_iff_cov : forall s f a b c,
  snd (step s (SetCov f (Ref a) (Ref b) (ANum c))) = Done <->
  measured_id s a = true /\ measured_id s b = true /\ ~ std_of s a == 0 /\ ~ std_of s b == 0 /\
  -1 <= c / (std_of s a * std_of s b) <= 1.
Proof. exact accept_iff_cov. Qed.
Print Assumptions C04_accept_iff_cov.

(** a request inferred from two plain reading arrays of equal length and non-zero spread is accepted *)
Theorem C04_inferred_ok : forall s f a b x y c,
  nthq s a = Some x -> nthq s b = Some y -> is_repeated x = true -> is_repeated y = true ->
  q_plain x = true -> q_plain y = true -> c_cov (q_data x) (q_data y) = Some c ->
  ~ q_std x == 0 -> ~ q_std y == 0 ->
  let cov := qclamp (q_std x * q_std y) c in
  step s (SetCov f (Ref a) (Ref b) ANone) = (put s a b (cov / (q_std x * q_std y), cov), Done).
Proof. exact set_cov_inferred_accepts. Qed.
Print Assumptions C04_inferred_ok.

(** rejected: a request implying |correlation| > 1, or involving a value with zero uncertainty or a
    calculated quantity / constant / unknown id, raises and leaves the whole state as it was *)
Theorem C04_reject_corr : forall s f a b r,
  (measured_id s a = false \/ measured_id s b = false \/ std_of s a == 0 \/ std_of s b == 0 \/ r < -1 \/ 1 < r) ->
  exists e, step s (SetCorr f (Ref a) (Ref b) (ANum r)) = (s, Raised e).
Proof. exact reject_corr_lemma. Qed.
Print Assumptions C04_reject_corr.

Theorem C04_reject_cov : forall s f a b c,
  (measured_id s a = false \/ measured_id s b = false \/ std_of s a == 0 \/ std_of s b == 0 \/
   c / (std_of s a * std_of s b) < -1 \/ 1 < c / (std_of s a * std_of s b)) ->
  exists e, step s (SetCov f (Ref a) (Ref b) (ANum c)) = (s, Raised e).
Proof. exact reject_cov_lemma. Qed.
Print Assumptions C04_reject_cov.

(** so is a request whose operand is not a quantity at all (a number, a string) *)
Theorem C04_reject_notq : forall s o cv oa ob r,
  set_parts o = Some (cv, oa, ob, r) -> (oa = NotQ \/ ob = NotQ) -> exists e, step s o = (s, Raised e).
Proof. exact reject_notq_lemma. Qed.
Print Assumptions C04_reject_notq.

(** every call that raises leaves the whole state (table and every record) untouched *)
Theorem C04_reject_untouched : forall s o e, snd (step s o) = Raised e -> fst (step s o) = s.
Proof. exact step_reject_untouched. Qed.
Print Assumptions C04_reject_untouched.

(** a record is the covariance at the time of recording: a later write of .error or .value (which changes a
    standard deviation) leaves what the pair reads unchanged as long as both standard deviations stay non-zero *)
Theorem C04_record_persists : forall s o cv c d,
  is_attr_write o = true -> c <> d ->
  ~ std_of s c == 0 -> ~ std_of s d == 0 ->
  ~ std_of (fst (step s o)) c == 0 -> ~ std_of (fst (step s o)) d == 0 ->
  get cv (fst (step s o)) c d = get cv s c d.
Proof. exact record_persists_lemma. Qed.
Print Assumptions C04_record_persists.

(** bounded: after any history on any table every pair reads a correlation in [-1, 1] *)
Theorem C04_bounded : forall t ops a b, -1 <= get_corr (run ops (init t)) a b <= 1.
Proof. exact bounded_lemma. Qed.
Print Assumptions C04_bounded.

(** isolated: a set request (accepted or not) changes the reads of no other unordered pair *)
Theorem C04_isolated : forall s o cv c d,
  set_parts o <> None -> targets o c d = false -> get cv (fst (step s o)) c d = get cv s c d.
Proof. exact isolated_lemma. Qed.
Print Assumptions C04_isolated.

(** a pair never the target of a set request reads 0 after any history ... *)
Theorem C04_default : forall t ops a b,
  a <> b -> (forall o, In o ops -> targets o a b = false) ->
  get_corr (run ops (init t)) a b = 0 /\ get_cov (run ops (init t)) a b = 0.
Proof. exact default_lemma. Qed.
Print Assumptions C04_default.

(** ... and so does every pair after a reset, until it is the target of a request again *)
Theorem C04_reset : forall s pre post a b,
  a <> b -> (forall o, In o post -> targets o a b = false) ->
  get_corr (run (pre ++ Reset :: post) s) a b = 0 /\ get_cov (run (pre ++ Reset :: post) s) a b = 0.
Proof. exact since_reset_lemma. Qed.
Print Assumptions C04_reset.

(** a measurement with itself: correlation 1, covariance = variance (std <> 0; for std = 0 both read 0) *)
Theorem C04_self : forall s a,
  measured_id s a = true -> ~ std_of s a == 0 ->
  get_corr s a a = 1 /\ get_cov s a a = std_of s a * std_of s a.
Proof. exact self_lemma. Qed.
Print Assumptions C04_self.

(** non-vacuity: a table with two single measurements, a repeated one, a calculated one and a
    zero-uncertainty one; boundary request accepted, out-of-range / zero-error / calculated rejected,
    an inferred request between exactly collinear arrays accepted with correlation -1 *)
Example C04_nonvacuous :
  let t := [ {| q_kind := KSingle; q_err := 1 # 2; q_rstd := 0; q_data := []; q_plain := true |};
             {| q_kind := KSingle; q_err := 1 # 4; q_rstd := 0; q_data := []; q_plain := true |};
             {| q_kind := KRepeated; q_err := 1 # 3; q_rstd := 1; q_data := [9; 10; 11]; q_plain := true |};
             {| q_kind := KRepeated; q_err := 1 # 3; q_rstd := 2; q_data := [7; 5; 3]; q_plain := true |};
             {| q_kind := KDerived; q_err := 1 # 2; q_rstd := 0; q_data := []; q_plain := true |};
             {| q_kind := KSingle; q_err := 0; q_rstd := 0; q_data := []; q_plain := true |} ] in
  let s := run [SetCov Fn (Ref 1) (Ref 0) (ANum (1 # 8)); SetCorr Meth (Ref 2) (Ref 3) ANone] (init t) in
  snd (step (init t) (SetCov Fn (Ref 1) (Ref 0) (ANum (1 # 8)))) = Done /\
  Qeq_bool (get_corr s 0 1) 1 = true /\ Qeq_bool (get_corr s 3 2) (-1) = true /\ Qeq_bool (get_cov s 2 3) (-2) = true /\
  snd (step s (SetCov Fn (Ref 0) (Ref 1) (ANum (9 # 64)))) = Raised EValue /\
  snd (step s (SetCorr Fn (Ref 0) (Ref 5) (ANum (1 # 2)))) = Raised EArithmetic /\
  snd (step s (SetCorr Fn (Ref 4) (Ref 0) (ANum (1 # 2)))) = Raised EUndefinedAction /\
  snd (step s (SetCorr Meth (Ref 0) (Ref 4) (ANum (1 # 2)))) = Raised EIllegalArg /\
  targets (SetCov Fn (Ref 1) (Ref 0) (ANum (1 # 8))) 2 3 = false /\
  measured_id s 2 = true /\ ~ std_of s 2 == 0.
Proof. vm_compute. repeat split; try reflexivity. discriminate. Qed.
