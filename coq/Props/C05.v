(** C05 -- recalculate() brings a result fully up to date; reads are otherwise stable.
    State machine of Model/CoreState.v (buffered derivative results, stored Monte Carlo samples,
    method selection) around the pure evaluator of Model/Core.v, for ANY number type and any
    operator semantics (in particular the tables generated from operations.py). *)
From Coq Require Import List Arith Bool ZArith QArith.
From QV Require Import Base.QOps Gen.OpsTable Model.Core Model.CoreQ Model.CoreState Model.CoreStateQ Proofs.CoreState Proofs.CoreCopy.
Import ListNotations.

Section C05.
  Variable T : Type.
  Variables (zero one two : T) (add mul : T -> T -> T).
  Variable su : uop -> T -> T.
  Variable sb : bop -> T -> T -> T.
  Variable du : uop -> T -> T -> T.
  Variable db : bop -> T -> T -> T -> T -> T.
  Variable negative : T -> bool.
  Notation step := (step T zero one two add mul su sb du db negative).
  Notation run := (run T zero one two add mul su sb du db negative).
  Notation fresh := (fresh T zero one two add mul su sb du db).
  Notation Inv := (Inv T zero one two add mul su sb du db).

  (** every state reachable by any finite sequence of operations satisfies the invariant
      "a buffered result that is not stale equals a fresh evaluation" *)
  Theorem C05_invariant : forall ops, Inv (fst (run (init T) ops)).
  Proof. exact (inv_reachable T zero one two add mul su sb du db negative). Qed.

  (** after any changes, recalculate() makes value and uncertainty (derivative method) those of a
      fresh evaluation of the formula at the current measurements and correlations *)
  Theorem C05_recalc : forall s k, Inv s -> (k < length (objs T s))%nat ->
    effective T s k = Derivative ->
    let s1 := fst (step s (Recalc T k)) in
    snd (step s1 (ReadValue T k)) = OVal T (fst (fresh (objs T s) (corr T s) k)) /\
    snd (step s1 (ReadError T k)) = OVar T (snd (fresh (objs T s) (corr T s) k)).
  Proof. exact (recalc_then_read T zero one two add mul su sb du db negative). Qed.

  (** derivatives are never buffered: they are always those of the current measurements *)
  Theorem C05_derivative_current : forall s k m,
    step s (ReadDeriv T k m) = (s, ODeriv T (deriv T zero one su sb du db (objs T s) k m)).
  Proof. reflexivity. Qed.

  (** between changes, repeated reads return identical numbers (either method) and change nothing *)
  Theorem C05_stable : forall s k, (k < length (dst T s))%nat ->
    let s1 := fst (step s (ReadValue T k)) in
    snd (step s1 (ReadValue T k)) = snd (step s (ReadValue T k)) /\ fst (step s1 (ReadValue T k)) = s1 /\
    snd (step s1 (ReadError T k)) = snd (step s (ReadError T k)) /\ fst (step s1 (ReadError T k)) = s1.
  Proof. exact (read_stable T zero one two add mul su sb du db negative). Qed.

  (** one simulation is kept until recalculation or a change of that quantity's sample size *)
  Theorem C05_mc_kept : forall s x k g, (k < length (dst T s))%nat ->
    mc_gen T (dlookup T s k) = Some g -> x <> Recalc T k -> x <> SetSampleSize T k ->
    mc_gen T (dlookup T (fst (step s x)) k) = Some g.
  Proof. exact (samples_kept T zero one two add mul su sb du db negative). Qed.

  (** "the same formula built afresh": if object k' is a copy of object k (same operators, constants and
      measurements; every intermediate calculated quantity built again, recursively) then its fresh value,
      variance and derivatives with respect to every measurement are those of k.  Together with C05_recalc:
      after recalculate() a result is indistinguishable from the same formula built afresh, also when it
      was assembled through (reused) intermediate results. *)
  Theorem C05_rebuild : forall l rho k k', wf T l = true ->
    copy T zero l k k' -> (k < length l)%nat -> (k' < length l)%nat ->
    value T zero su sb l k = value T zero su sb l k' /\
    err2 T zero one two add mul su sb du db rho l k = err2 T zero one two add mul su sb du db rho l k' /\
    (forall m, not_a_result T zero l m ->
       deriv T zero one su sb du db l k m = deriv T zero one su sb du db l k' m).
  Proof. exact (copy_fresh T zero one two add mul su sb du db). Qed.
End C05.

Print Assumptions C05_invariant.
Print Assumptions C05_rebuild.
Print Assumptions C05_recalc.
Print Assumptions C05_derivative_current.
Print Assumptions C05_stable.
Print Assumptions C05_mc_kept.

(** non-vacuity (executed in Q with the generated tables): t = a * b; r = t * t; read r; a := 8;
    recalculate r; read r.  The read after recalculation is the fresh value 1024 = (8*4)^2 and the
    fresh variance, not the buffered 400. *)
Example C05_nonvacuous :
  let ops := [New oq (OMeas (Some 5) (Some (1#2))); New oq (OMeas (Some 4) (Some (3#10)));
              New oq (ODer (FB MUL (RObj 0) (RObj 1))); New oq (ODer (FB MUL (RObj 2) (RObj 2)));
              ReadValue oq 3; SetValue oq 0 (Some 8); ReadValue oq 3; Recalc oq 3; ReadValue oq 3] in
  snd (run oq qzero qone qtwo oadd omul q_su q_sb q_du q_db qnegative qinit ops)
  = [ONone oq; ONone oq; ONone oq; ONone oq; OVal oq (Some 400); ONone oq; OVal oq (Some 400); ONone oq;
     OVal oq (Some 1024)].
Proof. vm_compute. reflexivity. Qed.
