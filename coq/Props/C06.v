(** C06 -- Fit parameters are the weighted least-squares optimum.
    Only theorem statements, each closed by [exact], each followed by Print Assumptions.
    The model lambdas (Gen/Fitters.v) and the arithmetic glue (Gen/FitGlue.v: weights handed
    to polyfit, the x-range mask, the effective variance, where the slope is evaluated) are
    GENERATED from qexpy/fitting/{utils,fitting}.py and qexpy/utils/utils.py on every run. *)
From Coq Require Import List Reals QArith Qreals Bool Arith.
From QV Require Import Gen.Fitters Gen.FitGlue Model.Fit Proofs.FitR Proofs.FitQ.
Import ListNotations.

(** (a) a coefficient vector that satisfies the weighted normal equations minimises
    sum (w_i (y_i - P(x_i)))^2 among all coefficient vectors of the same length:
    any degree, any number of points, real competitors *)
Theorem C06_normal_eqs_optimal : forall (pts : list FR.pt) (p : list R), FR.normal_eqs pts p ->
  forall q, length q = length p -> (FR.chi2 pts p <= FR.chi2 pts q)%R.
Proof. exact normal_eqs_optimal. Qed.
Print Assumptions C06_normal_eqs_optimal.

(** ... and the excess of any other polynomial is the weighted square of the difference *)
Theorem C06_excess : forall (pts : list FR.pt) (p : list R), FR.normal_eqs pts p ->
  forall q, length q = length p ->
  (FR.chi2 pts q - FR.chi2 pts p
   = FR.gsum (fun t => (FR.pw t * (FR.peval q (FR.px t) - FR.peval p (FR.px t))) ^ 2) pts)%R.
Proof. exact normal_eqs_excess. Qed.
Print Assumptions C06_excess.

(** two solutions of the normal equations agree at every data point of non-zero weight (the
    least-squares polynomial is unique as a function on the data), so comparing numpy.polyfit with
    the certified solver compares it with THE optimum *)
Theorem C06_unique_on_data : forall (pts : list FR.pt) (p q : list R),
  FR.normal_eqs pts p -> FR.normal_eqs pts q -> length q = length p ->
  forall t, In t pts -> (FR.pw t * (FR.peval q (FR.px t) - FR.peval p (FR.px t)))%R = 0%R.
Proof. exact normal_eqs_agree. Qed.
Print Assumptions C06_unique_on_data.

(** the weights handed to polyfit are 1/sigma (generated text); polyfit multiplies the residual by
    them, so the minimised quantity is sum ((y - P(x))/sigma)^2 and the normal equations carry 1/sigma^2 *)
Theorem C06_weights : forall (data : list (R * R * R)) (p : list R),
  (forall t, In t data -> snd t <> 0%R) ->
  (forall s, FitGlueR.polyfit_weight s = (1 / s)%R) /\
  FR.chi2 (with_weights data) p
    = FR.gsum (fun t => ((snd (fst t) - FR.peval p (fst (fst t))) / snd t) ^ 2)%R data /\
  (forall j, FR.moment (with_weights data) p j
    = FR.gsum (fun t => (1 / (snd t) ^ 2) * (snd (fst t) - FR.peval p (fst (fst t))) * (fst (fst t)) ^ j)%R data).
Proof. exact weights_lemma. Qed.
Print Assumptions C06_weights.

Theorem C06_unweighted : forall (data : list (R * R)) (p : list R),
  FR.chi2 (map (fun t => (fst t, snd t, 1%R)) data) p
  = FR.gsum (fun t => (snd t - FR.peval p (fst t)) ^ 2)%R data.
Proof. exact unweighted_lemma. Qed.
Print Assumptions C06_unweighted.

(** parameters are listed from the highest power down to the constant term, in the order in
    which the model lambdas (as written in the source today) take them *)
Theorem C06_order : forall x : R,
  (forall a b, FitR.fit_lin x a b = a * x + b)%R /\
  (forall a b c, FitR.fit_quad x a b c = a * x ^ 2 + b * x + c)%R /\
  (forall cs, FitR.fit_poly x cs = FR.peval cs x) /\
  arity_lin = 2%nat /\ arity_quad = 3%nat.
Proof. exact order_lemma. Qed.
Print Assumptions C06_order.

(** x-range: exactly the points with low <= x < high (mask generated from the source) ... *)
Theorem C06_xrange : forall lo hi (l : list FQ.dpt) t,
  In t (FQ.select lo hi l) <-> In t l /\ lo <= FQ.dx t /\ FQ.dx t < hi.
Proof. exact select_in. Qed.
Print Assumptions C06_xrange.

(** ... in their original order and multiplicity: selection distributes over concatenation and keeps
    or drops each single point *)
Theorem C06_xrange_order : forall lo hi,
  (forall l m, FQ.select lo hi (l ++ m) = FQ.select lo hi l ++ FQ.select lo hi m) /\
  (forall t, (lo <= FQ.dx t /\ FQ.dx t < hi -> FQ.select lo hi [t] = [t]) /\
             (~ (lo <= FQ.dx t /\ FQ.dx t < hi) -> FQ.select lo hi [t] = [])).
Proof. intros lo hi. split; [exact (select_app lo hi)|exact (select_one lo hi)]. Qed.
Print Assumptions C06_xrange_order.

Theorem C06_xrange_arg : forall xr data sel, FQ.select_arg xr data = FQ.FOk sel ->
  match xr with
  | FQ.XPair lo hi => lo <= hi /\ sel = FQ.select lo hi data
  | FQ.XNone | FQ.XEmpty => sel = data
  | _ => False
  end.
Proof. exact select_arg_spec. Qed.
Print Assumptions C06_xrange_arg.

(** the least-squares problem built from the selected points: x, y and the weights *)
Theorem C06_points : forall sel,
  map FQ.px (FQ.lsq_points sel) = map FQ.dx sel /\ map FQ.py (FQ.lsq_points sel) = map FQ.dy sel /\
  map FQ.pw (FQ.lsq_points sel)
   = (if FQ.any_pos (map FQ.dye sel) then map (fun t => 1 / FQ.dye t) sel else repeat 1 (length sel)).
Proof. exact lsq_points_spec. Qed.
Print Assumptions C06_points.

(** whatever the executable model of fit_to_xy_dataset returns for a polynomial model is the
    weighted least-squares optimum over the selected points among ALL real coefficient vectors
    (the solver's answer is certificate-checked, so no proof of the elimination is needed) *)
Theorem C06_model_optimal : forall data xr deg p cov,
  FQ.fit_poly_raw data xr deg = FQ.FOk (p, cov) ->
  exists sel, FQ.select_arg xr data = FQ.FOk sel /\ length p = S deg /\ (S deg < length sel)%nat /\
    forall q : list R, length q = S deg ->
      (FR.chi2 (map ptR (FQ.lsq_points sel)) (map Q2R p) <= FR.chi2 (map ptR (FQ.lsq_points sel)) q)%R.
Proof. exact fit_poly_raw_optimal. Qed.
Print Assumptions C06_model_optimal.

(** polynomial covariance: the residual-scaled convention
    (A^T W A) * cov = chi2_min / (n - (deg + 1)) * I *)
Theorem C06_cov_poly : forall pts deg p cov,
  FQ.polyfit pts deg = FQ.FOk (p, cov) ->
  forall i j, (i < S deg)%nat -> (j < S deg)%nat ->
  FQ.gsum (fun k => FQ.normal_entry pts (S deg) i k * FQ.mat_entry cov k j) (seq 0 (S deg))
  == (if Nat.eqb i j then FQ.chi2 pts p / inject_Z (Z.of_nat (length pts - S deg)) else 0).
Proof. exact polyfit_cov. Qed.
Print Assumptions C06_cov_poly.

(** (b) non-polynomial models.  PARTIAL: scipy's optimiser is an oracle ([optimise]); what is proved
    is the glue around it.  Full statement (not proved, the optimiser is not modelled):
      the returned parameters are a stationary point of sum ((y_i - f(x_i; p)) / s_i)^2 with
      s_i^2 = sigma_yi^2 + (f'(x_i) sigma_xi)^2 and the covariance is inverse (J^T W J).
    Proved: when some x-uncertainty is positive the sigma of the second pass is
    sqrt (sigma_y^2 + (sigma_x * slope)^2) with the slope of the first-pass curve taken AT x_i ... *)
Theorem C06_effective_variance_partial :
  (forall (P : Type) (optimise : option (list Q) -> P) (slope : P -> Q -> Q) sel,
    FQ.any_pos (map FQ.dxe sel) = true ->
    FQ.curve_fit_sigmas P optimise slope sel =
     (FQ.yerr_used sel,
      Some (map (fun ts => (snd ts) ^ 2 + (FQ.dxe (fst ts) * slope (optimise (FQ.yerr_used sel)) (FQ.dx (fst ts))) ^ 2)
                (combine sel (match FQ.yerr_used sel with Some l => l | None => repeat 0 (length sel) end))))) /\
  (forall sy sx slope : R, slope_at_values = true /\
     sqrt (FitGlueR.eff_variance sy sx slope) = sqrt (sy ^ 2 + (slope * sx) ^ 2)).
Proof. split; [exact second_pass_lemma|exact eff_variance_lemma]. Qed.
Print Assumptions C06_effective_variance_partial.

(** ... and without x-uncertainties there is a single pass whose sigma is the y-uncertainties (or None) *)
Theorem C06_no_xerr_single_pass_partial :
  forall (P : Type) (optimise : option (list Q) -> P) (slope : P -> Q -> Q) sel,
  (forall e, In e (map FQ.dxe sel) -> e <= 0) ->
  FQ.curve_fit_sigmas P optimise slope sel = (FQ.yerr_used sel, None).
Proof. intros. apply single_pass_lemma. apply any_pos_false. assumption. Qed.
Print Assumptions C06_no_xerr_single_pass_partial.

(** the central difference of numerical_derivative (generated text) is exact on quadratics,
    which is what the correspondence uses as the rational user model *)
Theorem C06_slope_exact_on_quadratics : forall a b c x0 dx : R, dx <> 0%R ->
  FR.central_diff (fun x => a * x ^ 2 + b * x + c)%R x0 dx = (2 * a * x0 + b)%R.
Proof. exact central_diff_quadratic. Qed.
Print Assumptions C06_slope_exact_on_quadratics.

(** non-vacuity: a weighted quadratic fit of six points restricted to 1 <= x < 5 is accepted by the
    model, so the hypotheses of C06_model_optimal / C06_cov_poly / C06_normal_eqs_optimal are met *)
Example C06_nonvacuous :
  let data := [FQ.Build_dpt 0 0 1 (1#2); FQ.Build_dpt 1 0 (7#2) 1; FQ.Build_dpt 2 0 9 (1#4);
               FQ.Build_dpt 3 0 20 2; FQ.Build_dpt 4 0 33 1; FQ.Build_dpt 5 0 58 (1#2)] in
  (exists p cov, FQ.fit_poly_raw data (FQ.XPair 1 5) 2 = FQ.FOk (p, cov) /\
     p = [5289 # 2468; -2027 # 2468; 1288 # 617] /\
     FR.normal_eqs (map ptR (FQ.lsq_points (FQ.select 1 5 data))) (map Q2R p)) /\
  FQ.fit_poly_raw data (FQ.XPair 5 1) 2 = FQ.FRaise FQ.EValue /\
  fst (FQ.curve_fit_sigmas (list Q) (fun _ => [1; 2]) (fun p x => 2 * x)
        [FQ.Build_dpt 1 (1#2) 3 1; FQ.Build_dpt 2 0 5 1]) = Some [1; 1] /\
  snd (FQ.curve_fit_sigmas (list Q) (fun _ => [1; 2]) (fun p x => 2 * x)
        [FQ.Build_dpt 1 (1#2) 3 1; FQ.Build_dpt 2 0 5 1]) = Some [8 # 4; 1].
Proof.
  cbv zeta. split; [|split; [vm_compute; reflexivity|split; vm_compute; reflexivity]].
  eexists. eexists. split; [vm_compute; reflexivity|]. split; [reflexivity|].
  apply normal_eqs_b_sound. vm_compute. reflexivity.
Qed.
