(** C07 -- A fit result is self-consistent: function, residuals, chi-squared, correlations.
    Only theorem statements, each closed by [exact], each followed by Print Assumptions.
    The model lambdas (Gen/Fitters.v) and the chi-squared term / guard, the cov2corr entry and
    the index arithmetic of __correlate_fit_params (Gen/FitGlue.v) are GENERATED from the source
    on every run. *)
From Coq Require Import List Reals QArith Qreals Bool Arith.
From QV Require Import Gen.Fitters Gen.FitGlue Model.Fit Proofs.FitR Proofs.FitQ.
Import ListNotations.

(** FITTERS[polynomial], as written in the source today, is Horner's rule for
    sum_i c_i x^(d-i), coefficients highest power first, any number of coefficients *)
Theorem C07_poly_function : forall (x : R) (cs : list R), FitR.fit_poly x cs = FR.peval cs x.
Proof. exact fit_poly_peval. Qed.
Print Assumptions C07_poly_function.

(** fit_function(x) is the model evaluated at x with the returned parameters, for every pre-set model *)
Theorem C07_function_bound : forall x : R,
  (forall a b, FR.model_fn FR.MLin [a; b] x = FR.peval [a; b] x) /\
  (forall a b c, FR.model_fn FR.MQuad [a; b; c] x = FR.peval [a; b; c] x) /\
  (forall cs, FR.model_fn FR.MPoly cs x = FR.peval cs x) /\
  (forall c a, FR.model_fn FR.MExpo [c; a] x = c * exp (- (a * x)))%R /\
  (forall n m s, 0 < s ->
     FR.model_fn FR.MGauss [n; m; s] x = n / (s * sqrt (2 * PI)) * exp (- ((x - m) ^ 2 / (2 * s ^ 2))))%R.
Proof. exact function_bound_lemma. Qed.
Print Assumptions C07_function_bound.

(** the same for the functions that are executed in the correspondence, and their real reading *)
Theorem C07_function_bound_executed : forall x : Q,
  ((forall a b, FQ.model_fn FQ.MLin [a; b] x == FQ.peval [a; b] x) /\
   (forall a b c, FQ.model_fn FQ.MQuad [a; b; c] x == FQ.peval [a; b; c] x) /\
   (forall cs, FQ.model_fn FQ.MPoly cs x == FQ.peval cs x)) /\
  (forall cs, Q2R (FQ.model_fn FQ.MPoly cs x) = FR.peval (map Q2R cs) (Q2R x)).
Proof. intros x. split; [exact (model_fn_Q_peval x)|intros cs; exact (model_fn_Q_R cs x)]. Qed.
Print Assumptions C07_function_bound_executed.

(** residual i is y_i - fit_function(x_i), one per point of the data set *)
Theorem C07_residuals : forall (f : Q -> Q) data,
  length (FQ.residuals f data) = length data /\
  forall i, nth_error (FQ.residuals f data) i
            = option_map (fun t => FQ.dy t - f (FQ.dx t)) (nth_error data i).
Proof. intros f data. split; [exact (residuals_length f data)|exact (residuals_nth f data)]. Qed.
Print Assumptions C07_residuals.

(** chi-squared (term and guard generated from the source) is the sum of (residual / sigma_y)^2 over
    exactly the points with sigma_y > 0 *)
Theorem C07_chi2 : forall (f : Q -> Q) data,
  (forall t, In t data -> 0 <= FQ.dye t) ->
  FQ.chi2_of f data
  == FQ.gsum (fun t => ((FQ.dy t - f (FQ.dx t)) / FQ.dye t) ^ 2)
             (filter (fun t => negb (Qle_bool (FQ.dye t) 0)) data).
Proof. exact chi2_lemma. Qed.
Print Assumptions C07_chi2.

(** one covariance matrix: uncertainties, reported correlation matrix (cov2corr entry generated from
    the source) and what set_covariance stores for a pair all come from C ... *)
Theorem C07_one_covariance : forall (C : nat -> nat -> R) i j,
  (forall a b, C a b = C b a) -> (0 < C i i)%R -> (0 < C j j)%R ->
  FR.perr C i = sqrt (C i i) /\
  FR.pcorr C i j = (C i j / (sqrt (C i i) * sqrt (C j j)))%R /\
  FR.stored_corr (C i j) (FR.perr C i) (FR.perr C j) = FR.pcorr C i j /\
  FR.pcorr C j i = FR.pcorr C i j /\
  FR.pcorr C i i = 1%R /\
  (FR.pcorr C i j * FR.perr C i * FR.perr C j)%R = C i j /\
  ((FR.perr C i) ^ 2)%R = C i i.
Proof. exact one_covariance_lemma. Qed.
Print Assumptions C07_one_covariance.

(** ... and the loop of __correlate_fit_params (index arithmetic generated from the source) registers,
    for every pair of distinct parameters, the covariance entry of exactly that pair *)
Theorem C07_registered : forall cov i j, (i < length cov)%nat -> (j < length cov)%nat -> i <> j ->
  FQ.registered_cov cov i j = FQ.mat_entry cov (Nat.min i j) (Nat.max i j).
Proof. exact registered_lemma. Qed.
Print Assumptions C07_registered.

(** the band: what first-order propagation computes from the parameter uncertainties and the
    registered covariances equals g^T C g, for any number of parameters *)
Theorem C07_band : forall n (g sigma : nat -> R) (cov C : nat -> nat -> R),
  (forall i j, C i j = C j i) ->
  (forall i, (i < n)%nat -> ((sigma i) ^ 2)%R = C i i) ->
  (forall i j, (i < j)%nat -> (j < n)%nat -> cov i j = C i j) ->
  FR.propagated_var n g sigma cov = FR.quad_form n g C.
Proof. exact band_lemma. Qed.
Print Assumptions C07_band.

Theorem C07_band_rho : forall n (g sigma : nat -> R) (rho C : nat -> nat -> R),
  (forall i j, C i j = C j i) ->
  (forall i, (i < n)%nat -> ((sigma i) ^ 2)%R = C i i) ->
  (forall i j, (i < j)%nat -> (j < n)%nat -> (rho i j * sigma i * sigma j)%R = C i j) ->
  (FR.rsum n (fun i => (g i * sigma i) ^ 2)
    + 2 * FR.psum n (fun i j => g i * g j * rho i j * sigma i * sigma j))%R
  = FR.quad_form n g C.
Proof. exact band_rho_lemma. Qed.
Print Assumptions C07_band_rho.

(** non-vacuity: a degree-3 coefficient list evaluated by the executed polynomial model, residuals and
    chi-squared of a data set with one point without y-uncertainty, and the registration loop on 3 parameters *)
Example C07_nonvacuous :
  FQ.model_fn FQ.MPoly [1#2; 3; 2; 1] 2 == 21 /\
  FQ.residuals (FQ.model_fn FQ.MLin [2; 1]) [FQ.Build_dpt 0 0 1 1; FQ.Build_dpt 1 0 4 0; FQ.Build_dpt 2 0 7 (1#2)] = [0 # 1; 1 # 1; 2 # 1]
  /\ FQ.chi2_of (FQ.model_fn FQ.MLin [2; 1]) [FQ.Build_dpt 0 0 1 1; FQ.Build_dpt 1 0 4 0; FQ.Build_dpt 2 0 7 (1#2)] == 16 /\
  FQ.registered_cov [[1; 2; 3]; [2; 5; 6]; [3; 6; 9]] 2 1 = 6 /\
  (exists C : nat -> nat -> R, (forall a b, C a b = C b a) /\ (0 < C 0%nat 0%nat)%R /\ (0 < C 1%nat 1%nat)%R /\ C 0%nat 1%nat <> 0%R).
Proof.
  split; [vm_compute; reflexivity|]. split; [vm_compute; reflexivity|]. split; [vm_compute; reflexivity|].
  split; [vm_compute; reflexivity|].
  exists (fun a b => 1%R). repeat split; try apply Rlt_0_1. apply R1_neq_R0.
Qed.
