(** C08 -- Units of results follow dimensional analysis, independent of factor order.
    Only theorem statements, each closed by [exact], each followed by Print Assumptions.
    [UNIT_OPERATIONS] and the bodies of [__neg __add_and_sub __mul __div __sqrt] and of the
    exponent-update helper are GENERATED from qexpy/utils/units.py on every run
    (Gen/UnitsGen.v); [operate_with_units] / [propagate_units] are modelled in Model/Units.v.
    No compound-unit definition is active here ([defs = []], where every symbol denotes
    itself: [delta]); C18 is the same theorem under arbitrary definitions.

    [unit_of 1 [] e] is the pair (unit of the quantity built by the tree [e], "a mismatch
    warning was issued"); [dim u k] the exponent of symbol [k] in [u]; [dspec delta e] the
    dimension of [e] by dimensional analysis: multiplication adds, division subtracts, a constant
    power multiplies, sqrt halves, neg + - keep the common dimension.  [in_domain] is the quantifier of the
    property: operators in {neg, sqrt, add, sub, mul, div, constant power}, every leaf unit a dict
    (unique symbols), every non-constant operand of every operation carries a unit of
    non-zero dimension. *)
From Coq Require Import List QArith Bool PArith Permutation.
From QV Require Import Model.UnitsBase Gen.UnitsGen Model.Units Proofs.UnitsBase Proofs.Units.
Import ListNotations.
Open Scope Q_scope.

(** for every tree in the domain the propagated unit exists, is a dict, denotes exactly the
    dimension of dimensional analysis when no warning was issued, and a warning is issued
    exactly when the two operands of the root + / - genuinely differ in dimension, in which
    case the result has no unit *)
Theorem C08_dim : forall e, in_domain 1 [] delta e ->
  exists u w, unit_of 1 [] e = Some (u, w) /\ NoDup (keys u) /\
    (w = false -> forall k, dim u k == dspec delta e k) /\
    (w = true -> u = [] /\ genuine_mismatch delta e) /\
    (genuine_mismatch delta e -> w = true).
Proof. exact C08_dim_lemma. Qed.
Print Assumptions C08_dim.

(** operands of + / - whose units denote the same exponents (in particular: the same factors
    written in another order) are not a mismatch, and the sum keeps that unit *)
Theorem C08_order_insensitive : forall o u1 u2,
  is_addsub o = true -> NoDup (keys u1) -> NoDup (keys u2) -> has_unit delta u1 ->
  (forall k, dim u1 k == dim u2 k) ->
  exists u, unit_of 1 [] (Bin o (Leaf u1) (Leaf u2)) = Some (u, false) /\ forall k, dim u k == dim u1 k.
Proof. exact order_insensitive_lemma. Qed.
Print Assumptions C08_order_insensitive.

Theorem C08_order_insensitive_perm : forall o u1 u2,
  is_addsub o = true -> NoDup (keys u1) -> has_unit delta u1 -> Permutation u1 u2 ->
  exists u, unit_of 1 [] (Bin o (Leaf u1) (Leaf u2)) = Some (u, false) /\ forall k, dim u k == dim u1 k.
Proof. exact order_insensitive_perm. Qed.
Print Assumptions C08_order_insensitive_perm.

(** units that cancel disappear: (a*b)/b has the exponents of a and no zero exponent is kept *)
Theorem C08_cancel : forall a b, NoDup (keys a) -> NoDup (keys b) ->
  exists ab r, operate_with_units 1 [] OP_mul [a; b] = Some (ab, false) /\
               operate_with_units 1 [] OP_div [ab; b] = Some (r, false) /\
               (forall k, dim r k == dim a k) /\ (forall k v, In (k, v) r -> ~ v == 0).
Proof. exact cancel_lemma. Qed.
Print Assumptions C08_cancel.

Theorem C08_no_zero_exponents : forall o a b u w, (o = OP_mul \/ o = OP_div) ->
  operate_with_units 1 [] o [a; b] = Some (u, w) -> forall k v, In (k, v) u -> ~ v == 0.
Proof. exact no_zero_lemma. Qed.
Print Assumptions C08_no_zero_exponents.

(** the recursion bound of the model plays no role when nothing is defined *)
Theorem C08_fuel_irrelevant : forall f e, unit_of (S f) [] e = unit_of 1 [] e.
Proof. exact unit_of_fuel_nil. Qed.
Print Assumptions C08_fuel_irrelevant.

(** non-vacuity: (m*a) + (a*m) is in the domain and keeps the unit m*a without warning;
    m - a is in the domain, is a genuine mismatch, warns and has no unit; the square root of
    the constant power 1/2 of m^2/a has exponents 1/2 and -1/4 *)
Example C08_nonvacuous :
  let m := 1%positive in let a := 2%positive in
  let e1 := Bin OP_add (Bin OP_mul (Leaf [(m, 1)]) (Leaf [(a, 1)])) (Bin OP_mul (Leaf [(a, 1)]) (Leaf [(m, 1)])) in
  let e2 := Bin OP_sub (Leaf [(m, 1)]) (Leaf [(a, 1)]) in
  let e3 := Un OP_sqrt (Bin OP_pow (Bin OP_div (Leaf [(m, 2 # 1)]) (Leaf [(a, 1)])) (Cst (1 # 2))) in
  in_domain 1 [] delta e1 /\ unit_of 1 [] e1 = Some ([(m, 1); (a, 1)], false) /\
  in_domain 1 [] delta e2 /\ genuine_mismatch delta e2 /\ unit_of 1 [] e2 = Some ([], true) /\
  in_domain 1 [] delta e3 /\ exists u, unit_of 1 [] e3 = Some (u, false) /\ dim u m == 1 # 2 /\ dim u a == - (1 # 4).
Proof.
  assert (Hnz : forall u k, Qeq_bool (xdim delta u k) 0 = false -> ~ xdim delta u k == 0).
  { intros u k H E. apply Qeq_bool_iff in E. congruence. }
  assert (Hok : forall e u w k, unit_of 1 [] e = Some (u, w) -> Qeq_bool (xdim delta u k) 0 = false ->
                                operand_ok 1 [] delta e).
  { intros e u w k H1 H2. right. exists u, w. split; [exact H1|]. exists k. apply Hnz. exact H2. }
  assert (Hleaf : forall s x, Qeq_bool x 0 = false -> in_domain 1 [] delta (Leaf [(s, x)]) /\ operand_ok 1 [] delta (Leaf [(s, x)])).
  { intros s x Hx. split.
    - simpl. constructor; [intros []|constructor].
    - apply (Hok _ [(s, x)] false s); [reflexivity|]. simpl. unfold delta. rewrite Pos.eqb_refl.
      destruct (Qeq_bool (x * 1 + 0) 0) eqn:E; [|reflexivity]. apply Qeq_bool_iff in E.
      assert (x == 0) by (rewrite <- E; ring). apply Qeq_bool_iff in H. congruence. }
  cbv zeta.
  destruct (Hleaf 1%positive 1 eq_refl) as [Dm Om]. destruct (Hleaf 2%positive 1 eq_refl) as [Da Oa].
  destruct (Hleaf 1%positive (2 # 1) eq_refl) as [Dm2 Om2].
  assert (D1 : in_domain 1 [] delta (Bin OP_mul (Leaf [(1%positive, 1)]) (Leaf [(2%positive, 1)]))).
  { simpl. split; [apply Dm|]. split; [apply Da|]. split; [exact Om|]. left. split; [reflexivity|exact Oa]. }
  assert (D2 : in_domain 1 [] delta (Bin OP_mul (Leaf [(2%positive, 1)]) (Leaf [(1%positive, 1)]))).
  { simpl. split; [apply Da|]. split; [apply Dm|]. split; [exact Oa|]. left. split; [reflexivity|exact Om]. }
  split; [|split; [|split; [|split; [|split; [|split]]]]].
  - cbn [in_domain]. split; [exact D1|]. split; [exact D2|]. split.
    + apply (Hok _ [(1%positive, 1); (2%positive, 1)] false 1%positive); reflexivity.
    + left. split; [reflexivity|]. apply (Hok _ [(2%positive, 1); (1%positive, 1)] false 1%positive); reflexivity.
  - reflexivity.
  - cbn [in_domain]. split; [apply Dm|]. split; [apply Da|]. split; [exact Om|]. left. split; [reflexivity|exact Oa].
  - simpl. split; [reflexivity|]. split; [reflexivity|]. split; [reflexivity|]. exists 1%positive. intro H. vm_compute in H. discriminate H.
  - reflexivity.
  - cbn [in_domain]. split; [reflexivity|]. split.
    + split; [|split; [exact I|split]].
      * cbn [in_domain]. split; [apply Dm2|]. split; [apply Da|]. split; [exact Om2|]. left. split; [reflexivity|exact Oa].
      * apply (Hok _ [(1%positive, 2 # 1); (2%positive, - (1))] false 1%positive); reflexivity.
      * right. split; [reflexivity|]. eexists. reflexivity.
    + apply (Hok _ [(1%positive, (2 # 1) * (1 # 2)); (2%positive, - (1) * (1 # 2))] false 1%positive); reflexivity.
  - eexists. split; [vm_compute; reflexivity|]. split; reflexivity.
Qed.
