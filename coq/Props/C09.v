(** C09 -- Printed value and uncertainty are the correctly rounded pair in every style.
    Only theorem statements, each closed by [exact], each followed by Print Assumptions.

    [printer ord rd s c v e] (Model/Printing.v) is qexpy.utils.printing.get_printer(s)(v, e)
    under the significant-figure configuration c, over exact rationals.  It returns the
    printed text as mantissa integers, number of decimals and exponent ([None] = the code
    raises).  [ord] stands for floor(log10|x|), [rd] for the four rounding steps (Python's
    round() on value and uncertainty, and "{:.{d}f}".format on each); the theorems hold for
    EVERY order function with 10^ord x <= |x| < 10^(ord x+1) and EVERY four functions that land
    within half a unit of their argument (so: round-half-even, format's rounding, any
    tie-breaking).  [out_value o], [out_error o] are the numbers the text reads back as
    (mantissa / 10^decimals * 10^exponent), [out_unit o] the unit of the last printed digit.
    n ranges over 1..13 (the property: 1..6); no bound on the magnitudes is needed. *)
From Coq Require Import ZArith QArith Qabs Bool.
From Coq Require Import List.
From QV Require Import Model.Printing Model.PrintingObj Proofs.PrintingAux Proofs.Printing Proofs.PrintingInst Proofs.PrintingObj.
Open Scope Q_scope.

(** automatic and error mode, non-zero uncertainty: formatting succeeds; value and uncertainty
    carry the same number of decimals [o_dec o] (the output has one field for both and the
    uncertainty is not the bare "0"); that number is the one that ends at the place p of the
    n-th significant figure of the PRINTED (rounded, possibly carried) uncertainty, or 0 when
    that place is left of the units of the mantissa; the printed uncertainty has no digit
    beyond that place; both numbers are within (1/2 + 1/20) units of that place of the exact
    ones. *)
Theorem C09_auto_error : forall ord, ord_spec ord -> forall rd, rounders_ok rd ->
  forall s c v e, (1 <= c_n c <= 13)%Z -> c_mode c <> ValueMode -> 0 < e ->
  exists o, printer ord rd s c v e = Some o /\ shape ord s v e o /\ o_bare o = false /\
    let E := out_error o in
    let p := (ord E - c_n c + 1)%Z in
    ~ E == 0 /\
    o_dec o = Z.max 0 (o_exp o - p) /\
    (exists j : Z, E == inject_Z j * pow10 p) /\
    Qabs (out_value o - v) <= ((1 # 2) + (1 # 20)) * pow10 p /\
    Qabs (out_error o - e) <= ((1 # 2) + (1 # 20)) * pow10 p /\
    (* the uncertainty itself is rounded once: half a unit of ITS n-th figure *)
    Qabs (out_error o - e) <= (1 # 2) * pow10 (ord e - c_n c + 1) /\
    (* the printed uncertainty is in the decade of the given one or (carry) the next, and NOTHING is
       printed below the place of the n-th figure of the uncertainty as given (so 12345 +/- 1000
       with n = 1 cannot print 12300 +/- 1000) *)
    (ord (out_error o) = ord e \/ ord (out_error o) = (ord e + 1)%Z) /\
    (exists j : Z, out_value o == inject_Z j * pow10 (ord e - c_n c + 1)) /\
    (exists j : Z, out_error o == inject_Z j * pow10 (ord e - c_n c + 1)).
Proof. exact auto_error_lemma. Qed.
Print Assumptions C09_auto_error.

(** value mode, non-zero value: the same with the place taken from the printed value; the
    uncertainty is the bare "0" exactly when it is zero *)
Theorem C09_value_mode : forall ord, ord_spec ord -> forall rd, rounders_ok rd ->
  forall s c v e, (1 <= c_n c <= 13)%Z -> c_mode c = ValueMode -> ~ v == 0 -> 0 <= e ->
  exists o, printer ord rd s c v e = Some o /\ shape ord s v e o /\
    (e == 0 -> o_bare o = true /\ o_err o = 0%Z) /\ (0 < e -> o_bare o = false) /\
    let V := out_value o in
    let p := (ord V - c_n c + 1)%Z in
    ~ V == 0 /\
    o_dec o = Z.max 0 (o_exp o - p) /\
    (exists j : Z, V == inject_Z j * pow10 p) /\
    Qabs (out_value o - v) <= ((1 # 2) + (1 # 20)) * pow10 p /\
    Qabs (out_error o - e) <= ((1 # 2) + (1 # 20)) * pow10 p /\
    (* the value itself is rounded once: half a unit of ITS n-th figure *)
    Qabs (out_value o - v) <= (1 # 2) * pow10 (ord v - c_n c + 1) /\
    (ord (out_value o) = ord v \/ ord (out_value o) = (ord v + 1)%Z) /\
    (exists j : Z, out_value o == inject_Z j * pow10 (ord v - c_n c + 1)) /\
    (exists j : Z, out_error o == inject_Z j * pow10 (ord v - c_n c + 1)).
Proof. exact value_mode_lemma. Qed.
Print Assumptions C09_value_mode.

(** zero uncertainty: formatting succeeds in every mode and style, the uncertainty is the bare
    "0"; "0 +/- 0" for a zero value; otherwise
    - automatic / error mode: the value is formatted directly: it is within half a unit of its
      last printed digit, and the decimals are those of its n-th significant figure
      ([order_of] is floor(log10) on every number of at most 13 digits, C09_order_of_exact);
    - value mode: the value is rounded to its n-th significant figure (half a unit of that
      figure, one rounding only), printed without a digit beyond that place.
    (DESIGN section 4 states |V - v| <= 1/2 * 10^(ex - d) for all modes; in value mode that is
    false of any faithful model when the place is left of the units -- 123456 with n = 1 prints
    "100000 +/- 0", which is what the property asks for -- so the value-mode clause is stated
    with the place of the n-th figure instead.) *)
Theorem C09_zero_error : forall ord, ord_spec ord -> forall rd, rounders_ok rd ->
  forall s c v e, (1 <= c_n c <= 13)%Z -> e == 0 ->
  exists o, printer ord rd s c v e = Some o /\ o_bare o = true /\ o_err o = 0%Z /\
    (v == 0 -> o_val o = 0%Z /\ o_dec o = 0%Z /\ o_sci o = false) /\
    (~ v == 0 -> shape ord s v e o /\
       (c_mode c <> ValueMode ->
          o_dec o = Z.max 0 (o_exp o - (order_of ord v - c_n c + 1)) /\
          Qabs (out_value o - v) <= (1 # 2) * out_unit o) /\
       (c_mode c = ValueMode ->
          let p := (ord (out_value o) - c_n c + 1)%Z in
          o_dec o = Z.max 0 (o_exp o - p) /\ (exists j : Z, out_value o == inject_Z j * pow10 p) /\
          Qabs (out_value o - v) <= (1 # 2) * pow10 (ord v - c_n c + 1))).
Proof. exact zero_error_lemma. Qed.
Print Assumptions C09_zero_error.

(** value mode with a zero value (no significant figure of its own): zero is printed, the
    uncertainty is within half a unit of its last printed digit, decimals from its n-th figure *)
Theorem C09_zero_value : forall ord, ord_spec ord -> forall rd, rounders_ok rd ->
  forall s c v e, (1 <= c_n c <= 13)%Z -> c_mode c = ValueMode -> v == 0 -> 0 < e ->
  exists o, printer ord rd s c v e = Some o /\ shape ord s v e o /\ o_bare o = false /\ o_val o = 0%Z /\
    o_dec o = Z.max 0 (o_exp o - (order_of ord e - c_n c + 1)) /\
    Qabs (out_error o - e) <= (1 # 2) * out_unit o.
Proof. exact zero_value_lemma. Qed.
Print Assumptions C09_zero_value.

(** object histories (Model/PrintingObj.v): a measurement object is printed, changed through
    any public path (value / error / relative_error setters, use_std / use_error_on_mean /
    use_error_weighted_mean / use_propagated_error, changes of the print settings) and printed
    again, any number of times.  Every text printed along every such history is the printer's
    text for the value and uncertainty the object holds AT THAT MOMENT under the settings of
    that moment (so the four theorems above apply to the current pair: the state is in their
    domain), and formatting succeeds. *)
Theorem C09_history : forall ord, ord_spec ord -> forall rd, rounders_ok rd ->
  forall ops st, state_ok st -> Forall op_ok ops ->
  Forall (fun p => state_ok (fst p) /\
                   snd p = printer ord rd (s_style (fst p)) (s_cfg (fst p)) (s_value (fst p)) (s_error (fst p)) /\
                   exists o, snd p = Some o) (run ord rd st ops).
Proof. exact history_lemma. Qed.
Print Assumptions C09_history.

(** [order_of] (the helper of __find_number_of_decimals that tolerates a power of ten that came
    out a rounding error too low) is floor(log10) except within a relative 1e-14 below a power
    of ten, which no number of at most 13 significant digits is *)
Theorem C09_order_of_exact : forall ord, ord_spec ord ->
  forall x, ~ x == 0 -> Qabs x < pow10 (ord x + 1) * snap_factor -> order_of ord x = ord x.
Proof. exact order_of_exact. Qed.
Print Assumptions C09_order_of_exact.

(** the hypotheses are met by the instance the correspondence executes: the integer logarithm
    [order] and round-half-even *)
Theorem C09_instance : ord_spec order /\ rounders_ok rhe.
Proof. exact (conj order_spec rhe_ok). Qed.
Print Assumptions C09_instance.

(** non-vacuity: carry cases evaluated on the executable instance.
    0.96 -> 1.0 with n = 1 (the decimals change: "2 +/- 1"); 9.96e-6 in scientific style
    ("(5.0 +/- 1.0) * 10^-5" with n = 2); value mode with a negative value that carries;
    zero value in scientific style takes the exponent of the uncertainty *)
Example C09_nonvacuous :
  print_exact Default {| c_mode := Auto; c_n := 1 |} (234 # 100) (96 # 100)
    = Some {| o_sci := false; o_latex := false; o_val := 2; o_err := 1; o_bare := false; o_dec := 0; o_exp := 0 |} /\
  print_exact Scientific {| c_mode := ErrorMode; c_n := 2 |} (5 # 100000) (996 # 100000000)
    = Some {| o_sci := true; o_latex := false; o_val := 50; o_err := 10; o_bare := false; o_dec := 1; o_exp := -5 |} /\
  print_exact Latex {| c_mode := ValueMode; c_n := 2 |} (-9996 # 10) (25 # 1)
    = Some {| o_sci := true; o_latex := true; o_val := -10; o_err := 0; o_bare := false; o_dec := 0; o_exp := 2 |} /\
  print_exact Scientific {| c_mode := Auto; c_n := 1 |} 0 (5 # 1000)
    = Some {| o_sci := true; o_latex := false; o_val := 0; o_err := 5; o_bare := false; o_dec := 0; o_exp := -3 |}.
Proof. vm_compute. repeat split. Qed.
