(** C10 -- Repeated-measurement statistics equal their textbook definitions.
    Only theorem statements, each closed by [exact], each followed by Print Assumptions.
    Exact rational arithmetic; an uncertainty u is carried as its square ([..._sq] = u^2) because Q has
    no square roots; "sx is the standard deviation of xs" reads [exact_std sx xs]: 0 < sx /\ sx^2 = var xs.
    [xs], [ys] range over ALL lists of readings, [ss] over ALL lists of individual uncertainties, [ops] over
    ALL finite histories of the four use_* selectors. *)
From Coq Require Import List ZArith QArith Bool.
From Coq Require Import Reals.
From QV Require Import Model.Stats Model.Corr Proofs.Stats Proofs.Corr Proofs.StatsCorr Proofs.StatsR.
Import ListNotations.
Open Scope Q_scope.

(** the object built from readings xs: mean = sum/n, std^2 = sum (x - mean)^2 / (n-1),
    (error on the mean)^2 = std^2 / n, and value / uncertainty default to mean / error on the mean *)
Theorem C10_stats : forall xs ss,
  let r := rmv_new xs ss in
  r_mean r == qsum xs / qlen xs /\
  r_std_sq r == qsum (map (fun x => sq (x - qsum xs / qlen xs)) xs) / (qlen xs - 1) /\
  r_eom_sq r == r_std_sq r / qlen xs /\
  r_value r == r_mean r /\ r_err_sq r == r_eom_sq r /\ r_xs r = xs.
Proof. exact stats_lemma. Qed.
Print Assumptions C10_stats.

(** the same with real square roots: std = sqrt(sum (x-mean)^2/(n-1)) and std/sqrt(n) are the non-negative
    reals whose squares the model carries; a non-negative number is determined by its square *)
Theorem C10_stats_R : forall xs, (2 <= length xs)%nat ->
  (std_R xs * std_R xs = Q2R (t_var xs))%R /\
  (eom_R xs = sqrt (Q2R (t_eom_sq xs)))%R /\
  (eom_R xs * eom_R xs = Q2R (t_eom_sq xs))%R /\
  (0 <= std_R xs)%R /\ (0 <= eom_R xs)%R.
Proof. exact stats_R. Qed.
Print Assumptions C10_stats_R.

Theorem C10_square_determines : forall (e : R) (v : Q), (0 <= e)%R -> (e * e = Q2R v)%R -> e = sqrt (Q2R v).
Proof. exact square_determines. Qed.
Print Assumptions C10_square_determines.

(** every function of the model of the code equals its textbook definition *)
Theorem C10_model_is_textbook : forall xs ys ss,
  c_mean xs == t_mean xs /\ c_var 1 xs == t_var xs /\ c_eom_sq xs == t_eom_sq xs /\
  c_wmean xs ss == t_wmean xs ss /\ c_perr_sq ss == t_perr_sq ss /\
  (length xs = length ys -> exists c, c_cov xs ys = Some c /\ c == t_cov xs ys) /\
  (length xs <> length ys -> c_cov xs ys = None).
Proof. exact model_is_textbook. Qed.
Print Assumptions C10_model_is_textbook.

(** with positive individual uncertainties: error-weighted mean sum(x/s^2)/sum(1/s^2) and
    (propagated error)^2 = 1/sum(1/s^2) are reported ... *)
Theorem C10_weighted : forall xs ss,
  Forall (fun s => 0 < s) ss ->
  let r := rmv_new xs ss in
  exists wm pe, r_wmean r = Some wm /\ r_perr_sq r = Some pe /\
    wm == qsum (map2 (fun x s => x / (s * s)) xs ss) / qsum (map (fun s => 1 / (s * s)) ss) /\
    pe == 1 / qsum (map (fun s => 1 / (s * s)) ss).
Proof. exact weighted_lemma. Qed.
Print Assumptions C10_weighted.

(** ... and with a zero among them they are "not valid" and the two selectors change nothing (warning) *)
Theorem C10_weighted_invalid : forall xs ss,
  c_weights_valid ss = false ->
  let r := rmv_new xs ss in
  r_wmean r = None /\ r_perr_sq r = None /\ sel_step r UseEwm = (r, true) /\ sel_step r UsePerr = (r, true).
Proof. exact weighted_invalid_lemma. Qed.
Print Assumptions C10_weighted_invalid.

(** after ANY history of selectors the value is the statistic of the last effective value selector (the
    mean if there was none), the uncertainty that of the last effective uncertainty selector (the error on
    the mean if there was none), and the readings are untouched ([spec_value], [spec_err_sq]: Model/Stats.v) *)
Theorem C10_selectors : forall xs ss ops,
  let r := sel_run ops (rmv_new xs ss) in
  r_value r == spec_value xs ss ops /\ r_err_sq r == spec_err_sq xs ss ops /\ r_xs r = xs /\ r_ss r = ss.
Proof. exact selectors_lemma. Qed.
Print Assumptions C10_selectors.

(** every later propagation d = k * a + c reads exactly the selected numbers *)
Theorem C10_propagation : forall xs ss ops k c,
  let r := sel_run ops (rmv_new xs ss) in
  lin_value k c r == k * spec_value xs ss ops + c /\ lin_err_sq k r == k * k * spec_err_sq xs ss ops.
Proof. exact propagation_lemma. Qed.
Print Assumptions C10_propagation.

(** ... and so does a Monte Carlo propagation: the samples are the formula at offset * (uncertainty in use) +
    (value in use) ([mc_lin], Model/Stats.v, tied to MonteCarloEvaluator by injected offsets); for standardised
    offsets (mean 0) the samples of k * a + c have mean k * value + c and variance k^2 * uncertainty^2 * var(offsets),
    where value and uncertainty are the statistics selected by the history *)
Theorem C10_monte_carlo : forall xs ss ops k c e offs,
  let r := sel_run ops (rmv_new xs ss) in
  e * e == r_err_sq r -> (2 <= length offs)%nat -> t_mean offs == 0 ->
  let samples := map (mc_lin k c (r_value r) e) offs in
  t_mean samples == k * spec_value xs ss ops + c /\
  t_var samples == k * k * spec_err_sq xs ss ops * t_var offs.
Proof. exact monte_carlo_lemma. Qed.
Print Assumptions C10_monte_carlo.

(** the same, spelled out on a history pre ++ o :: post whose tail has no effective selector of the group *)
Theorem C10_selectors_last_error : forall xs ss pre o post,
  is_err_sel o = true -> effective ss o = true ->
  forallb (fun y => negb (is_err_sel y && effective ss y)) post = true ->
  r_err_sq (sel_run (pre ++ o :: post) (rmv_new xs ss)) ==
  match o with UseStd => t_var xs | UsePerr => t_perr_sq ss | _ => t_eom_sq xs end.
Proof. exact selectors_last_error. Qed.
Print Assumptions C10_selectors_last_error.

Theorem C10_selectors_last_value : forall xs ss pre post,
  c_weights_valid ss = true ->
  forallb (fun y => negb (negb (is_err_sel y) && effective ss y)) post = true ->
  r_value (sel_run (pre ++ UseEwm :: post) (rmv_new xs ss)) == t_wmean xs ss.
Proof. exact selectors_last_value. Qed.
Print Assumptions C10_selectors_last_value.

(** inferred request between two plain reading arrays of equal length whose recorded standard deviations
    are exact: accepted in both setters and both forms, records the sample covariance and its normalised
    form (the clamp of the code is the identity, by Cauchy-Schwarz); unequal lengths are rejected *)
Theorem C10_cov : forall s f a b x y,
  nthq s a = Some x -> nthq s b = Some y -> is_repeated x = true -> is_repeated y = true ->
  q_plain x = true -> q_plain y = true -> length (q_data x) = length (q_data y) ->
  exact_std (q_std x) (q_data x) -> exact_std (q_std y) (q_data y) ->
  let tc := t_cov (q_data x) (q_data y) in
  (exists corr cov, step s (SetCov f (Ref a) (Ref b) ANone) = (put s a b (corr, cov), Done) /\
                    cov == tc /\ corr == tc / (q_std x * q_std y)) /\
  (exists corr cov, step s (SetCorr f (Ref a) (Ref b) ANone) = (put s a b (corr, cov), Done) /\
                    cov == tc /\ corr == tc / (q_std x * q_std y)).
Proof. exact inferred_exact. Qed.
Print Assumptions C10_cov.

Theorem C10_cov_unequal_length : forall s f a b x y,
  nthq s a = Some x -> nthq s b = Some y -> is_repeated x = true -> is_repeated y = true ->
  length (q_data x) <> length (q_data y) ->
  (exists e, step s (SetCov f (Ref a) (Ref b) ANone) = (s, Raised e)) /\
  (exists e, step s (SetCorr f (Ref a) (Ref b) ANone) = (s, Raised e)).
Proof. exact inferred_rejected_length. Qed.
Print Assumptions C10_cov_unequal_length.

(** whatever doubles the recorded standard deviations are (non-zero), the inferred request is accepted *)
Theorem C10_inferred_accepted : forall s f a b x y c,
  nthq s a = Some x -> nthq s b = Some y -> is_repeated x = true -> is_repeated y = true ->
  q_plain x = true -> q_plain y = true -> c_cov (q_data x) (q_data y) = Some c ->
  ~ q_std x == 0 -> ~ q_std y == 0 ->
  let corr := qclamp (q_std x * q_std y) c / (q_std x * q_std y) in
  step s (SetCorr f (Ref a) (Ref b) ANone) = (put s a b (corr, corr * (q_std x * q_std y)), Done).
Proof. exact set_corr_inferred_accepts. Qed.
Print Assumptions C10_inferred_accepted.

(** Cauchy-Schwarz: sample covariance^2 <= variance x * variance y *)
Theorem C10_cauchy_schwarz : forall xs ys,
  length xs = length ys -> t_cov xs ys * t_cov xs ys <= t_var xs * t_var ys.
Proof. exact cauchy_schwarz_stats. Qed.
Print Assumptions C10_cauchy_schwarz.

(** exactly collinear readings ys = k xs + c: covariance^2 = variance x * variance y, covariance = k var x *)
Theorem C10_collinear_stats : forall k c xs,
  (2 <= length xs)%nat ->
  let ys := affine k c xs in
  t_cov xs ys * t_cov xs ys == t_var xs * t_var ys /\ t_cov xs ys == k * t_var xs /\ 0 <= t_var xs.
Proof. exact collinear_stats. Qed.
Print Assumptions C10_collinear_stats.

(** ... and the request is accepted by the correlation store and records the correlation sign(k) exactly *)
Theorem C10_collinear : forall s f a b x y k c,
  nthq s a = Some x -> nthq s b = Some y -> is_repeated x = true -> is_repeated y = true ->
  q_plain x = true -> q_plain y = true ->
  (2 <= length (q_data x))%nat -> q_data y = affine k c (q_data x) -> ~ k == 0 ->
  exact_std (q_std x) (q_data x) -> exact_std (q_std y) (q_data y) ->
  let sgn := if Qlt_le_dec 0 k then 1 else -1 in
  (exists corr cov, step s (SetCorr f (Ref a) (Ref b) ANone) = (put s a b (corr, cov), Done) /\
                    corr == sgn /\ cov == k * t_var (q_data x)) /\
  (exists corr cov, step s (SetCov f (Ref a) (Ref b) ANone) = (put s a b (corr, cov), Done) /\
                    corr == sgn /\ cov == k * t_var (q_data x)).
Proof. exact collinear_recorded. Qed.
Print Assumptions C10_collinear.

(** non-vacuity: readings 9, 10, 11 (std exactly 1) and 7, 5, 3 = -2 x + 25 (std exactly 2), positive
    uncertainties 1/2, 1, 1/4; a selector history; the hypotheses of C10_collinear hold *)
Example C10_nonvacuous :
  let xs := [9; 10; 11] in let ys := [7; 5; 3] in let ss := [1 # 2; 1; 1 # 4] in
  let x := {| q_kind := KRepeated; q_err := 1 # 3; q_rstd := 1; q_data := xs; q_plain := true |} in
  let y := {| q_kind := KRepeated; q_err := 4 # 3; q_rstd := 2; q_data := ys; q_plain := true |} in
  let r := sel_run [UseStd; UseEwm; UsePerr; UseEom; UseStd] (rmv_new xs ss) in
  exact_std (q_std x) xs /\ exact_std (q_std y) ys /\ ys = affine (-2) 25 xs /\ ~ -2 == 0 /\
  Forall (fun s => 0 < s) ss /\ c_weights_valid ss = true /\
  Qeq_bool (r_value r) (74 # 7) = true /\ Qeq_bool (r_err_sq r) 1 = true /\
  Qeq_bool (r_eom_sq r) (1 # 3) = true /\ r_perr_sq r = Some (1 / (4 + 1 + 16)) /\
  snd (step (init [x; y]) (SetCorr Fn (Ref 0) (Ref 1) ANone)) = Done /\
  Qeq_bool (get_corr (fst (step (init [x; y]) (SetCorr Fn (Ref 0) (Ref 1) ANone))) 1 0) (-1) = true.
Proof.
  cbv zeta. unfold exact_std.
  repeat match goal with |- _ /\ _ => split end; try (vm_compute; reflexivity); try (vm_compute; discriminate).
  repeat (constructor; [reflexivity|]). constructor.
Qed.
