(** C11 -- array arithmetic is element-wise scalar arithmetic.
    Only theorem statements, each closed by [exact], each followed by Print Assumptions.
    The tables [ev_overload] (ExperimentalValue.__add__ ... __neg__), [arr_overload]
    (ExperimentalValueArray's special methods), [fn_table] (sqrt ... log10, degree variants, log arity
    dispatch) and [vectorize_rules] are GENERATED from the source on every run (Gen/OverloadsGen.v).
    PARTIAL BY DESIGN: numpy's element-by-element application of an operator to an object array
    ([nd_call]) and np.vectorize are modelled, not proved (validated by the correspondence run); that the
    scalar Formula has the value / uncertainty / unit of the operation is C01 / C08. *)
From Coq Require Import List ZArith QArith Bool.
From QV Require Import Model.OverloadVocab Gen.OverloadsGen Model.ArrayOps Proofs.ArrayOps.
Import ListNotations.

(** the i-th element of "A o other" / "other o A" is the scalar operation on the i-th operands, for
    every operator, both orders and every operand kind (number, measurement, list, ndarray, array) *)
Theorem C11_binop : forall o self_left k n other i,
  compatible n other -> (i < n)%nat ->
  nth i (arr_binop o self_left k n other) VErr = scalar_side o self_left (VElem k i) (operand_at other i).
Proof. exact binop_elementwise. Qed.
Print Assumptions C11_binop.

Theorem C11_binop_length : forall o self_left k n other,
  compatible n other -> length (arr_binop o self_left k n other) = n.
Proof. exact binop_length. Qed.
Print Assumptions C11_binop_length.

(** ... and that scalar operation is Formula(o, [left, right]) with the operands in source order *)
Theorem C11_binop_formula : forall o self_left k n other i,
  compatible n other -> (i < n)%nat ->
  nth i (arr_binop o self_left k n other) VErr =
    if self_left then VF2 (lit_of o) (VElem k i) (wrapv (operand_at other i))
    else VF2 (lit_of o) (wrapv (operand_at other i)) (VElem k i).
Proof. exact binop_formula. Qed.
Print Assumptions C11_binop_formula.

(** the generated table: __op__(self, other) denotes self op other, __rop__(self, other) other op self *)
Theorem C11_overload_sound : forall d b reflected self other,
  base_of d = Some (b, reflected) ->
  ev_call d self other =
    if reflected then VF2 (lit_of b) (wrapv other) self else VF2 (lit_of b) self (wrapv other).
Proof. exact dunder_denotes. Qed.
Print Assumptions C11_overload_sound.

Theorem C11_scalar_protocol : forall o l r,
  is_ev l = true \/ (l <> VErr /\ is_ev r = true) ->
  py_binop o l r = VF2 (lit_of o) (wrapv l) (wrapv r).
Proof. exact overload_sound. Qed.
Print Assumptions C11_scalar_protocol.

Theorem C11_neg : forall k n i, (i < n)%nat ->
  nth i (arr_neg k n) VErr = py_neg (VElem k i) /\ py_neg (VElem k i) = VF1 NEG (VElem k i)
  /\ length (arr_neg k n) = n.
Proof. exact neg_elementwise. Qed.
Print Assumptions C11_neg.

(** math functions: element-wise, length preserved *)
Theorem C11_fn : forall f arg i, (i < args_len [arg])%nat ->
  nth i (snd (array_fn f arg)) VErr = scalar_fn f (operand_at arg i) /\
  length (snd (array_fn f arg)) = args_len [arg].
Proof. exact fn_elementwise. Qed.
Print Assumptions C11_fn.

(** container kind preserved; plain numbers in, plain numbers out *)
Theorem C11_fn_container : forall f,
  (forall l, fst (array_fn f (KList l)) = CList /\
             forall i, (i < length l)%nat -> exists b, nth i (snd (array_fn f (KList l))) VErr = VNum b) /\
  (forall l, fst (array_fn f (KNd l)) = CNd /\
             forall i, (i < length l)%nat -> exists b, nth i (snd (array_fn f (KNd l))) VErr = VNum b) /\
  (forall k n, fst (array_fn f (KArr k n)) = CEva) /\
  (forall x, fst (array_fn f (KNum x)) = CScalar) /\ (forall m, fst (array_fn f (KMeas m)) = CScalar).
Proof. exact fn_container. Qed.
Print Assumptions C11_fn_container.

(** degree variants: the radian function of x / 180 * pi computed by scalar arithmetic *)
Theorem C11_degrees : forall f base dv fc x,
  fn_table f = FnDegrees base dv fc ->
  scalar_fn f x = scalar_fn base (deg dv fc x) /\ dv == 180 /\ (exists op, fn_table base = FnDirect op).
Proof. exact degrees_compose. Qed.
Print Assumptions C11_degrees.

(** two-argument log in both positions *)
Theorem C11_log2 : forall a b i, (i < args_len [a; b])%nat ->
  nth i (snd (array_log2 a b)) VErr = scalar_log2 (operand_at a i) (operand_at b i) /\
  length (snd (array_log2 a b)) = args_len [a; b].
Proof. exact log2_elementwise. Qed.
Print Assumptions C11_log2.

Theorem C11_log_args : forall a b, scalar_log2 a b = execute2 LOG a b /\ scalar_fn F_log a = execute1 LN a.
Proof. exact log_args_in_order. Qed.
Print Assumptions C11_log_args.

Theorem C11_log2_container : forall a b,
  fst (array_log2 a b) =
    if is_eva a || is_eva b then CEva
    else if matches VkNdarray a || matches VkNdarray b then CNd
    else if matches VkList a || matches VkList b then CList else CScalar.
Proof. exact log2_container. Qed.
Print Assumptions C11_log2_container.

(** non-vacuity: [2, 3] - A for a two-element array A is [Const 2 - A_0, Const 3 - A_1];
    sind of a MeasurementArray is sin(A_i / 180 * pi); sqrt of a list is a list of plain numbers *)
Example C11_nonvacuous :
  arr_binop BSub false 0 2 (KList [2; 3]) =
    [VF2 SUB (VConst (NLit 2)) (VElem 0 0); VF2 SUB (VConst (NLit 3)) (VElem 0 1)] /\
  compatible 2 (KList [2; 3]) /\
  (exists p, array_fn F_sind (KArr 0 1) =
     (CEva, [VF1 SIN (VF2 MUL (VF2 DIV (VElem 0 0) (VConst (NLit 180))) (VConst (NLit p)))])) /\
  array_fn F_sqrt (KList [4]) = (CList, [VNum (N1 SQRT (NLit 4))]).
Proof. repeat split. eexists. reflexivity. Qed.
