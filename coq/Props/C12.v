(** C12 -- Unit strings are parsed with conventional precedence or rejected.
    Only theorem statements, each closed by [exact], each followed by Print Assumptions.
    [parse] is the executable model of parse_unit_string (Model/UnitSyntax.v); its literals
    (patterns, sentinel, precedence table, comparisons) are GENERATED from qexpy/utils/units.py on
    every run (Gen/UnitSyntaxGen.v).  [render], [denote], [wf] and the rejection classes are the
    grammar of the property (Model/UnitGrammar.v).  [parse s = None] means "rejected with an error". *)
From Coq Require Import List ZArith NArith QArith Bool.
From QV Require Import Gen.UnitSyntaxGen Model.UnitSyntax Model.UnitGrammar
     Proofs.UnitSyntaxBasics Proofs.UnitSentences Proofs.UnitReject Proofs.UnitRejectDigit Proofs.UnitRejectOp.
Import ListNotations.

(** the lexer model was written for exactly the regular expressions that are in the source now *)
Theorem C12_patterns : patterns_as_modelled = true.
Proof. exact patterns_ok. Qed.
Print Assumptions C12_patterns.

(** every well-formed sentence -- terms joined by any of the three multiplication spellings or by
    "/", juxtaposed factors, integer powers (any spelling -?[0-9]+), bracketed groups, and also the
    library's own "1/" numerator and "^(p/q)" powers -- is accepted, with the exponents of the
    conventional reading: ^ on one symbol, juxtaposition tighter than the explicit operators,
    explicit operators from left to right, brackets group, the dot sign multiplies *)
Theorem C12_sentences : forall e, wf e ->
  exists u, parse (render e) = Some u /\ forall k, dim u k == denote e k.
Proof. exact sentences_lemma. Qed.
Print Assumptions C12_sentences.

(** a character outside  letters digits ^ - * / ( ) dot  anywhere (also inside brackets): rejected *)
Theorem C12_reject_char : forall s, (exists c, In c s /\ allowed_char c = false) -> parse s = None.
Proof. exact reject_char_lemma. Qed.
Print Assumptions C12_reject_char.

(** unbalanced brackets: rejected *)
Theorem C12_reject_parens : forall s, balanced s = false -> parse s = None.
Proof. exact reject_parens_lemma. Qed.
Print Assumptions C12_reject_parens.

(** a digit directly after a letter, a multiplication sign or a closing bracket (anywhere), or at the
    very beginning other than the "1" of "1/": rejected *)
Theorem C12_reject_digit : forall s, digit_without_caret s -> parse s = None.
Proof. exact reject_digit_lemma. Qed.
Print Assumptions C12_reject_digit.

(** an explicit operator (star, slash or dot sign) at the beginning, at the end, or directly after
    another one -- at the top level or inside brackets: rejected (by the two-stack builder, which
    pops from an empty operand stack) *)
Theorem C12_reject_operator : forall s, doubled_or_dangling_operator s -> parse s = None.
Proof. exact reject_operator_lemma. Qed.
Print Assumptions C12_reject_operator.

(** non-vacuity: "kg*m^2/s^-2A(a.b)" (the dot sign inside the brackets) is a well-formed sentence,
    its reading gives s the exponent 2 and A the exponent -1; "m2", "a b", "(a))" are in the
    rejection classes *)
Definition ex_atom (s : str) (p : power) : factor := FAtom (mk_atom s p).
Definition ex_expr : expr :=
  mk_gsent false [ex_atom [107; 103]%N PNone]
    [(Star, [ex_atom [109%N] (PInt false [50%N])]);
     (Slash, [ex_atom [115%N] (PInt true [50%N]); ex_atom [65%N] PNone;
              FParen (mk_gsent false [mk_atom [97%N] PNone] [(Dot, [mk_atom [98%N] PNone])])])].
Example C12_nonvacuous :
  wf ex_expr /\
  render ex_expr = [107; 103; 42; 109; 94; 50; 47; 115; 94; 45; 50; 65; 40; 97; 8901; 98; 41]%N /\
  denote ex_expr [115%N] == 2 /\ denote ex_expr [65%N] == -1 /\
  parse (render ex_expr) =
    Some [([107; 103]%N, 1); ([109%N], inject_Z 2); ([115%N], 0 + -1 * inject_Z (-2)); ([65%N], 0 + -1 * 1);
          ([97%N], 0 + -1 * 1); ([98%N], 0 + -1 * 1)] /\
  (exists c, In c [97; 32; 98]%N /\ allowed_char c = false) /\
  balanced [40; 97; 41; 41]%N = false /\
  digit_without_caret [109; 50]%N /\
  doubled_or_dangling_operator [97; 42; 47; 98]%N.
Proof.
  split.
  { unfold wf, wf_gsent, wf_term, ex_expr; simpl.
    repeat match goal with
           | H : false = true |- _ => discriminate H
           | H : atom_bare _ = true |- _ => discriminate H
           | |- True => exact I
           | |- _ /\ _ => split
           | |- Forall _ _ => constructor
           | |- _ <> _ => discriminate
           | |- _ = _ => reflexivity
           | |- _ -> _ => intro
           | |- _ => progress (unfold ex_atom, wf_factor, wf_flat, wf_gsent, wf_term, wf_atom, wf_power, digits_ok; simpl)
           end. }
  split; [reflexivity|]. split; [vm_compute; reflexivity|]. split; [vm_compute; reflexivity|].
  split; [vm_compute; reflexivity|].
  split; [exists 32%N; split; [right; left; reflexivity|reflexivity]|].
  split; [reflexivity|].
  split; [left; exists [], 109%N, 50%N, []; repeat split; left; reflexivity|].
  right. right. exists [97%N], 42%N, 47%N, [98%N]. repeat split.
Qed.
