(** C12 -- Unit strings are parsed with conventional precedence or rejected.
    Only theorem statements, each closed by [exact], each followed by Print Assumptions.
    [parse] is the executable model of parse_unit_string (Model/UnitSyntax.v); its literals
    (patterns, sentinel, precedence table, comparisons) are GENERATED from qexpy/utils/units.py on
    every run (Gen/UnitSyntaxGen.v).  [render], [denote], [wf] are the grammar of the property
    (Model/UnitGrammar.v). *)
From Coq Require Import List ZArith NArith QArith Bool.
From QV Require Import Gen.UnitSyntaxGen Model.UnitSyntax Model.UnitGrammar
     Proofs.UnitSyntaxBasics Proofs.UnitSentences.
Import ListNotations.

(** the lexer model was written for exactly the regular expressions that are in the source now *)
Theorem C12_patterns : patterns_as_modelled = true.
Proof. exact patterns_ok. Qed.
Print Assumptions C12_patterns.

(** every well-formed sentence -- terms joined by any of the three multiplication spellings or by
    "/", juxtaposed factors, integer powers, bracketed groups, and also the library's own "1/"
    numerator and "^(p/q)" powers -- is accepted, with the exponents of the conventional reading *)
Theorem C12_sentences : forall e, wf e ->
  exists u, parse (render e) = Some u /\ forall k, dim u k == denote e k.
Proof. exact sentences_lemma. Qed.
Print Assumptions C12_sentences.
