(** C13 -- placeholder while the proofs are being developed *)
From Coq Require Import List ZArith NArith QArith Bool.
From QV Require Import Gen.UnitSyntaxGen Model.UnitSyntax Proofs.UnitSyntaxBasics.
Import ListNotations.

Theorem C13_patterns : patterns_as_modelled = true.
Proof. exact patterns_ok. Qed.
Print Assumptions C13_patterns.
