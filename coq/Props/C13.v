(** C13 -- Every unit string the library prints is accepted back with the same meaning.
    Only theorem statements, each closed by [exact], each followed by Print Assumptions.
    [construct] is the model of construct_unit_string in the two styles (Model/UnitPrint.v, with
    Fraction.limit_denominator and the generated bound), [parse] the model of parse_unit_string
    (Model/UnitSyntax.v, literals generated from qexpy/utils/units.py on every run). *)
From Coq Require Import List ZArith NArith QArith Bool.
From QV Require Import Gen.UnitSyntaxGen Model.UnitSyntax Model.UnitGrammar Model.UnitPrint
     Proofs.UnitSyntaxBasics Proofs.UnitPieces Proofs.UnitBuild Proofs.UnitRoundtrip.
Import ListNotations.

(** [good_map m]: non-empty, distinct keys, every key non-empty alphabetic, every exponent non-zero
    with a reduced denominator <= 10 (the generated bound of limit_denominator is checked to be >= 10) *)
Theorem C13_roundtrip : forall st m, good_map m ->
  exists u, parse (construct st m) = Some u /\ forall k, dim u k == dim m k.
Proof. exact roundtrip_lemma. Qed.
Print Assumptions C13_roundtrip.

(** b.unit = a.unit succeeds and gives b the exponents of a, in either style *)
Theorem C13_assign : forall st m, good_map m ->
  exists u, set_unit (get_unit st m) = Some u /\ forall k, dim u k == dim m k.
Proof. exact assign_lemma. Qed.
Print Assumptions C13_assign.

(** append / insert / item assignment on an array whose unit is such a map succeed in either style;
    afterwards the elements concerned carry the exponents of the array's unit *)
Theorem C13_edit : forall st m rest, good_map m ->
  (exists r, arr_append st (m :: rest) = Some r /\ all_dim m r /\ length r = S (length (m :: rest))) /\
  (forall i, exists r, arr_insert st i (m :: rest) = Some r /\ all_dim m r /\ length r = S (length (m :: rest))) /\
  (forall i, (i < length (m :: rest))%nat -> exists r u, arr_setitem st i (m :: rest) = Some r /\
      nth_error r i = Some u /\ (forall k, dim u k == dim m k) /\ length r = length (m :: rest)).
Proof. exact edit_lemma. Qed.
Print Assumptions C13_edit.

(** the printed string is a well-formed sentence of the C12 grammar with the meaning of the map *)
Theorem C13_printed_is_sentence : forall st m, good_map m ->
  exists e, wf e /\ render e = construct st m /\ forall k, denote e k == dim m k.
Proof. exact printed_sentence_lemma. Qed.
Print Assumptions C13_printed_is_sentence.

(** non-vacuity: m^2 kg s^-2 A^(-1/2) is a good map; it prints as "m^2.kg/(s^2.A^(1/2))" and
    "m^2.kg.s^-2.A^(-1/2)" and both parse back *)
Definition ex_map : umap :=
  [([109%N], 2 # 1); ([107%N; 103%N], 1 # 1); ([115%N], -2 # 1); ([65%N], -1 # 2)].
Example C13_nonvacuous :
  good_map ex_map /\
  construct Fraction ex_map =
    [109; 94; 50; 8901; 107; 103; 47; 40; 115; 94; 50; 8901; 65; 94; 40; 49; 47; 50; 41; 41]%N /\
  parse (construct Fraction ex_map) = Some [([109%N], 2 # 1); ([107%N; 103%N], 1 # 1); ([115%N], -(2 # 1)); ([65%N], -(1 # 2))] /\
  parse (construct Exponents ex_map) = Some ex_map.
Proof.
  split; [|vm_compute; repeat split].
  split; [discriminate|]. split.
  - repeat constructor; simpl; intuition discriminate.
  - repeat constructor; simpl; try discriminate; vm_compute; discriminate.
Qed.
