(** C14 -- an uncertainty is never negative, whatever path created or changed it. *)
From Coq Require Import List ZArith QArith Qabs Bool.
From QV Require Import Base.Py Model.MC Proofs.MCMode Proofs.UncertMode Model.Uncert Proofs.Uncert.
Import ListNotations.

(** every accepted Measurement(value, error) has a non-negative uncertainty ... *)
Theorem C14_constructor : forall v e q, fst (construct v e) = Some q -> Inv q.
Proof. exact construct_inv. Qed.
Print Assumptions C14_constructor.

(** ... a negative one is rejected *)
Theorem C14_constructor_rejects : forall v e x,
  is_real e = Some x -> x < 0 -> construct v e = (None, Rejected ValueError).
Proof. exact construct_rejects_negative. Qed.
Print Assumptions C14_constructor_rejects.

(** array / data-set constructors (no, common, per-element, relative uncertainties): every accepted
    argument combination gives non-negative uncertainties *)
Theorem C14_arrays : forall data error rel l,
  fst (error_array data error rel) = Some l -> Forall (fun x => 0 <= x) l.
Proof. exact error_array_nonneg. Qed.
Print Assumptions C14_arrays.

(** the invariant is kept by every way of changing a quantity (measurement, repeated measurement,
    calculated quantity): setters, relative uncertainty, statistic selectors, custom Monte Carlo pair ... *)
Theorem C14_step : forall q x, Inv q -> Inv (fst (step q x)).
Proof. exact step_inv. Qed.
Print Assumptions C14_step.

(** ... hence by every finite sequence of them *)
Theorem C14_invariant : forall ops q, Inv q -> Inv (run q ops).
Proof. exact run_inv. Qed.
Print Assumptions C14_invariant.

(** a rejected request leaves the quantity unchanged *)
Theorem C14_atomic : forall q x e, snd (step q x) = Rejected e -> fst (step q x) = q.
Proof. exact step_atomic. Qed.
Print Assumptions C14_atomic.

(** a relative uncertainty r >= 0 gives the uncertainty r * |value| *)
Theorem C14_relative : forall q r x, is_real r = Some x -> 0 <= x ->
  snd (step q (SetRelError r)) = Accepted /\
  q_error (fst (step q (SetRelError r))) == Qabs (q_value q) * x /\
  q_value (fst (step q (SetRelError r))) = q_value q.
Proof. exact relative_error_law. Qed.
Print Assumptions C14_relative.

(** negative uncertainties and relative uncertainties are rejected *)
Theorem C14_negative_rejected : forall q v x, is_real v = Some x -> x < 0 ->
  step q (SetError v) = (q, Rejected ValueError) /\ step q (SetRelError v) = (q, Rejected ValueError).
Proof. exact negative_rejected. Qed.
Print Assumptions C14_negative_rejected.

(** non-vacuity: a calculated quantity of value -10 +/- 1 gets the relative uncertainty 1/10 (becomes a
    measurement with uncertainty 1), then a negative uncertainty is rejected and nothing changes *)
(** calculated results under Monte Carlo, "mode with confidence" statistic: the reported uncertainty is k bin widths,
    hence >= 0 for every count vector and every non-decreasing pair of edges around the fullest bin ([find_mode] is
    the model of utils.find_mode_and_uncertainty, Model/MC.v, run against the code by C14's and C16's correspondence) *)
Theorem C14_mode_uncertainty : forall n bins conf v e,
  n <> [] -> MCMode.nonneg n -> (conf <= 1)%Q ->
  (MC.qnth bins (MC.argmax n) <= MC.qnth bins (S (MC.argmax n)))%Q ->
  MC.find_mode n bins conf = Some (v, e) -> (0 <= e)%Q.
Proof. exact find_mode_error_nonneg. Qed.
Print Assumptions C14_mode_uncertainty.

(** ... in particular for the histogram the library bins (100 equal-width bins over [min, max] of ANY sample list) *)
Theorem C14_mode_uncertainty_of_samples : forall xs conf, (conf <= 1)%Q ->
  match MC.r_error (MC.mode_rep xs conf) with MC.EExact e => (0 <= e)%Q | MC.ESqrt _ => False | MC.EUndef => False end.
Proof. exact mode_rep_error_nonneg. Qed.
Print Assumptions C14_mode_uncertainty_of_samples.

Example C14_nonvacuous :
  let q0 := mk KDerived (-10) 1 no_stats in
  Inv q0 /\
  let q1 := fst (step q0 (SetRelError (PFloat (1 # 10)))) in
  q_kind q1 = KSingle /\ q_error q1 == 1 /\ step q1 (SetError (PInt (-1))) = (q1, Rejected ValueError).
Proof.
  cbv zeta. split; [split; [discriminate|apply no_stats_ok]|]. split; [reflexivity|]. split; reflexivity.
Qed.
