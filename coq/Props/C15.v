(** C15 -- error-method selection is respected and derivative results are deterministic. *)
From Coq Require Import List Arith Bool ZArith QArith.
From QV Require Import Base.QOps Gen.OpsTable Model.Core Model.CoreQ Model.CoreState Model.CoreStateQ Proofs.CoreState.
Import ListNotations.

Section C15.
  Variable T : Type.
  Variables (zero one two : T) (add mul : T -> T -> T).
  Variable su : uop -> T -> T.
  Variable sb : bop -> T -> T -> T.
  Variable du : uop -> T -> T -> T.
  Variable db : bop -> T -> T -> T -> T -> T.
  Variable negative : T -> bool.
  Notation step := (step T zero one two add mul su sb du db negative).
  Notation fresh := (fresh T zero one two add mul su sb du db).
  Notation Inv := (Inv T zero one two add mul su sb du db).

  (** a quantity reports by its own selection if one was set, otherwise by the global setting, and
      returns to the global setting when its own selection is reset *)
  Theorem C15_selection : forall s k me, (k < length (dst T s))%nat ->
    effective T (fst (step s (SetOwn T k me))) k = me /\
    effective T (fst (step s (ResetOwn T k))) k = gmethod T s /\
    (own T (dlookup T s k) = None -> effective T (fst (step s (SetGlobal T me))) k = me) /\
    (forall me', own T (dlookup T s k) = Some me' -> effective T (fst (step s (SetGlobal T me))) k = me').
  Proof. exact (selection T zero one two add mul su sb du db negative). Qed.

  (** reads dispatch on the effective method *)
  Theorem C15_reported : forall s k,
    match effective T s k, snd (step s (ReadValue T k)), snd (step s (ReadError T k)) with
    | Derivative, OVal _ _, OVar _ _ => True
    | MonteCarlo, OMcValue _ _, OMcError _ _ => True
    | _, _, _ => False
    end.
  Proof.
    intros s k. simpl. destruct (effective T s k).
    - destruct (ensure_der _ _ _ _ _ _ _ _ _ _ s k). exact I.
    - destruct (ensure_samples T s k). exact I.
  Qed.

  (** derivative-method results of a quantity that is not stale are the fresh evaluation of the
      formula, source values, uncertainties and correlations ... *)
  Theorem C15_fresh : forall s k, Inv s -> (k < length (objs T s))%nat ->
    effective T s k = Derivative -> stale T (dlookup T s k) = false ->
    snd (step s (ReadValue T k)) = OVal T (fst (fresh (objs T s) (corr T s) k)) /\
    snd (step s (ReadError T k)) = OVar T (snd (fresh (objs T s) (corr T s) k)).
  Proof. exact (read_fresh T zero one two add mul su sb du db negative). Qed.

  (** ... hence two reachable states that agree on those give the same numbers, whatever the global
      method, the random state, stored samples, other quantities' buffers and the switching history *)
  Theorem C15_deterministic : forall s1 s2 k, Inv s1 -> Inv s2 ->
    objs T s1 = objs T s2 -> corr T s1 = corr T s2 -> (k < length (objs T s1))%nat ->
    effective T s1 k = Derivative -> effective T s2 k = Derivative ->
    stale T (dlookup T s1 k) = false -> stale T (dlookup T s2 k) = false ->
    snd (step s1 (ReadValue T k)) = snd (step s2 (ReadValue T k)) /\
    snd (step s1 (ReadError T k)) = snd (step s2 (ReadError T k)) /\
    snd (step s1 (ReadDeriv T k 0)) = snd (step s2 (ReadDeriv T k 0)).
  Proof. exact (deterministic T zero one two add mul su sb du db negative). Qed.
End C15.

Print Assumptions C15_selection.
Print Assumptions C15_reported.
Print Assumptions C15_fresh.
Print Assumptions C15_deterministic.

(** non-vacuity: under the global Monte Carlo method a result built on an intermediate and switched to
    the derivative method reports the derivative numbers; the intermediate reports Monte Carlo *)
Example C15_nonvacuous :
  let ops := [New oq (OMeas (Some 5) (Some (1#2))); New oq (OMeas (Some 4) (Some (3#10)));
              SetGlobal oq MonteCarlo;
              New oq (ODer (FB MUL (RObj 0) (RObj 1))); New oq (ODer (FB MUL (RObj 2) (RObj 2)));
              ReadValue oq 2; SetOwn oq 3 Derivative; ReadValue oq 3; ResetOwn oq 3; ReadValue oq 3] in
  snd (run oq qzero qone qtwo oadd omul q_su q_sb q_du q_db qnegative qinit ops)
  = [ONone oq; ONone oq; ONone oq; ONone oq; ONone oq; OMcValue oq 0; ONone oq; OVal oq (Some 400); ONone oq;
     OMcValue oq 1].
Proof. vm_compute. reflexivity. Qed.
