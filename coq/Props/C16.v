(** C16 -- Monte Carlo strategies report functions of the one retrievable sample set. *)
From Coq Require Import List ZArith QArith Bool.
From QV Require Import Base.Py Model.MC Proofs.MCMode.
Import ListNotations.

Theorem C16_mode_total : forall n m conf,
  nonneg n -> (m < length n)%nat -> (conf <= 1)%Q ->
  exists k, walk (length n) n m conf (total n) 0 (getz n m) = Some k /\ (k <= length n - 1)%nat /\
            covers n m conf k /\ (forall j, (j < k)%nat -> ~ covers n m conf j).
Proof. exact walk_total. Qed.
Print Assumptions C16_mode_total.
