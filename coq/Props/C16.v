(** C16 -- Monte Carlo strategies report functions of the one retrievable sample set.
    Only theorem statements, each closed by [exact], each followed by Print Assumptions.
    Model: Model/MC.v (hand-written, tied to the implementation by the correspondence run).
    [f] is the formula on one joint draw ([None] = not finite), [C] the correlation matrix of the
    sources, [normal i n] the result of the i-th call numpy.random.normal(0, 1, n): all arbitrary. *)
From Coq Require Import List ZArith QArith Bool.
From QV Require Import Base.Py Model.MC Proofs.MCMode Proofs.MCHist Proofs.MCState.
Import ListNotations.
Open Scope Q_scope.

(** ** find_mode_and_uncertainty on any vector of bin counts (any length >= 1) *)

(** [covers n m conf k]:  conf * total <= sum of n_i over 0 <= i < len with |i - m| <= k
    (positions beyond the ends of the histogram contribute nothing) *)
Theorem C16_covers_meaning : forall n m conf k,
  (covers n m conf k <->
   conf * inject_Z (total n) <=
   inject_Z (sumf (fun i => if ((i <=? m + k)%nat && (m <=? i + k)%nat)%bool then getz n i else 0%Z) (length n)))
  /\ sumf (getz n) (length n) = total n.
Proof. intros. split; [reflexivity|apply sumf_total]. Qed.
Print Assumptions C16_covers_meaning.

(** value = centre of the FIRST fullest bin; error = k bin widths with k the SMALLEST number such that the
    bins within k of the fullest one hold at least the fraction conf of all samples; k <= len - 1 *)
Theorem C16_mode : forall n bins conf,
  n <> [] -> nonneg n -> conf <= 1 ->
  let m := argmax n in
  ((m < length n)%nat /\
   (forall i, (i < length n)%nat -> (getz n i <= getz n m)%Z) /\
   (forall i, (i < m)%nat -> (getz n i < getz n m)%Z)) /\
  exists v e, find_mode n bins conf = Some (v, e) /\
    v = (qnth bins m + qnth bins (S m)) / 2 /\
    exists k : nat, (k <= length n - 1)%nat /\
      e = inject_Z (Z.of_nat k) * (qnth bins (S m) - qnth bins m) /\
      covers n m conf k /\ (forall j, (j < k)%nat -> ~ covers n m conf j).
Proof.
  intros n bins conf Hne Hn Hc. split; [exact (argmax_spec n Hne)|].
  exact (find_mode_spec n bins conf Hne Hn Hc).
Qed.
Print Assumptions C16_mode.

(** the walk terminates from EVERY start bin (first and last included) of every histogram, for every
    confidence <= 1, within len - 1 steps: the loop fuel len is never exhausted *)
Theorem C16_mode_total : forall n m conf,
  nonneg n -> (m < length n)%nat -> conf <= 1 ->
  exists k, walk (length n) n m conf (total n) 0 (getz n m) = Some k /\ (k <= length n - 1)%nat /\
            covers n m conf k /\ (forall j, (j < k)%nat -> ~ covers n m conf j).
Proof. exact walk_total. Qed.
Print Assumptions C16_mode_total.

(** the 100-bin histogram of a sample set: 100 non-negative counts adding up to the number of samples *)
Theorem C16_histogram : forall xs,
  length (hist xs NBINS) = 100%nat /\ nonneg (hist xs NBINS) /\
  total (hist xs NBINS) = Z.of_nat (length xs).
Proof.
  intros xs. split; [apply hist_length|]. split; [apply hist_nonneg|]. apply hist_total. unfold NBINS. auto with arith.
Qed.
Print Assumptions C16_histogram.

(** ** the evaluator / settings state machine: every finite history of operations *)

Definition reachable f C normal srcs0 g (s : st) : Prop :=
  exists ops, s = run f C normal ops (init srcs0 g).

Lemma reachable_inv : forall f C normal srcs0 g s,
  (0 < g)%Z -> reachable f C normal srcs0 g s -> Inv s.
Proof. intros f C normal srcs0 g s Hg [ops ->]. apply run_inv. apply init_inv. exact Hg. Qed.

(** what a read reports is a function of the sample set stored AFTER the read (the one samples()
    retrieves), selected by the strategy in force after the read; a read never replaces a
    non-empty sample set *)
Theorem C16_reported : forall f C normal srcs0 g s,
  (0 < g)%Z -> reachable f C normal srcs0 g s ->
  let '(s', r) := read f C normal s in
  (raw s <> [] -> raw s' = raw s) /\
  match strat s' with
  | MeanStd => r = mean_std (restrict (xr s') (raw s'))
  | Mode => r = mode_rep (raw s') (conf s')
  | Custom => c_custom s' = Some r
  end.
Proof.
  intros f C normal srcs0 g s Hg Hr.
  pose proof (read_reports f C normal s (reachable_inv _ _ _ _ _ _ Hg Hr)) as H.
  destruct (read f C normal s) as [s' r]. destruct H as (_ & H1 & H2). split; assumption.
Qed.
Print Assumptions C16_reported.

Theorem C16_mean_std : forall f C normal srcs0 g s,
  (0 < g)%Z -> reachable f C normal srcs0 g s ->
  let '(s', r) := read f C normal s in
  strat s' = MeanStd ->
  r = mean_std (restrict (xr s') (raw s')).
Proof.
  intros f C normal srcs0 g s Hg Hr.
  pose proof (C16_reported f C normal srcs0 g s Hg Hr) as H.
  destruct (read f C normal s) as [s' r]. destruct H as [_ H]. intros E. rewrite E in H. exact H.
Qed.
Print Assumptions C16_mean_std.

(** mode strategy in the state machine: centre of the fullest of the 100 bins of the stored samples and the
    smallest covering k, for the confidence in force (always in [0, 1]) *)
Theorem C16_mode_state : forall f C normal srcs0 g s,
  (0 < g)%Z -> reachable f C normal srcs0 g s ->
  let '(s', r) := read f C normal s in
  strat s' = Mode ->
  0 <= conf s' /\ conf s' <= 1 /\
  exists v e, r = mkrep (Some v) (EExact e) /\
    is_mode_result (hist (raw s') NBINS) (hist_edges (raw s') NBINS) (conf s') v e.
Proof.
  intros f C normal srcs0 g s Hg Hr.
  pose proof (read_reports f C normal s (reachable_inv _ _ _ _ _ _ Hg Hr)) as H.
  destruct (read f C normal s) as [s' r]. destruct H as (Hi & _ & H2). intros E. rewrite E in H2.
  destruct (I_conf s' Hi) as [H0 H1]. split; [exact H0|]. split; [exact H1|].
  destruct (mode_rep_spec (raw s') (conf s') H1) as [v [e [Hm Hres]]].
  exists v, e. split; [rewrite H2; exact Hm|exact Hres].
Qed.
Print Assumptions C16_mode_state.

(** an accepted custom pair is what is reported, through reads, confidence changes, samples(), inspection,
    mutation of returned arrays, global-size and source edits -- until the range, the strategy or the
    sample size is changed or the value is recalculated *)
Theorem C16_custom : forall f C normal srcs0 g s v e ops,
  reachable f C normal srcs0 g s ->
  is_real v = true -> is_real e = true -> 0 <= numq e ->
  forallb keeps_custom ops = true ->
  snd (fst (step f C normal s (UseCustom v e))) = ONone /\
  snd (read f C normal (run f C normal ops (step_st f C normal s (UseCustom v e))))
    = mkrep (Some (numq v)) (EExact (numq e)).
Proof.
  intros f C normal srcs0 g s v e ops _ Hv He Hpos Hk.
  destruct (use_custom_accepts f C normal s v e Hv He Hpos) as [Ho Hc].
  split; [exact Ho|]. apply read_custom. apply run_keeps_custom; assumption.
Qed.
Print Assumptions C16_custom.

(** a rejected custom pair changes nothing that is reported *)
Theorem C16_custom_rejected : forall f C normal s v e x,
  snd (fst (step f C normal s (UseCustom v e))) = OExn x ->
  step_st f C normal s (UseCustom v e) = fst (regen f C normal s).
Proof.
  intros f C normal s v e x. unfold step_st. simpl. destruct (regen f C normal s) as [s1 w]. simpl.
  destruct (is_real v); simpl; [|reflexivity].
  destruct (is_real e); simpl; [|reflexivity].
  destruct (Qle_bool 0 (numq e)); simpl; [discriminate|reflexivity].
Qed.
Print Assumptions C16_custom_rejected.

(** confidence, range, strategy changes (accepted or rejected), reads, samples(), inspection, mutation of
    returned arrays, rejected sample sizes: the stored sample set stays and nothing is drawn *)
Theorem C16_same_samples : forall f C normal srcs0 g s x,
  (0 < g)%Z -> reachable f C normal srcs0 g s -> raw s <> [] -> preserving x = true ->
  raw (step_st f C normal s x) = raw s /\ ncalls (step_st f C normal s x) = ncalls s.
Proof.
  intros f C normal srcs0 g s x Hg Hr. apply step_preserves_samples. exact (reachable_inv _ _ _ _ _ _ Hg Hr).
Qed.
Print Assumptions C16_same_samples.

(** recalculate, an accepted sample-size assignment and reset_sample_size discard the samples; the next
    read draws anew from offsets never used before (the call counter only grows), with the size configured
    then: the quantity's own size if not 0, else the global one *)
Theorem C16_redraw : forall f C normal s x,
  redrawing x = true ->
  let s1 := step_st f C normal s x in
  let N := Z.to_nat (eff_size s1) in
  let s2 := fst (read f C normal s1) in
  raw s1 = [] /\ (ncalls s <= ncalls s1)%nat /\
  raw s2 = d_samples (compute_samples f C (srcs s) (rows_at normal (ncalls s1) (length (srcs s)) N) N) /\
  ncalls s2 = (ncalls s1 + length (srcs s))%nat /\
  eff_size s1 = (match x with
                 | SetSampleSize (PInt z) => if (z =? 0)%Z then gsz s else z
                 | ResetSampleSize => gsz s
                 | _ => eff_size s end).
Proof.
  intros f C normal s x Hx.
  destruct (step_redraw_empties f C normal s x Hx) as (He & Ho & Hg & Hs & Hm).
  destruct (read_after_empty f C normal _ He) as [Hr Hc]. rewrite Hs in *.
  split; [exact He|]. split; [exact Hm|]. split; [exact Hr|]. split; [exact Hc|].
  unfold eff_size. rewrite Ho, Hg. destruct x; try discriminate; try reflexivity.
  destruct k; try discriminate. reflexivity.
Qed.
Print Assumptions C16_redraw.

(** when the formula is defined on every draw the new sample set has exactly the effective size *)
Theorem C16_size : forall f C normal s x,
  (forall y, f y <> None) -> redrawing x = true ->
  let s1 := step_st f C normal s x in
  length (raw (fst (read f C normal s1))) = Z.to_nat (eff_size s1).
Proof.
  intros f C normal s x Htot Hx.
  destruct (step_redraw_empties f C normal s x Hx) as (He & _).
  apply read_after_empty_size; assumption.
Qed.
Print Assumptions C16_size.

(** a second read returns the same numbers and changes nothing *)
Theorem C16_read_stable : forall f C normal srcs0 g s,
  (0 < g)%Z -> reachable f C normal srcs0 g s -> raw (fst (read f C normal s)) <> [] ->
  read f C normal (fst (read f C normal s)) = (fst (read f C normal s), snd (read f C normal s)).
Proof.
  intros f C normal srcs0 g s Hg Hr. apply read_stable. exact (reachable_inv _ _ _ _ _ _ Hg Hr).
Qed.
Print Assumptions C16_read_stable.

(** samples() hands out a NEW array holding the stored samples; whatever the user writes into any array
    obtained from samples() (at any later time) leaves the stored samples unchanged *)
Theorem C16_copy : forall f C normal srcs0 g s,
  (0 < g)%Z -> reachable f C normal srcs0 g s ->
  (let '(s', o, _) := step f C normal s Samples in
   exists h, o = OSamples h (raw s') /\ In h (handed s') /\ h <> raw_h s' /\ ~ In h (handed s) /\
             nth h (arrays s') [] = raw s') /\
  (forall j i x, raw (step_st f C normal s (Mutate j i x)) = raw s).
Proof.
  intros f C normal srcs0 g s Hg Hr. pose proof (reachable_inv _ _ _ _ _ _ Hg Hr) as Hi. split.
  - exact (samples_returns_copy f C normal s Hi).
  - intros j i x. apply mutate_keeps_samples. exact Hi.
Qed.
Print Assumptions C16_copy.

(** non-vacuity: a skewed formula (x*x, mode in the first bin), a concrete offset stream, a history with an
    own sample size, the mode strategy at confidence 1/2, a range and a custom pair; hypotheses of the
    find_mode theorems on a histogram with its maximum in the last bin *)
Definition ex_normal (i n : nat) : list Q := map (fun j => inject_Z (Z.of_nat ((j * 5 + i) mod 9)) / 4 - 1) (seq 0 n).
Definition ex_ops : list op :=
  [SetSampleSize (PInt 12); UseMode (PFloat (1 # 2)); ReadValue; SetRange [PInt 0; PInt 1]; UseMeanStd; ReadError;
   UseCustom (PInt 3) (PFloat (1 # 4)); Samples; Mutate 0 0 (7 # 1); ReadValue].
Example C16_nonvacuous :
  let f := eval (Mul (Var 0) (Var 0)) in
  let s := run f [[1]] ex_normal ex_ops (init [mksrc 0 1 1] 5) in
  reachable f [[1]] ex_normal [mksrc 0 1 1] 5 s /\
  (forall y, f y <> None) /\
  nonneg [0; 2; 5; 9]%Z /\
  length (raw s) = 12%nat /\ strat s = Custom /\ xr s = Some (0, 1) /\ conf s == 1 # 2 /\
  snd (read f [[1]] ex_normal s) = mkrep (Some 3) (EExact (1 # 4)) /\
  argmax (hist (raw s) NBINS) = 25%nat /\
  argmax [0; 2; 5; 9]%Z = 3%nat /\
  find_mode [0; 2; 5; 9]%Z [0; 1; 2; 3; 4] (3 # 4) = Some (7 # 2, 1) /\
  preserving (UseMode (PFloat (3 # 2))) = true /\ redrawing ResetSampleSize = true.
Proof.
  cbv zeta. split; [exists ex_ops; reflexivity|]. split; [intros y; simpl; discriminate|].
  split; [repeat constructor; intro; discriminate|].
  vm_compute. repeat split; reflexivity.
Qed.
