(** C17 -- MeasurementArray edits and aggregates match a list-of-pairs model.
    Only theorem statements, each closed by [exact], each followed by Print Assumptions.
    Model: Model/Arrays.v (heap of element objects shared between the source array and the result;
    arrays are lists of object ids); [abs h A] is the array as a Python list of (value, uncertainty). *)
From Coq Require Import List ZArith QArith Qreals Reals Bool.
From QV Require Import Base.Py Model.Arrays Proofs.Arrays Proofs.ArraysR.
Import ListNotations.

(** the constructor (numbers with no / common / per-element / relative uncertainties, name, unit) gives
    the list of (value, uncertainty) pairs, every element with the unit and named name_j, and the
    invariant the edit theorems start from *)
Theorem C17_constructor : forall h nx data sp name u s2 A,
  mk_array (h, nx) data sp name u = (s2, Ok A) ->
  exists errs, error_array data sp = Ok errs /\
  abs (fst s2) A = combine data errs /\ inv s2 A /\
  named (fst s2) A name u /\ (A <> [] -> arr_name (fst s2) A = name /\ arr_unit (fst s2) A = u) /\
  (forall id, (id < nx)%nat -> fst s2 id = h id).
Proof. exact mk_array_spec. Qed.
Print Assumptions C17_constructor.

(** append: the result is the list followed by the coerced operand; the source list is unchanged *)
Theorem C17_append : forall h nx A o h' nx' R,
  append (h, nx) A o = ((h', nx'), Ok R) -> bounded nx A -> operand_ok nx o ->
  abs h' R = abs h A ++ coerce h o /\ abs h' A = abs h A /\ (nx <= nx')%nat /\ bounded nx' R.
Proof. exact append_abs. Qed.
Print Assumptions C17_append.

(** insert: l[k:k] = v with numpy's index normalisation (-n <= k <= n, negative k counts from the end) *)
Theorem C17_insert : forall h nx A k o h' nx' R,
  insert (h, nx) A k o = ((h', nx'), Ok R) -> bounded nx A -> operand_ok nx o ->
  exists i, norm_index (length A) k true = Some i /\
  abs h' R = firstn i (abs h A) ++ coerce h o ++ skipn i (abs h A) /\ abs h' A = abs h A
  /\ (nx <= nx')%nat /\ bounded nx' R.
Proof. exact insert_abs. Qed.
Print Assumptions C17_insert.

(** delete: del l[k] *)
Theorem C17_delete : forall h nx A k h' nx' R,
  delete (h, nx) A k = ((h', nx'), Ok R) ->
  exists i, norm_index (length A) k false = Some i /\
  abs h' R = remove_nth i (abs h A) /\ abs h' A = abs h A /\ nx' = nx /\ (bounded nx A -> bounded nx R).
Proof. exact delete_abs. Qed.
Print Assumptions C17_delete.

(** item assignment: a bare number replaces the value and keeps the uncertainty; anything else
    replaces the pair (element objects of the array are distinct) *)
Theorem C17_setitem : forall h nx A k it h' nx' A',
  setitem (h, nx) A k (OItem it) = ((h', nx'), Ok A') -> NoDup A -> bounded nx A -> item_ok nx it ->
  exists i, norm_index (length A) k false = Some i /\
  abs h' A' = match it with
              | INum x => update i (x, snd (nth i (abs h A) (0, 0))) (abs h A)
              | _ => update i (coerce_item h it) (abs h A)
              end.
Proof. exact setitem_abs. Qed.
Print Assumptions C17_setitem.

(** after any successful edit every element of the result carries the array's unit and, when the
    array has a name, element j is named name_j; a non-empty result keeps the array's name and unit;
    the invariant (distinct objects, names, units) is re-established *)
Theorem C17_units_names : forall h nx A e s1 R,
  inv (h, nx) A -> edit_ok nx A e -> apply_edit (h, nx) A e = (s1, Ok R) ->
  named (fst s1) R (arr_name h A) (arr_unit h A) /\
  (R <> [] -> arr_name (fst s1) R = arr_name h A /\ arr_unit (fst s1) R = arr_unit h A) /\
  inv s1 R.
Proof. exact units_names. Qed.
Print Assumptions C17_units_names.

(** append / insert / delete leave the length (the id list [A] itself), values and uncertainties
    of the array they started from unchanged *)
Theorem C17_source_unchanged : forall h nx A e s1 R,
  bounded nx A -> (forall id, In id (edit_operand_ids e) -> (id < nx)%nat) ->
  (forall k it, e <> ESet k it) ->
  apply_edit (h, nx) A e = (s1, Ok R) -> abs (fst s1) A = abs h A.
Proof. exact source_unchanged. Qed.
Print Assumptions C17_source_unchanged.

(** one edit refines one list edit: it succeeds exactly when the list edit is defined (valid index,
    well-formed operand), then the abstraction commutes; a rejected edit leaves the list as it was *)
Theorem C17_step : forall h nx A e, inv (h, nx) A -> edit_ok nx A e ->
  match apply_edit (h, nx) A e with
  | (s1, Ok R) => step_ok h nx A e s1 R
  | (s1, Raise _) => step_raise h nx A e s1
  end.
Proof. exact edit_step. Qed.
Print Assumptions C17_step.

(** every finite edit history behaves like the same history on the Python list *)
Theorem C17_history : forall es s A, inv s A -> hist_ok s A es ->
  abs (fst (fst (run_edits s A es))) (snd (run_edits s A es)) = list_run (abs (fst s) A) (trace s A es)
  /\ inv (fst (run_edits s A es)) (snd (run_edits s A es)).
Proof. exact history_refines. Qed.
Print Assumptions C17_history.

(** sum / mean / std are the textbook functions of the list of pairs (uncertainties squared, in Q) *)
Theorem C17_aggregates : forall h A,
  agg_sum h A = list_sum_spec (abs h A) /\
  agg_std_sq h A = list_var_spec (abs h A) /\
  agg_mean h A = (list_mean_spec (abs h A), list_var_spec (abs h A) / qlen (abs h A)).
Proof. exact aggregates_spec. Qed.
Print Assumptions C17_aggregates.

(** ... and over the reals: sum x_i +/- sqrt(sum s_i^2), mean +/- std/sqrt n as sqrt(var/n), sample std *)
Theorem C17_aggregates_R : forall h A (se sd me : Q),
  0 <= se -> 0 <= sd -> 0 <= me ->
  se * se == snd (agg_sum h A) -> sd * sd == agg_std_sq h A -> me * me == snd (agg_mean h A) ->
  fst (agg_sum h A) = qsum (map fst (abs h A)) /\
  Q2R se = sqrt (Q2R (qsum (map (fun p => snd p * snd p) (abs h A)))) /\
  fst (agg_mean h A) = list_mean_spec (abs h A) /\
  Q2R sd = sqrt (Q2R (list_var_spec (abs h A))) /\
  Q2R me = sqrt (Q2R (list_var_spec (abs h A) / qlen (abs h A))).
Proof. exact aggregates_R. Qed.
Print Assumptions C17_aggregates_R.

(** the index suffix is what the array's name property strips, whatever the name is *)
Theorem C17_name_roundtrip : forall n j, strip_index (idx_name n j) = n.
Proof. exact strip_idx_name. Qed.
Print Assumptions C17_name_roundtrip.

(** non-vacuity: array "x" [m] = [1 +/- 1/2, 2 +/- 1/2], a user measurement 4 +/- 1/4, and the history
    insert(0, m); a[-1] = 9; delete(1); insert(7, 1) (rejected); append([(3, 1/4), 5]); a[0] = (6, 1/8)
    satisfies the hypotheses of C17_history and ends as the expected list, still named "x" *)
Example C17_nonvacuous :
  let s := fst ex_state in let A := [0; 1]%nat in
  inv s A /\ hist_ok s A ex_edits /\
  abs (fst (fst (run_edits s A ex_edits))) (snd (run_edits s A ex_edits))
    = [(6, 1 # 8); (9, 1 # 2); (3, 1 # 4); (5, 0)] /\
  arr_name (fst (fst (run_edits s A ex_edits))) (snd (run_edits s A ex_edits)) = ex_name /\
  en (fst (fst (run_edits s A ex_edits)) 5%nat) = idx_name ex_name 3.
Proof. exact example_history. Qed.
