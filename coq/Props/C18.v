(** C18 -- Named compound units never change the physical dimension of a result.
    Only theorem statements, each closed by [exact], each followed by Print Assumptions.
    [defs] is the dict UNIT_DEFINITIONS (name -> exponent map, in definition order);
    [E s k] is the exponent of base symbol [k] in symbol [s] once every defined name is
    replaced by its definition -- characterised by [is_expansion defs E] (an undefined name
    denotes itself, a defined name denotes what its definition denotes), which exists and is
    unique exactly for acyclic definitions; [xdim E u] is the dimension a unit map denotes,
    [dspec E e] the dimensional analysis of the tree [e] on the expanded operand units.
    [unit_of fuel defs e] models how the DerivedValues of [e] get their units
    (propagate_units -> operate_with_units: unpack, filter, operate, filter, pack); the
    library recursion [__unpack_unit] is modelled with fuel, [None] = RecursionError. *)
From Coq Require Import List QArith Bool PArith.
From QV Require Import Model.UnitsBase Gen.UnitsGen Model.Units Proofs.UnitsBase Proofs.Units.
Import ListNotations.
Open Scope Q_scope.

(** expanding all defined names in the unit of a result gives exactly the dimension obtained
    by expanding the operands' units and applying dimensional analysis; a warning is issued
    exactly on a genuine mismatch of the expanded dimensions (then there is no unit) *)
Theorem C18_dimension : forall defs E fuel e u w,
  is_expansion defs E -> wf_defs defs -> in_domain fuel defs E e -> unit_of fuel defs e = Some (u, w) ->
  NoDup (keys u) /\
  (w = false -> forall k, xdim E u k == dspec E e k) /\
  (w = true -> u = [] /\ genuine_mismatch E e) /\
  (genuine_mismatch E e -> w = true).
Proof. exact C18_dimension_lemma. Qed.
Print Assumptions C18_dimension.

(** for acyclic definitions (names defined in terms of other names, in any order) the
    computation returns for every tree of the domain once the bound is large enough ... *)
Theorem C18_terminates : forall defs, acyclic defs ->
  exists F, forall fuel E e, (F <= fuel)%nat -> in_domain fuel defs E e -> exists u w, unit_of fuel defs e = Some (u, w).
Proof. exact C18_terminates_lemma. Qed.
Print Assumptions C18_terminates.

(** ... and the expansion [E] the theorems speak about exists and is unique *)
Theorem C18_expansion_exists : forall defs, acyclic defs -> exists E, is_expansion defs E.
Proof. exact expansion_exists. Qed.
Print Assumptions C18_expansion_exists.

Theorem C18_expansion_unique : forall defs E1 E2, acyclic defs -> is_expansion defs E1 -> is_expansion defs E2 ->
  forall s k, E1 s k == E2 s k.
Proof. exact expansion_unique_lemma. Qed.
Print Assumptions C18_expansion_unique.

(** the library's own recursive expansion ([__unpack_unit], which multiplies by the power of
    the named unit) computes that expansion, down to undefined symbols only *)
Theorem C18_unpack_expands : forall defs E fuel u r, is_expansion defs E -> unpack_map fuel defs u 1 = Some r ->
  NoDup (keys r) /\ (forall n, In n (keys r) -> d_lookup defs n = None) /\ forall k, dim r k == xdim E u k.
Proof. exact unpack_expands_lemma. Qed.
Print Assumptions C18_unpack_expands.

Theorem C18_unpack_terminates : forall defs, acyclic defs ->
  exists F, forall fuel u c, (F <= fuel)%nat -> unpack_map fuel defs u c <> None.
Proof. exact unpack_terminates_lemma. Qed.
Print Assumptions C18_unpack_terminates.

(** [__try_pack] answers a non-zero power only when the unit is EXACTLY that power of the compound *)
Theorem C18_pack_exact : forall u d, ~ try_pack u d == 0 -> forall k, dim u k == try_pack u d * dim d k.
Proof. exact try_pack_exact. Qed.
Print Assumptions C18_pack_exact.

(** a unit is replaced by name^r (in a result and when printed) only for the first definition,
    in definition order, of which it is exactly the r-th power, r <> 0; otherwise it is left alone *)
Theorem C18_shown_exact : forall defs u,
  pack_first defs u = u \/
  exists n d, In (n, d) defs /\ pack_first defs u = [(n, try_pack u d)] /\ ~ try_pack u d == 0 /\
              forall k, dim u k == try_pack u d * dim d k.
Proof. exact shown_exact_lemma. Qed.
Print Assumptions C18_shown_exact.

(** what [.unit] shows (packing of construct_unit_string) denotes the dimension of the stored unit *)
Theorem C18_display : forall defs E u, is_expansion defs E -> wf_defs defs -> NoDup (keys u) ->
  forall k, xdim E (display defs u) k == xdim E u k.
Proof. exact display_sound_lemma. Qed.
Print Assumptions C18_display.

(** clearing the definitions restores the undecorated behaviour of C08, after any history *)
Theorem C18_clear : forall h f e, unit_of (S f) (d_run (h ++ [Clear])) e = unit_of 1 [] e.
Proof. exact clear_lemma. Qed.
Print Assumptions C18_clear.

(** after any sequence of define_unit / clear_unit_definitions calls a name stands for its
    latest definition since the latest clear (results depend on the history only through
    this), and the definitions form a dict of dicts, as C18_dimension assumes *)
Theorem C18_define_clear_history : forall h n, d_lookup (d_run h) n = last_def h n None.
Proof. exact history_lemma. Qed.
Print Assumptions C18_define_clear_history.

Theorem C18_history_wf : forall h, wf_history h -> wf_defs (d_run h).
Proof. exact wf_defs_run. Qed.
Print Assumptions C18_history_wf.

(** end to end: after ANY history of define_unit / clear_unit_definitions calls (with dict-valued
    definitions) that leaves acyclic definitions, every tree of the domain gets a unit, and both
    the stored unit and what [.unit] shows denote the dimension of dimensional analysis on the
    expanded operands; a warning is issued exactly on a genuine mismatch *)
Theorem C18_main : forall h, wf_history h -> acyclic (d_run h) ->
  exists E F, is_expansion (d_run h) E /\
    forall fuel e, (F <= fuel)%nat -> in_domain fuel (d_run h) E e ->
      exists u w, unit_of fuel (d_run h) e = Some (u, w) /\
        (w = false -> forall k, xdim E u k == dspec E e k /\ xdim E (display (d_run h) u) k == dspec E e k) /\
        (w = true -> u = [] /\ genuine_mismatch E e) /\
        (genuine_mismatch E e -> w = true).
Proof. exact C18_main_lemma. Qed.
Print Assumptions C18_main.

(** non-vacuity: J = N*m is defined BEFORE N = kg*m/s^2, then W = J/s.  The definitions are
    acyclic, form a dict of dicts, [Efuel defs 4] is their expansion; N^2*kg is in the domain and
    gives kg^3*m^2*s^-4; N/kg + m/s^2 (mixed and expanded form) is in the domain, does not warn
    and keeps m*s^-2; W/(m/s) is shown under the name N because it is exactly N^1. *)
Example C18_nonvacuous :
  let kg := 5%positive in let m := 6%positive in let s := 7%positive in
  let N := 11%positive in let J := 12%positive in let W := 13%positive in
  let h := [Define J [(N, 1); (m, 1)]; Define N [(kg, 1); (m, 1); (s, - (2 # 1))]; Define W [(J, 1); (s, - (1))]] in
  let defs := d_run h in
  let E := Efuel defs 4 in
  let e1 := Bin OP_mul (Bin OP_pow (Leaf [(N, 1)]) (Cst (2 # 1))) (Leaf [(kg, 1)]) in
  let e2 := Bin OP_add (Leaf [(N, 1); (kg, - (1))]) (Leaf [(m, 1); (s, - (2 # 1))]) in
  let e3 := Bin OP_div (Leaf [(W, 1)]) (Leaf [(m, 1); (s, - (1))]) in
  wf_history h /\ acyclic defs /\ is_expansion defs E /\
  in_domain 8 defs E e1 /\ unit_of 8 defs e1 = Some ([(kg, 3 # 1); (m, 2 # 1); (s, - (4 # 1))], false) /\
  in_domain 8 defs E e2 /\ (exists u, unit_of 8 defs e2 = Some (u, false) /\ umap_eqb u [(m, 1); (s, - (2 # 1))] = true) /\
  in_domain 8 defs E e3 /\ (exists r, unit_of 8 defs e3 = Some ([(N, r)], false) /\ r == 1).
Proof.
  cbv zeta.
  set (rank := fun n : sym => if Pos.eqb n 13 then 2%nat else if Pos.eqb n 12 then 1%nat else 0%nat).
  set (defs := d_run [Define 12%positive [(11%positive, 1); (6%positive, 1)];
                      Define 11%positive [(5%positive, 1); (6%positive, 1); (7%positive, - (2 # 1))];
                      Define 13%positive [(12%positive, 1); (7%positive, - (1))]]).
  assert (Hrank : forall n d m, d_lookup defs n = Some d -> In m (keys d) -> d_lookup defs m <> None ->
                                (rank m < rank n)%nat).
  { intros n d m Hl Hin Hm. pose proof (d_lookup_some_In _ _ _ Hl) as Hn. vm_compute in Hn.
    destruct Hn as [<-|[<-|[<-|[]]]]; vm_compute in Hl; inversion Hl; subst d; simpl in Hin;
      repeat (destruct Hin as [<-|Hin]; [first [exfalso; apply Hm; reflexivity | vm_compute; repeat constructor]|]);
      destruct Hin. }
  assert (Hnz : forall E u k, Qeq_bool (xdim E u k) 0 = false -> ~ xdim E u k == 0).
  { intros E u k H Hq. apply Qeq_bool_iff in Hq. congruence. }
  assert (Hok : forall E e u w k, unit_of 8 defs e = Some (u, w) -> Qeq_bool (xdim E u k) 0 = false ->
                                  operand_ok 8 defs E e).
  { intros E e u w k H1 H2. right. exists u, w. split; [exact H1|]. exists k. apply Hnz. exact H2. }
  split; [|split; [|split; [|split; [|split; [|split; [|split; [|split]]]]]]].
  - intros n u Hin. simpl in Hin. destruct Hin as [Hi|[Hi|[Hi|[]]]]; inversion Hi; subst; unfold wf, keys; simpl;
      repeat constructor; simpl; intuition discriminate.
  - exists rank. exact Hrank.
  - exact (expansion_exists_rank defs rank Hrank).
  - cbn [in_domain]. split; [|split; [|split]].
    + split; [unfold keys; simpl; repeat constructor; simpl; tauto|]. split; [exact I|]. split.
      * eapply (Hok _ _ _ _ 5%positive); [reflexivity|vm_compute; reflexivity].
      * right. split; [reflexivity|]. eexists. reflexivity.
    + unfold keys; simpl; repeat constructor; simpl; tauto.
    + eapply (Hok _ _ _ _ 5%positive); [vm_compute; reflexivity|vm_compute; reflexivity].
    + left. split; [reflexivity|]. eapply (Hok _ _ _ _ 5%positive); [reflexivity|vm_compute; reflexivity].
  - vm_compute. reflexivity.
  - cbn [in_domain]. split; [|split; [|split]].
    + unfold keys; simpl; repeat constructor; simpl; intuition discriminate.
    + unfold keys; simpl; repeat constructor; simpl; intuition discriminate.
    + eapply (Hok _ _ _ _ 6%positive); [reflexivity|vm_compute; reflexivity].
    + left. split; [reflexivity|]. eapply (Hok _ _ _ _ 6%positive); [reflexivity|vm_compute; reflexivity].
  - eexists. split; [vm_compute; reflexivity|vm_compute; reflexivity].
  - cbn [in_domain]. split; [|split; [|split]].
    + unfold keys; simpl; repeat constructor; simpl; tauto.
    + unfold keys; simpl; repeat constructor; simpl; intuition discriminate.
    + eapply (Hok _ _ _ _ 5%positive); [reflexivity|vm_compute; reflexivity].
    + left. split; [reflexivity|]. eapply (Hok _ _ _ _ 6%positive); [reflexivity|vm_compute; reflexivity].
  - eexists. split; [vm_compute; reflexivity|vm_compute; reflexivity].
Qed.
