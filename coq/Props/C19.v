(** C19 -- What is drawn equals the data: points, error bars, curves, residuals, labels.
    Only theorem statements, each closed by [exact], each followed by Print Assumptions.

    PARTIAL BY DESIGN (DESIGN.md section 4 C19, section 7): the theorems are about the data the
    library hands to matplotlib ([Model.Plot.savefig]); what matplotlib makes of the artists,
    numpy.histogram / numpy.linspace (modelled by their exact-arithmetic definitions), the
    Monte Carlo evaluation of a fit curve ([fi_mc], an arbitrary function in the theorems) and
    the propagated uncertainties of residuals ([fi_res_err], an arbitrary list) are outside.
    The x-range mask, the number of curve points, the label expressions and sources, the
    aggregates of the plot's x-domain and the keyword filters are GENERATED from
    qexpy/plotting/plotobjects.py and plotting.py on every run (Gen/PlotGen.v). *)
From Coq Require Import List ZArith QArith Qabs Bool String Permutation.
From QV Require Import Model.PlotBase Gen.PlotGen Model.Plot Proofs.Plot Model.PlotHistory Proofs.PlotHistory.
Import ListNotations.
Open Scope Q_scope.

(** a data set is drawn at exactly its central values, restricted to the points with
    low <= x < high when an x-range was given; the four arrays (x, y, xerr, yerr) are filtered
    identically, and the error bars are x -/+ xerr, y -/+ yerr of the points that remain *)
Theorem C19_select : forall o eb, wf_dataset (do_ds o) ->
  let sel := filter (kept (do_range o)) (points_of (do_ds o)) in
  do_xvalues o = map px sel /\ do_yvalues o = map py sel /\
  do_xerr o = map pxe sel /\ do_yerr o = map pye sel /\
  p_x (draw_data eb o) = map px sel /\ p_y (draw_data eb o) = map py sel /\
  p_bars (draw_data eb o) = if eb then Some (map xbar4 sel, map ybar4 sel) else None.
Proof. exact select_lemma. Qed.
Print Assumptions C19_select.

(** a curve is drawn on 100 evenly spaced points from low to high, both ends included, at
    y_i = f(x_i), with a band f -/+ its uncertainty when error bars are on *)
Theorem C19_linspace : forall eb (f : Q -> Q * Q) lo hi,
  let c := draw_curve eb f (lo, hi) in
  c_x c = linspace100 lo hi /\
  List.length (c_x c) = 100%nat /\ List.length (c_y c) = 100%nat /\
  nth 0 (c_x c) 0 == lo /\ nth 99 (c_x c) 0 == hi /\
  (forall i, (i < 99)%nat -> nth (S i) (c_x c) 0 - nth i (c_x c) 0 == (hi - lo) / 99) /\
  c_y c = map (fun x => fst (f x)) (c_x c) /\
  c_band c = (if eb then Some (map (fun x => fst (f x) - snd (f x)) (c_x c),
                               map (fun x => fst (f x) + snd (f x)) (c_x c)) else None).
Proof. exact curve_lemma. Qed.
Print Assumptions C19_linspace.

(** a function is drawn on its own x-range if one was given, otherwise on the plot's x-domain ... *)
Theorem C19_domain_function : forall dom f,
  (fo_spec f = true -> fn_domain dom f = fo_range f) /\ (fo_spec f = false -> fn_domain dom f = Some dom).
Proof. exact fn_domain_spec. Qed.
Print Assumptions C19_domain_function.

(** ... which is the range set on the plot, else (the smallest low bound, the largest high bound)
    over the objects that have an x-range; without any, nothing can be drawn *)
Theorem C19_domain : forall cfg objs,
  match s_xrange cfg with
  | Some r => plot_domain cfg objs = Some r
  | None =>
      match ranges_of objs with
      | [] => plot_domain cfg objs = None
      | _ :: _ =>
          exists lo hi, plot_domain cfg objs = Some (Qred lo, Qred hi) /\
            In lo (map fst (ranges_of objs)) /\ (forall r, In r (ranges_of objs) -> lo <= fst r) /\
            In hi (map snd (ranges_of objs)) /\ (forall r, In r (ranges_of objs) -> snd r <= hi)
      end
  end.
Proof. exact plot_domain_spec. Qed.
Print Assumptions C19_domain.

(** a fit result is drawn as a curve over the fit's x-range, and -- when the residual panel is
    on -- its residuals y_i - fit_function(x_i) at ALL points of the data set, with the data's x
    uncertainties and the residuals' own uncertainties as error bars *)
Theorem C19_residuals : forall cfg dom f r, fi_range f = Some r ->
  wf_dataset (fi_ds f) -> List.length (fi_res_err f) = List.length (ds_x (fi_ds f)) ->
  exists c res, draw_obj cfg dom (OFit f) = Rendered (DrFit c res) /\
    c = draw_curve (s_errorbar cfg) (fi_mc f) r /\
    res = (if s_residuals cfg then Some (draw_data (s_errorbar cfg) (fi_residual_obj f)) else None) /\
    fit_residuals f = map2 (fun y fx => y - fx) (ds_y (fi_ds f)) (map (fi_fn f) (ds_x (fi_ds f))) /\
    let pts := zip4 (ds_x (fi_ds f)) (fit_residuals f) (ds_xe (fi_ds f)) (fi_res_err f) in
    let rp := draw_data (s_errorbar cfg) (fi_residual_obj f) in
    p_x rp = ds_x (fi_ds f) /\ p_y rp = fit_residuals f /\
    p_bars rp = if s_errorbar cfg then Some (map xbar4 pts, map ybar4 pts) else None.
Proof. exact residuals_lemma. Qed.
Print Assumptions C19_residuals.

(** the fit curve: the Monte Carlo evaluator on 100 points of the fit's range; any bound between
    the evaluator's mean and the fit function carries over to every drawn point.
    PARTIAL: that the real evaluator satisfies such a bound with eps = 6 sigma / sqrt(10000) is a
    statistical fact outside the model, checked on every run by the correspondence.
    (full statement wanted by the property: "drawn y_i = fit_function(x_i) within sampling error",
     with the sampling distribution formalised -- not attempted, DESIGN section 7) *)
Theorem C19_fit_curve_partial : forall eb f r (eps : Q -> Q),
  fi_range f = Some r ->
  (forall x, Qabs (fst (fi_mc f x) - fi_fn f x) <= eps (snd (fi_mc f x))) ->
  let c := draw_curve eb (fi_mc f) r in
  c_x c = linspace100 (fst r) (snd r) /\
  forall i, (i < 100)%nat ->
    Qabs (nth i (c_y c) 0 - fi_fn f (nth i (c_x c) 0)) <= eps (snd (fi_mc f (nth i (c_x c) 0))).
Proof. exact fit_curve_lemma. Qed.
Print Assumptions C19_fit_curve_partial.

(** histograms with any binning the library forwards: bins (integer / ascending edge sequence of any
    widths / string rule with numpy's edges as oracle), range, density, weights, cumulative.
    The bars are computed from the SAME binning of the SAME samples as the values returned to the
    caller (every one of these keywords reaches both numpy.histogram and the drawing call, except
    cumulative, which only the drawing call gets): without cumulative the bar heights ARE the
    returned values; with cumulative they are their running sums (of density * width for
    densities).  The returned values are the weighted bin contents (sum of the weights of the
    samples with e_i <= s < e_i+1, last bin closed; weight 1 when none are given, i.e. the plain
    counts), or contents / width / total when density is on; over ascending edges the plain counts
    sum to the number of samples within [first edge, last edge] *)
Theorem C19_hist : forall h,
  (hist_returned h = None -> hist_bars h = None) /\
  forall n e, hist_returned h = Some (n, e) ->
    hist_bars h = Some (bars_of e (mpl_heights (hi_kw h) n e)) /\
    (kw_cumulative (hi_kw h) = false -> mpl_heights (hi_kw h) n e = n) /\
    (kw_cumulative (hi_kw h) = true ->
       mpl_heights (hi_kw h) n e = cumsum_from 0 (if kw_density (hi_kw h) then map2 Qmult n (widths e) else n)) /\
    hist_edges (hi_samples h) (hi_kw h) = Some e /\
    (let raw := hist_sums (weighted (hi_samples h) (hi_kw h)) e in
     n = if kw_density (hi_kw h) then densities raw e else raw) /\
    (kw_weights (hi_kw h) = None ->
       Forall2 Qeq (hist_sums (weighted (hi_samples h) (hi_kw h)) e) (map Qn (hist_counts (hi_samples h) e))) /\
    (forall e0 rest, e = e0 :: rest -> rest <> [] ->
       List.length n = List.length rest /\
       map (fun b => snd b) (bars_of e (mpl_heights (hi_kw h) n e)) = mpl_heights (hi_kw h) n e /\
       map (fun b => fst (fst b)) (bars_of e (mpl_heights (hi_kw h) n e)) = removelast e /\
       (ascending e ->
          sum_nat (hist_counts (hi_samples h) e) = count_if (closed e0 (last rest e0)) (hi_samples h))).
Proof. exact hist_lemma. Qed.
Print Assumptions C19_hist.

(** density=True: the densities integrate to one (bins of non-zero width, non-zero total) *)
Theorem C19_hist_density : forall raw e0 rest, ~ qsum raw == 0 ->
  Forall (fun w => ~ w == 0) (widths (e0 :: rest)) -> List.length raw = List.length rest ->
  qsum (map2 Qmult (densities raw (e0 :: rest)) (widths (e0 :: rest))) == 1.
Proof. exact densities_integrate. Qed.
Print Assumptions C19_hist_density.

(** cumulative=True: the last bar is the total of what is accumulated *)
Theorem C19_hist_cumulative : forall l a d, l <> [] -> last (cumsum_from a l) d == a + qsum l.
Proof. exact cumsum_last. Qed.
Print Assumptions C19_hist_cumulative.

(** equal-width bins over a range low <= high are ascending, so the sum law applies to them *)
Theorem C19_hist_equal_width : forall k lo hi, lo <= hi -> ascending (linspace (S k) lo hi).
Proof. exact (fun k => linspace_ascending (S k)). Qed.
Print Assumptions C19_hist_equal_width.

(** axis labels: the name followed by the unit in square brackets (nothing when there is no
    unit); name and unit are the explicit override if one was set, else those of the first data
    set or function that has a non-empty one *)
Theorem C19_labels : forall cfg objs,
  plot_xname cfg objs = chosen (s_xname cfg) (flat_map xname_of objs) /\
  plot_yname cfg objs = chosen (s_yname cfg) (flat_map yname_of objs) /\
  plot_xunit cfg objs = chosen (s_xunit cfg) (flat_map xunit_of objs) /\
  plot_yunit cfg objs = chosen (s_yunit cfg) (flat_map yunit_of objs) /\
  xlabel cfg objs = label (plot_xname cfg objs) (plot_xunit cfg objs) /\
  ylabel cfg objs = label (plot_yname cfg objs) (plot_yunit cfg objs).
Proof. exact labels_lemma. Qed.
Print Assumptions C19_labels.

Theorem C19_labels_single : forall cfg d,
  s_xname cfg = [] -> s_xunit cfg = [] -> s_yname cfg = [] -> s_yunit cfg = [] ->
  xlabel cfg [OData d] = label (ds_xname (do_ds d)) (ds_xunit (do_ds d)) /\
  ylabel cfg [OData d] = label (ds_yname (do_ds d)) (ds_yunit (do_ds d)).
Proof. exact single_dataset_labels. Qed.
Print Assumptions C19_labels_single.

(** the data drawn for an object does not depend on the order in which the objects were added:
    for every permutation of the object list each object is drawn identically, and the whole
    figure holds the same drawings, permuted (colours and the default axis label, which the
    code takes from the first named object, are not covered) *)
Theorem C19_order : forall cfg objs objs', Permutation objs objs' ->
  (forall o, drawn_for cfg objs o = drawn_for cfg objs' o) /\
  (forall ds, render cfg objs = Rendered ds ->
     exists ds', render cfg objs' = Rendered ds' /\ Permutation ds ds') /\
  (render cfg objs = ErrNoDomain <-> render cfg objs' = ErrNoDomain).
Proof. exact order_lemma. Qed.
Print Assumptions C19_order.

(** the legend lists the non-hidden labels of the objects, whatever the order *)
Theorem C19_legend : forall cfg objs, s_legend cfg = true ->
  exists l, legend cfg objs = Some l /\ Permutation l (filter listed (map obj_label objs)).
Proof. exact legend_perm. Qed.
Print Assumptions C19_legend.

(** non-vacuity: a concrete plot -- a data set with uncertainties and an x-range whose high bound
    is a data value, a function without its own range, a histogram with a range -- renders; the
    mask drops the boundary point, the function is drawn on the plot's domain [0, 6], the
    histogram counts only the samples within its range and returns what it draws *)
Example C19_nonvacuous :
  let d := {| ds_x := [1; 2; 3; 4]; ds_y := [2; 4; 6; 8]; ds_xe := [1 # 2; 1 # 2; 1 # 2; 1 # 2]; ds_ye := [0; 1; 0; 1];
              ds_name := []; ds_xname := [116%N]; ds_yname := []; ds_xunit := [115%N]; ds_yunit := [] |} in
  let o := {| do_ds := d; do_range := Some (2, 4); do_label := None |} in
  let f := {| fo_f := fun x => (2 * x, 1); fo_spec := false; fo_range := None;
              fo_xname := []; fo_yname := []; fo_xunit := []; fo_yunit := []; fo_label := [] |} in
  let h := {| hi_samples := [0; 1; 1; 5; 6; 9];
              hi_kw := {| kw_bins := Some (BInt 3); kw_range := Some (0, 6); kw_label := None;
                           kw_density := false; kw_weights := None; kw_cumulative := false |} |} in
  let cfg := {| s_errorbar := true; s_residuals := false; s_legend := false; s_xrange := None; s_title := [];
                s_xname := []; s_yname := []; s_xunit := []; s_yunit := [] |} in
  wf_dataset d /\
  do_xvalues o = [2; 3] /\ do_yerr o = [1; 0] /\
  plot_domain cfg [OData o; OFunc f; OHist h] = Some (0, 6) /\
  hist_returned h = Some ([1 + (1 + (1 + 0)); 0; 1 + (1 + 0)], [0 + 0 * (6 - 0) / 3; 0 + 1 * (6 - 0) / 3; 0 + 2 * (6 - 0) / 3; 0 + 3 * (6 - 0) / 3]) /\
  (exists ds, render cfg [OData o; OFunc f; OHist h] = Rendered ds /\ List.length ds = 3%nat) /\
  xlabel cfg [OData o; OFunc f; OHist h] = [116%N; 91%N; 115%N; 93%N].
Proof.
  cbv zeta. split; [repeat split|]. split; [reflexivity|]. split; [reflexivity|].
  split; [vm_compute; reflexivity|]. split; [vm_compute; reflexivity|].
  split; [eexists; split; [vm_compute; reflexivity|reflexivity]|]. vm_compute. reflexivity.
Qed.

(** non-vacuity for the histogram keywords: unequal bin widths with density, weights and cumulative;
    the drawn heights are the returned densities, resp. their running integral *)
Example C19_hist_nonvacuous :
  let kw c := {| kw_bins := Some (BSeq [0; 1; 3; 4]); kw_range := None; kw_label := None;
                 kw_density := true; kw_weights := Some [1; 2; 1; 4]; kw_cumulative := c |} in
  let h c := {| hi_samples := [0; 1; 2; 4]; hi_kw := kw c |} in
  (exists n e, hist_returned (h false) = Some (n, e) /\ Forall2 Qeq n [1 # 8; 3 # 16; 1 # 2] /\
               hist_bars (h false) = Some (bars_of e n)) /\
  (exists bars, hist_bars (h true) = Some bars /\ Forall2 Qeq (map (fun b => snd b) bars) [1 # 8; 1 # 2; 1]).
Proof.
  cbv zeta. split.
  - eexists. eexists. split; [vm_compute; reflexivity|]. split; [|vm_compute; reflexivity].
    repeat constructor.
  - eexists. split; [vm_compute; reflexivity|]. repeat constructor.
Qed.

(** histories: after ANY sequence of plot / hist / fit calls, switch, label and x-range changes and
    renderings (each of which leaves its x-domain behind in the functions that have no range of
    their own, where the next computation of the domain reads it back), a rendering shows exactly
    [savefig] of the objects and settings as they are then *)
Theorem C19_history : forall ops, Forall wf_op ops ->
  let st := prun ops new_plot in
  ps_last (pstep st Render) = Some (savefig (ps_cfg st) (added ops)) /\
  objs_of (ps_slots st) = added ops.
Proof. exact history_lemma. Qed.
Print Assumptions C19_history.

(** non-vacuity of C19_history: a data set on [1, 3] and a function without its own range are
    rendered (the function is left with the range [1, 3]); a second data set on [0, 10] is added;
    the next rendering draws the function over [0, 10] *)
Example C19_history_nonvacuous :
  let d1 := OData {| do_ds := {| ds_x := [1; 3]; ds_y := [1; 2]; ds_xe := [0; 0]; ds_ye := [0; 0]; ds_name := [];
                                ds_xname := []; ds_yname := []; ds_xunit := []; ds_yunit := [] |};
                    do_range := None; do_label := None |} in
  let d2 := OData {| do_ds := {| ds_x := [0; 10]; ds_y := [1; 2]; ds_xe := [0; 0]; ds_ye := [0; 0]; ds_name := [];
                                ds_xname := []; ds_yname := []; ds_xunit := []; ds_yunit := [] |};
                    do_range := None; do_label := None |} in
  let f := OFunc {| fo_f := fun x => (x, 0); fo_spec := false; fo_range := None;
                    fo_xname := []; fo_yname := []; fo_xunit := []; fo_yunit := []; fo_label := [] |} in
  let ops := [Add d1; Add f; Render; Add d2] in
  Forall wf_op ops /\
  map sl_left (ps_slots (prun ops new_plot)) = [None; Some (1, 3); None] /\
  match ps_last (pstep (prun ops new_plot) Render) with
  | Some (Rendered fig) =>
      match fig_objs fig with
      | [_; DrFunc c; _] => nth 0 (c_x c) 0 == 0 /\ nth 99 (c_x c) 0 == 10
      | _ => False
      end
  | _ => False
  end.
Proof.
  cbv zeta. split; [repeat constructor; simpl; auto|]. split; [vm_compute; reflexivity|].
  vm_compute. split; reflexivity.
Qed.

(** several plots alive at once (sessions of interleaved calls on plots 0 .. k-1): the state of each
    plot is the state a lone plot reaches by the calls made on IT, so what a rendering of plot i
    shows is [savefig] of the objects added to i and the switches / labels / x-range set on i --
    nothing done to another plot can change it.  (In the model the plots share no state by
    construction; that the implementation's plots share none is checked by the multi-plot sessions
    of the correspondence, where the expected switches are tracked from the calls made on each
    plot and never read back from the object.) *)
Theorem C19_sessions : forall k steps i, (i < k)%nat -> Forall (fun s => wf_op (snd s)) steps ->
  let st := nth i (srun steps (repeat new_plot k)) new_plot in
  st = prun (calls_on i steps) new_plot /\
  ps_last (pstep st Render) = Some (savefig (ps_cfg st) (added (calls_on i steps))) /\
  objs_of (ps_slots st) = added (calls_on i steps).
Proof. exact sessions_lemma. Qed.
Print Assumptions C19_sessions.
