(** C19 -- stub while the harness is being wired. *)
From Coq Require Import List ZArith QArith Bool String.
From QV Require Import Model.PlotBase Gen.PlotGen Model.Plot Proofs.Plot.
Import ListNotations.

Theorem C19_linspace_length : forall lo hi, List.length (linspace100 lo hi) = 100%nat.
Proof. exact (linspace_length 100). Qed.
Print Assumptions C19_linspace_length.
