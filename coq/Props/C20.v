(** C20 -- Global settings: validated, atomic, one default, restored after temporary use.
    Only theorem statements, each closed by [exact], each followed by Print Assumptions.
    The setters, the defaults, reset and the shape of the temporary-override wrapper are
    GENERATED from qexpy/settings/settings.py on every run (Gen/SettingsGen.v). *)
From Coq Require Import List ZArith QArith Bool String.
From QV Require Import Base.Py Gen.SettingsGen Model.Settings Proofs.Settings.
Import ListNotations.
Open Scope string_scope.

(** an option accepts exactly its documented values ... *)
Theorem C20_validation : forall o v s, in_domain v = true ->
  (snd (apply o v s) = None <-> documented o v = true).
Proof. exact validation_lemma. Qed.
Print Assumptions C20_validation.

(** ... and an invalid request leaves all options unchanged *)
Theorem C20_atomic : forall o v s, in_domain v = true ->
  snd (apply o v s) <> None -> fst (apply o v s) = s.
Proof. exact atomic_lemma. Qed.
Print Assumptions C20_atomic.

(** an accepted request stores the canonical value and changes no other option *)
Theorem C20_accepts : forall o v s k, in_domain v = true -> documented o v = true ->
  snd (apply o v s) = None /\
  sget (fst (apply o v s)) k = match assoc k (writes o v) with Some x => Ok x | None => sget s k end.
Proof. exact accepts_lemma. Qed.
Print Assumptions C20_accepts.

(** after any history of valid and invalid calls, reset gives the state of a fresh session *)
Theorem C20_reset : forall ops, forallb op_in_domain ops = true ->
  fst (step (run ops init_cfg) Reset) = init_cfg.
Proof. exact reset_after_history. Qed.
Print Assumptions C20_reset.

(** a temporary override restores the sample size whatever the wrapped computation does
    (it is an arbitrary state transformer that returns or raises) *)
Theorem C20_temporary : forall (func : store -> store * res pv) size s,
  in_domain size = true -> mc_ok s ->
  sget (fst (wrapper func size s)) "monte_carlo_sample_size" = sget s "monte_carlo_sample_size".
Proof. exact temporary_lemma. Qed.
Print Assumptions C20_temporary.

(** ... in particular when the wrapped function is entered again while it is running (recursion, a curve defined
    through another curve): every level is one more application of the wrapper, hence one more [func] *)
Theorem C20_temporary_reentrant : forall d (func : store -> store * res pv) size s,
  in_domain size = true -> mc_ok s ->
  sget (fst (wrapper (nest d func size) size s)) "monte_carlo_sample_size" = sget s "monte_carlo_sample_size".
Proof. intros d func size s. exact (temporary_lemma (nest d func size) size s). Qed.
Print Assumptions C20_temporary_reentrant.

(** the hypothesis [mc_ok] holds in every reachable state *)
Theorem C20_mc_ok_reachable : forall ops, forallb op_in_domain ops = true -> mc_ok (run ops init_cfg).
Proof.
  intros ops. unfold run.
  assert (H : forall s, mc_ok s -> forallb op_in_domain ops = true ->
                        mc_ok (fold_left (fun st x => fst (step st x)) ops s)).
  { induction ops as [|x ops IH]; intros s Hs Hd; simpl; [exact Hs|].
    simpl in Hd. apply andb_true_iff in Hd. destruct Hd as [Hx Hops].
    apply IH; [apply step_mc_ok; assumption|exact Hops]. }
  apply H. exists (PInt 10000). split; reflexivity.
Qed.
Print Assumptions C20_mc_ok_reachable.

(** non-vacuity: concrete requests in the domain, accepted and rejected, and a wrapped
    computation that raises after changing the sample size itself *)
Example C20_nonvacuous :
  in_domain (PStr "latex") = true /\ documented O_print_style (PStr "latex") = true /\
  in_domain (PInt (-3)) = true /\ documented O_mc_size (PInt (-3)) = false /\
  snd (apply O_plot_dims (PTuple [PInt 3; PFloat (1 # 2)]) init_cfg) = None /\
  snd (apply O_plot_dims (PTuple [PInt 3; PStr "x"]) init_cfg) = Some ValueError /\
  fst (wrapper (fun s => (sset s "monte_carlo_sample_size" (PInt 7), Raise OtherError)) (PInt 10) init_cfg) = init_cfg.
Proof. vm_compute. repeat split. Qed.
