#!/bin/bash
# Build the whole Rocq development from /repo's current tree (offline).
set -e
cd "$(dirname "$0")"
export PYTHONHASHSEED=0 MPLBACKEND=Agg QEXPY_VERIF=1
/venv/bin/python - <<'PY'
import sys
sys.path.insert(0, "tools")
from vlib import coq
errs = coq.translate_all(None)
for e in errs:
    print("TRANSLATE-ERROR", e)
coq.ensure_makefile()
PY
cd coq
timeout 3000 make -k -j14 2>&1 | tail -5 || true
echo "setup done"
