#!/usr/bin/env python3
"""DESIGN.md = DESIGN_head.md + DESIGN_sec4_draft.md + DESIGN_tail.md with the generated tables filled in."""
import os
import subprocess
V = os.path.dirname(os.path.dirname(os.path.abspath(__file__)))
def tab(which):
    return subprocess.run(["python3", os.path.join(V, "tools", "gen_design_tables.py"), which],
                          capture_output=True, text=True, check=True).stdout
head = open(os.path.join(V, "docsrc", "DESIGN_head.md")).read()
sec4 = open(os.path.join(V, "docsrc", "DESIGN_sec4.md")).read()
tail = open(os.path.join(V, "docsrc", "DESIGN_tail.md")).read()
tail = tail.replace("@@FINDINGS@@", tab("findings")).replace("@@SEEDED@@", tab("seeded")).replace("@@BENIGN@@", tab("benign"))
import re
tail = re.sub(r" ?@@[A-Z0-9_]+@@", "", tail)
open(os.path.join(V, "DESIGN.md"), "w").write(head.rstrip() + "\n\n" + sec4.rstrip() + "\n\n" + tail)
print("DESIGN.md written")
