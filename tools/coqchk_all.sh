#!/bin/bash
# Independent re-check of every compiled property file (and everything it depends on) with coqchk;
# prints the context summary: axioms, type-in-type, unsafe fixpoints, assumed positivity.  ~1-2 min.
cd "$(dirname "$0")/../coq" || exit 1
make -j12 >/dev/null 2>&1
mods=$(ls Props/*.v | sed 's|Props/\(.*\)\.v|QV.Props.\1|' | tr '\n' ' ')
timeout 3000 coqchk -silent -o -Q . QV $mods
