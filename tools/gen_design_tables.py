#!/usr/bin/env python3
"""Emits the generated tables of DESIGN.md: findings (from known_findings.json) and seeded changes
(from seeded/*/meta.json + notes.md).  Usage: gen_design_tables.py findings|seeded"""
import glob
import json
import os
import re
import sys

VERIF = os.path.dirname(os.path.dirname(os.path.abspath(__file__)))


def findings():
    d = json.load(open(os.path.join(VERIF, "known_findings.json")))
    print("| property | status | commit | what failed |")
    print("|---|---|---|---|")
    for f in d["findings"]:
        print("| {} | {} | {} | {} |".format(f["property"], f["status"], f.get("commit", f.get("key", "")),
                                             f["what"].replace("|", "\\|")))


def first_sentence(path):
    if not os.path.exists(path):
        return ""
    text = open(path).read()
    text = re.sub(r"^#.*$", "", text, flags=re.M).strip()
    para = text.split("\n\n")[0].replace("\n", " ")
    return para[:260].replace("|", "\\|")


def seeded():
    print("| seed | change (from the seeder's notes) | existing tests | check result | replay on changed / original tree |")
    print("|---|---|---|---|---|")
    for d in sorted(glob.glob(os.path.join(VERIF, "seeded", "*"))):
        mp = os.path.join(d, "meta.json")
        if not os.path.exists(mp):
            continue
        m = json.load(open(mp))
        pid = m["property"]
        c = m.get("checks", {}).get(pid, {})
        if m.get("kind") == "benign":
            continue
        if c.get("violations") and not (c.get("no_failing_input") and "replay" not in c):
            res = "VIOLATION with input: " + c.get("replay", "")[:150].replace("|", "\\|")
        elif c.get("violations"):
            res = "VIOLATION no-failing-input-found (" + "; ".join(
                l.strip()[:90] for l in c.get("lines", []) if "broken" in l)[:200].replace("|", "\\|") + ")"
        else:
            res = "not detected"
        rp = ""
        if "replay_fails_on_change" in c:
            rp = "{} / {}".format("fails" if c["replay_fails_on_change"] else "passes",
                                  "passes" if c["replay_passes_on_original"] else "fails")
        others = [k for k in m.get("checks", {}) if k != pid and m["checks"][k].get("violations")]
        if others:
            res += " (also " + ", ".join(others) + ")"
        print("| {} | {} | {} | {} | {} |".format(os.path.basename(d), first_sentence(os.path.join(d, "notes.md")),
                                                  "47 pass" if m.get("tests_pass") else "?", res, rp))


def benign():
    print("| refactoring | change (from the author's notes) | existing tests | check result |")
    print("|---|---|---|---|")
    for d in sorted(glob.glob(os.path.join(VERIF, "seeded", "*"))):
        mp = os.path.join(d, "meta.json")
        if not os.path.exists(mp):
            continue
        m = json.load(open(mp))
        if m.get("kind") != "benign":
            continue
        c = m.get("checks", {}).get(m["property"], {})
        if not c.get("violations"):
            res = "exit 0, no alarm"
        elif "replay" in c:
            res = "ALARM with input: " + c.get("replay", "")[:150].replace("|", "\\|")
        else:
            res = "tie broken, no-failing-input-found (" + "; ".join(
                l.strip()[:90] for l in c.get("lines", []) if "broken" in l)[:200].replace("|", "\\|") + ")"
        print("| {} | {} | {} | {} |".format(os.path.basename(d), first_sentence(os.path.join(d, "notes.md")),
                                             "47 pass" if m.get("tests_pass") else "?", res))


if __name__ == "__main__":
    {"findings": findings, "seeded": seeded, "benign": benign}[sys.argv[1]]()
