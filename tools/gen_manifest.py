#!/usr/bin/env python3
"""Builds /verif/MANIFEST.json from the property modules under tools/props (each defines MANIFEST = {...})
and tools/not_applicable.json.  Run after adding or changing a property module."""
import ast
import glob
import json
import os

HERE = os.path.dirname(os.path.abspath(__file__))
VERIF = os.path.dirname(HERE)


def module_manifest(path):
    tree = ast.parse(open(path).read())
    for node in tree.body:
        if isinstance(node, ast.Assign) and getattr(node.targets[0], "id", None) == "MANIFEST":
            return ast.literal_eval(node.value)
    return None


checks = []
claimed = set()
for path in sorted(glob.glob(os.path.join(HERE, "props", "c[0-9]*.py"))):
    m = module_manifest(path)
    if not m:
        continue
    pid = os.path.basename(path)[:-3].upper()
    claimed.add(pid)
    checks.append({
        "property_id": pid,
        "quick_cmd": "./check {} --tier quick".format(pid),
        "thorough_cmd": "./check {} --tier thorough".format(pid),
        "evidence_file": "/verif/evidence/{}.json".format(pid),
        "replay_cmd_template": "./check {} --replay {{path}}".format(pid),
        "engine": "rocq-model-and-correspondence",
        "level_claimed": {"category": "proof", "text": m["level_text"], "design_ref": m.get("design_ref", "DESIGN.md section 4 " + pid)},
        "level_note": m["level_note"],
        "technique": m["technique"],
    })

props = [json.loads(l) for l in open(os.path.join(VERIF, "properties.jsonl")) if l.strip()]
na_path = os.path.join(HERE, "not_applicable.json")
na_reasons = json.load(open(na_path)) if os.path.exists(na_path) else {}
not_applicable = []
for p in props:
    if p["id"] not in claimed:
        not_applicable.append({"property_id": p["id"], "reason": na_reasons.get(
            p["id"], "not yet covered by the Rocq development: no model/theorem/correspondence has been built for it "
                     "(work in progress, see DESIGN.md section 4 for the planned statement)")})

manifest = {
    "version": 1,
    "setup_cmd": "cd /verif && ./setup.sh",
    "hooks": {
        "guard": "QEXPY_VERIF",
        "enable": "no source hooks are needed: the harness imports /repo's working tree in-process (PYTHONPATH=/repo, "
                  "QEXPY_VERIF=1 exported by ./check) and monkey-patches numpy/scipy entry points where it must inject or record values",
        "baseline_off_cmd": "cd /repo && /venv/bin/python -m pytest -ra -q -p no:cacheprovider --timeout=900 --continue-on-collection-errors",
        "source_commits": [],
        "add_only": True,
    },
    "engines": [{
        "name": "rocq-model-and-correspondence",
        "path": "/verif/coq + /verif/tools",
        "serves_properties": sorted(claimed),
        "kind_free_text": "Rocq (Coq 8.16.1) development: models regenerated from /repo by a fail-closed Python-ast translator "
                          "(coq/Gen) or written by hand (coq/Model) and tied to /repo by a vm_compute correspondence check; "
                          "property theorems in coq/Props; independent property-level oracle searches for the failing input",
    }],
    "checks": checks,
    "not_applicable": not_applicable,
    "notes": "See DESIGN.md. ./check <id> [--tier quick|thorough] [--replay file]. known_findings.json lists repaired defects (fixed:) "
             "and recorded findings.",
}
with open(os.path.join(VERIF, "MANIFEST.json"), "w") as f:
    json.dump(manifest, f, indent=1)
print("MANIFEST.json: {} checks, {} not_applicable".format(len(checks), len(not_applicable)))
