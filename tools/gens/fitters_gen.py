"""Generators for the fitting code (C06, C07).

  Fitters  -> coq/Gen/Fitters.v   from qexpy/fitting/utils.py: the FITTERS dict of model lambdas
  FitGlue  -> coq/Gen/FitGlue.v   from qexpy/fitting/fitting.py and qexpy/utils/utils.py: the arithmetic glue
                                   around numpy.polyfit / scipy.optimize.curve_fit (weights, x-range mask,
                                   effective variance, chi-squared term and guard, covariance index arithmetic,
                                   cov2corr, numerical_derivative)

Both are fail closed: every syntactic position is matched against the recognised shape, anything else raises
TranslateError.  Expressions go through a small typed intermediate form (IR) from which the Gallina text over R
and over Q is printed; on each run the IR is evaluated by a Python interpreter of the IR and compared with the
Python expression it came from on random points (validation of the front end, not a proof).
"""
import ast
import math
import os
import random
from fractions import Fraction

from translate import TranslateError, strip_doc

UTILS = "qexpy/fitting/utils.py"
FITTING = "qexpy/fitting/fitting.py"
QUTILS = "qexpy/utils/utils.py"
OPS = "qexpy/data/operations.py"

MODEL_KEYS = {"LIN": "lin", "QUAD": "quad", "POLY": "poly", "EXPO": "expo", "GAUSS": "gauss"}
CALLS = {"exp": "exp", "sqrt": "sqrt"}          # op.<name> / np.<name>  ->  Reals function


# ----------------------------------------------------------------------------------------------------------
# IR:  ("var", n) ("int", k) ("frac", Fraction) ("pi",) ("neg", a) ("add"|"sub"|"mul"|"div", a, b)
#      ("powi", a, k) ("call", f, a) ("fold1", a, b, body, seq, reversed)
# ----------------------------------------------------------------------------------------------------------
class ExprTr:
    """arithmetic Python expression -> IR.  [scalars]: names usable as numbers; [modules]: names whose
    attributes exp / sqrt / pi are the real functions / constant; [attrs]: dotted names treated as variables"""

    def __init__(self, file, scalars, modules=("op", "np"), attrs=None, seqs=(), funcs=(), calls=None):
        self.file, self.scalars, self.modules = file, set(scalars), set(modules)
        self.attrs = dict(attrs or {})      # dotted name / unparsed sub-expression -> variable name
        self.seqs = set(seqs)
        self.funcs = set(funcs)             # names applied as unary functions
        self.calls = dict(calls or {})      # unparsed call expression -> variable name

    def err(self, node, msg):
        raise TranslateError(self.file, node, msg)

    def tr(self, n):
        if not isinstance(n, ast.Constant) and ast.unparse(n) in self.calls:
            return ("var", self.calls[ast.unparse(n)])
        if isinstance(n, ast.Constant):
            v = n.value
            if isinstance(v, bool) or not isinstance(v, (int, float)):
                self.err(n, "constant " + repr(v))
            if isinstance(v, int):
                return ("int", v)
            if v != v or v in (float("inf"), float("-inf")):
                self.err(n, "non-finite constant")
            return ("frac", Fraction(v))
        if isinstance(n, ast.Name):
            if n.id in self.scalars:
                return ("var", n.id)
            self.err(n, "unknown name " + n.id)
        if isinstance(n, ast.Attribute):
            dotted = _dotted(n)
            if dotted in self.attrs:
                return ("var", self.attrs[dotted])
            if isinstance(n.value, ast.Name) and n.value.id in self.modules and n.attr == "pi":
                return ("pi",)
            self.err(n, "attribute " + (dotted or "?"))
        if isinstance(n, ast.UnaryOp):
            if isinstance(n.op, ast.USub):
                return ("neg", self.tr(n.operand))
            if isinstance(n.op, ast.UAdd):
                return self.tr(n.operand)
            self.err(n, "unary operator")
        if isinstance(n, ast.BinOp):
            ops = {ast.Add: "add", ast.Sub: "sub", ast.Mult: "mul", ast.Div: "div"}
            if type(n.op) in ops:
                return (ops[type(n.op)], self.tr(n.left), self.tr(n.right))
            if isinstance(n.op, ast.Pow):
                e = n.right
                if isinstance(e, ast.Constant) and isinstance(e.value, int) and not isinstance(e.value, bool) \
                        and 0 <= e.value <= 16:
                    return ("powi", self.tr(n.left), e.value)
                self.err(n, "power with a non-literal or negative exponent")
            self.err(n, "binary operator " + type(n.op).__name__)
        if isinstance(n, ast.Call) and not n.keywords:
            f = n.func
            if isinstance(f, ast.Attribute) and isinstance(f.value, ast.Name) and f.value.id in self.modules \
                    and f.attr in CALLS and len(n.args) == 1:
                return ("call", CALLS[f.attr], self.tr(n.args[0]))
            if isinstance(f, ast.Name) and f.id in self.funcs and len(n.args) == 1:
                return ("app", f.id, self.tr(n.args[0]))
            if _dotted(f) == "functools.reduce" and len(n.args) == 2:
                return self.fold1(n)
            self.err(n, "call " + (_dotted(f) or "?"))
        self.err(n, "expression " + type(n).__name__)

    def fold1(self, n):
        lam, seq = n.args
        if not (isinstance(lam, ast.Lambda) and len(lam.args.args) == 2 and not lam.args.vararg
                and not lam.args.kwarg and not lam.args.kwonlyargs and not lam.args.defaults):
            self.err(n, "reduce: function shape")
        a, b = [x.arg for x in lam.args.args]
        if a == b or a in self.scalars or b in self.scalars:
            self.err(lam, "reduce: parameter names shadow")
        rev = False
        if isinstance(seq, ast.Call) and isinstance(seq.func, ast.Name) and seq.func.id == "reversed" \
                and len(seq.args) == 1 and not seq.keywords:
            rev, seq = True, seq.args[0]
        if not (isinstance(seq, ast.Name) and seq.id in self.seqs):
            self.err(n, "reduce: sequence")
        inner = ExprTr(self.file, self.scalars | {a, b}, self.modules, self.attrs, ())
        return ("fold1", a, b, inner.tr(lam.body), seq.id, rev)


def _dotted(n):
    parts = []
    while isinstance(n, ast.Attribute):
        parts.append(n.attr)
        n = n.value
    if isinstance(n, ast.Name):
        parts.append(n.id)
        return ".".join(reversed(parts))
    return None


def rational(ir):
    t = ir[0]
    if t in ("pi", "call"):
        return False
    return all(rational(x) for x in ir[1:] if isinstance(x, tuple))


def pr(ir, carrier):
    """Gallina text of an IR term over carrier "R" or "Q" (fully parenthesised)"""
    t = ir[0]
    if t == "var":
        return "v_" + ir[1]
    if t == "int":
        return "({})".format(ir[1]) if carrier == "R" else "({} # 1)".format(ir[1])
    if t == "frac":
        fr = ir[1]
        return "({} / {})".format(fr.numerator, fr.denominator) if carrier == "R" \
            else "({} # {})".format(fr.numerator, fr.denominator)
    if t == "pi":
        assert carrier == "R"
        return "PI"
    if t == "neg":
        return "(- {})".format(pr(ir[1], carrier))
    if t in ("add", "sub", "mul", "div"):
        return "({} {} {})".format(pr(ir[1], carrier), {"add": "+", "sub": "-", "mul": "*", "div": "/"}[t],
                                   pr(ir[2], carrier))
    if t == "powi":
        return "({} ^ {})".format(pr(ir[1], carrier), ir[2])
    if t == "call":
        assert carrier == "R"
        return "({} {})".format(ir[1], pr(ir[2], carrier))
    if t == "app":
        return "(v_{} {})".format(ir[1], pr(ir[2], carrier))
    if t == "fold1":
        _, a, b, body, seq, rev = ir
        s = "(rev v_{})".format(seq) if rev else "v_" + seq
        return "(fold_left1 (fun v_{} v_{} => {}) {})".format(a, b, pr(body, carrier), s)
    raise AssertionError(ir)


def ev(ir, env):
    """reference interpreter of the IR (floats)"""
    t = ir[0]
    if t == "var":
        return env[ir[1]]
    if t == "int":
        return ir[1]
    if t == "frac":
        return float(ir[1])
    if t == "pi":
        return math.pi
    if t == "neg":
        return -ev(ir[1], env)
    if t == "add":
        return ev(ir[1], env) + ev(ir[2], env)
    if t == "sub":
        return ev(ir[1], env) - ev(ir[2], env)
    if t == "mul":
        return ev(ir[1], env) * ev(ir[2], env)
    if t == "div":
        return ev(ir[1], env) / ev(ir[2], env)
    if t == "powi":
        return ev(ir[1], env) ** ir[2]
    if t == "call":
        return getattr(math, ir[1])(ev(ir[2], env))
    if t == "app":
        return env[ir[1]](ev(ir[2], env))
    if t == "fold1":
        _, a, b, body, seq, rev = ir
        items = list(env[seq])
        if rev:
            items = items[::-1]
        acc = items[0]
        for y in items[1:]:
            acc = ev(body, dict(env, **{a: acc, b: y}))
        return acc
    raise AssertionError(ir)


class _MathShim:
    exp, sqrt, pi = staticmethod(math.exp), staticmethod(math.sqrt), math.pi


def validate(file, node, ir, pyfunc, nscalars, has_seq, seed):
    """compare the IR interpreter with the Python callable on 64 random points"""
    rng = random.Random(seed)
    for _ in range(64):
        args = [rng.choice([1, -1]) * rng.randrange(1, 64) / 16.0 for _ in range(nscalars)]
        seq = [rng.randrange(-40, 40) / 8.0 for _ in range(rng.randrange(1, 7))] if has_seq else []
        try:
            want = pyfunc(*args, *seq)
        except (ZeroDivisionError, ValueError, OverflowError):
            continue
        got = ir(args, seq)
        if abs(want - got) > 1e-12 * (abs(want) + abs(got)) + 1e-300:
            raise TranslateError(file, node, "translator self-check: IR and Python disagree at {} {}".format(args, seq))


# ----------------------------------------------------------------------------------------------------------
# Gen/Fitters.v
# ----------------------------------------------------------------------------------------------------------
def _parse(repo, rel):
    return ast.parse(open(os.path.join(repo, rel)).read())


def _check_op_module(repo):
    """`op` in fitting/utils.py is qexpy.data.operations and its `pi` is numpy's pi"""
    tree = _parse(repo, UTILS)
    ok = False
    for n in tree.body:
        if isinstance(n, ast.ImportFrom) and n.module == "qexpy.data" and any(
                a.name == "operations" and a.asname == "op" for a in n.names):
            ok = True
        if isinstance(n, ast.Import) and any(a.name == "functools" and a.asname in (None, "functools") for a in n.names):
            pass
    if not ok:
        raise TranslateError(UTILS, tree, "`from qexpy.data import operations as op` not found")
    if not any(isinstance(n, ast.Import) and any(a.name == "functools" and a.asname is None for a in n.names)
               for n in tree.body):
        raise TranslateError(UTILS, tree, "`import functools` not found")
    otree = _parse(repo, OPS)
    for n in otree.body:
        if isinstance(n, ast.Assign) and ast.unparse(n) == "pi, e = (np.pi, np.e)":
            return
    raise TranslateError(OPS, otree, "`pi, e = np.pi, np.e` not found")


def gen_fitters(repo):
    _check_op_module(repo)
    tree = _parse(repo, UTILS)
    fit = None
    for n in tree.body:
        if isinstance(n, ast.Assign) and len(n.targets) == 1 and isinstance(n.targets[0], ast.Name) \
                and n.targets[0].id == "FITTERS":
            if fit is not None:
                raise TranslateError(UTILS, n, "FITTERS assigned twice")
            fit = n
        elif any(isinstance(s, ast.Name) and s.id == "FITTERS" and isinstance(s.ctx, ast.Store) for s in ast.walk(n)):
            raise TranslateError(UTILS, n, "FITTERS modified outside its definition")
    if fit is None or not isinstance(fit.value, ast.Dict):
        raise TranslateError(UTILS, tree, "FITTERS dict literal not found")
    models = {}
    for k, v in zip(fit.value.keys, fit.value.values):
        if not (isinstance(k, ast.Attribute) and isinstance(k.value, ast.Name) and k.value.id == "lit"
                and k.attr in MODEL_KEYS):
            raise TranslateError(UTILS, k or fit, "FITTERS key")
        if MODEL_KEYS[k.attr] in models:
            raise TranslateError(UTILS, k, "duplicate FITTERS key")
        if not isinstance(v, ast.Lambda):
            raise TranslateError(UTILS, v, "FITTERS value is not a lambda")
        a = v.args
        if a.kwarg or a.kwonlyargs or a.defaults or a.kw_defaults or a.posonlyargs:
            raise TranslateError(UTILS, v, "lambda signature")
        scalars = [x.arg for x in a.args]
        seq = a.vararg.arg if a.vararg else None
        if not scalars or len(set(scalars + ([seq] if seq else []))) != len(scalars) + (1 if seq else 0):
            raise TranslateError(UTILS, v, "lambda parameters")
        ir = ExprTr(UTILS, scalars, modules=("op",), seqs=[seq] if seq else []).tr(v.body)
        # front-end validation against the Python lambda itself
        import functools
        pyf = eval(compile(ast.Expression(v), UTILS, "eval"), {"functools": functools, "op": _MathShim, "__builtins__": {"reversed": reversed}})
        validate(UTILS, v, lambda args, s, ir=ir, scalars=scalars, seq=seq: ev(
            ir, dict(zip(scalars, args), **({seq: s} if seq else {}))), pyf, len(scalars), bool(seq), 7)
        models[MODEL_KEYS[k.attr]] = (scalars, seq, ir, v.lineno)
    if set(models) != set(MODEL_KEYS.values()):
        raise TranslateError(UTILS, fit, "FITTERS keys are not exactly LIN QUAD POLY EXPO GAUSS")

    out = ["(* GENERATED by tools/gens/fitters_gen.py from {} (FITTERS) -- do not edit *)".format(UTILS),
           "From Coq Require Import List Reals QArith.", "Import ListNotations.", "",
           "(** functools.reduce(f, seq) without an initial element: a left fold seeded with the first element",
           "    (Python raises TypeError on an empty sequence; the model returns 0 there) *)",
           "Definition fold_left1 {A} (zero : A) (f : A -> A -> A) (l : list A) : A :=",
           "  match l with [] => zero | a :: l' => fold_left f l' a end.", ""]
    for carrier in ("R", "Q"):
        out.append("Module Fit{}.".format(carrier))
        out.append("Local Open Scope {}_scope.".format(carrier))
        out.append("Local Notation fold_left1 := (@fold_left1 {0} 0).".format(carrier))
        for name in ("lin", "quad", "poly", "expo", "gauss"):
            scalars, seq, ir, line = models[name]
            if carrier == "Q" and not rational(ir):
                out.append("(* fit_{}: not rational, R only *)".format(name))
                continue
            binders = " ".join("v_" + s for s in scalars)
            seqb = " (v_{} : list {})".format(seq, carrier) if seq else ""
            out.append("(* line {} *)".format(line))
            out.append("Definition fit_{} ({} : {}){} : {} :=\n  {}.".format(name, binders, carrier, seqb, carrier,
                                                                           pr(ir, carrier)))
        out.append("End Fit{}.".format(carrier))
        out.append("")
    # arities, in the order of the lambda parameters (parameter order of the fit result)
    out.append("(** number of fit parameters of each fixed-arity model (lambda parameters after x) *)")
    for name in ("lin", "quad", "expo", "gauss"):
        out.append("Definition arity_{} : nat := {}.".format(name, len(models[name][0]) - 1))
    return "\n".join(out) + "\n"




# ----------------------------------------------------------------------------------------------------------
# Gen/FitGlue.v
# ----------------------------------------------------------------------------------------------------------

# ----------------------------------------------------------------------------------------------------------
# normalisation of a function body before its shape is matched (semantics-preserving, otherwise untouched):
#   * `a, b = e1, e2`  ->  `a = e1; b = e2`            (when no target occurs in a value)
#   * a local closure `def h(p..): return E` called positionally is replaced by E[p := args]
#     (free names of E are never assigned in the enclosing function)
#   * a local NAME assigned exactly once to a side-effect-free expression whose free names are not assigned
#     afterwards is replaced by that expression (names the recognisers anchor on are kept)
#   * a module-level NAME = (lit.A, ...) / [lit.A, ...] assigned once is replaced by its value; the right-hand
#     side of `in` is printed as a tuple
# Everything the recognisers do not understand after that still fails closed.
# ----------------------------------------------------------------------------------------------------------
import copy

PURE_CALLS = {"utils.numerical_derivative", "np.sqrt", "np.diag", "len"}
# callees that may run between the definition of a local and its uses without changing what the definition denotes
HARMLESS_CALLS = {"utils.numerical_derivative", "any", "all", "len", "zip", "sum", "np.sqrt", "np.diag",
                  "__combine_fit_func_and_fit_params", "opt.curve_fit"}


def _interferes(f, first, last):
    """something between two lines that could change the value of a side-effect-free expression: a call outside the
    white list, a store into an attribute / an item, an augmented assignment, a deletion"""
    for n in ast.walk(f):
        ln = getattr(n, "lineno", None)
        if ln is None or not first < ln <= last:
            continue
        if isinstance(n, ast.Call) and ast.unparse(n.func) not in HARMLESS_CALLS:
            return True
        if isinstance(n, (ast.Attribute, ast.Subscript)) and isinstance(n.ctx, (ast.Store, ast.Del)):
            return True
        if isinstance(n, (ast.AugAssign, ast.Delete)):
            return True
    return False


def _pure(n):
    if isinstance(n, (ast.Name, ast.Constant)):
        return True
    if isinstance(n, ast.Attribute):
        return _pure(n.value)
    if isinstance(n, ast.Subscript):
        return _pure(n.value) and _pure(n.slice)
    if isinstance(n, ast.Slice):
        return all(x is None or _pure(x) for x in (n.lower, n.upper, n.step))
    if isinstance(n, (ast.BinOp,)):
        return _pure(n.left) and _pure(n.right)
    if isinstance(n, ast.UnaryOp):
        return _pure(n.operand)
    if isinstance(n, ast.BoolOp):
        return all(_pure(v) for v in n.values)
    if isinstance(n, ast.Compare):
        return _pure(n.left) and all(_pure(c) for c in n.comparators)
    if isinstance(n, (ast.Tuple, ast.List)):
        return all(_pure(e) for e in n.elts)
    if isinstance(n, ast.IfExp):
        return _pure(n.test) and _pure(n.body) and _pure(n.orelse)
    if isinstance(n, ast.Call):
        return ast.unparse(n.func) in PURE_CALLS and not n.keywords and all(_pure(a) for a in n.args)
    return False


def _stores(node):
    """(name, lineno) of every binding inside node"""
    out = []
    for n in ast.walk(node):
        if isinstance(n, ast.Name) and isinstance(n.ctx, (ast.Store, ast.Del)):
            out.append((n.id, n.lineno))
        elif isinstance(n, (ast.FunctionDef, ast.ClassDef)) and n is not node:
            out.append((n.name, n.lineno))
        elif isinstance(n, ast.arg) :
            pass
    return out


def _free_names(expr):
    return {n.id for n in ast.walk(expr) if isinstance(n, ast.Name) and isinstance(n.ctx, ast.Load)}


class _Subst(ast.NodeTransformer):
    def __init__(self, mapping, after=0):
        self.mapping, self.after = mapping, after

    def visit_Name(self, node):
        if isinstance(node.ctx, ast.Load) and node.id in self.mapping and getattr(node, "lineno", 10 ** 9) > self.after:
            return ast.copy_location(copy.deepcopy(self.mapping[node.id]), node)
        return node


def _blocks(stmts):
    """every statement list reachable from [stmts] (not into nested function definitions)"""
    yield stmts
    for st in stmts:
        for field in ("body", "orelse", "finalbody"):
            sub = getattr(st, field, None)
            if isinstance(sub, list) and sub and not isinstance(st, (ast.FunctionDef, ast.ClassDef, ast.Lambda)):
                yield from _blocks(sub)
        for h in getattr(st, "handlers", []) or []:
            yield from _blocks(h.body)


def module_constants(tree):
    consts, counts = {}, {}
    for n in ast.walk(tree):
        if isinstance(n, ast.Name) and isinstance(n.ctx, ast.Store):
            counts[n.id] = counts.get(n.id, 0) + 1
    for n in tree.body:
        if isinstance(n, ast.Assign) and len(n.targets) == 1 and isinstance(n.targets[0], ast.Name) \
                and isinstance(n.value, (ast.Tuple, ast.List)) and counts.get(n.targets[0].id) == 1 \
                and all(isinstance(e, ast.Attribute) and isinstance(e.value, ast.Name) and e.value.id == "lit" for e in n.value.elts):
            consts[n.targets[0].id] = n.value
    return consts



def _renumber(f):
    """fresh, strictly increasing line numbers in execution order (after statements were spliced in)"""
    counter = [0]

    def stamp(node, ln):
        for n in ast.walk(node):
            if isinstance(n, ast.stmt) and n is not node:
                continue
            if hasattr(n, "lineno") or isinstance(n, (ast.expr, ast.stmt)):
                n.lineno = n.end_lineno = ln
                n.col_offset = n.end_col_offset = 0

    def visit_block(stmts):
        for st in stmts:
            counter[0] += 1
            ln = counter[0]
            # the statement's own expressions (not its nested statements)
            for field, value in ast.iter_fields(st):
                if field in ("body", "orelse", "finalbody", "handlers"):
                    continue
                for v in (value if isinstance(value, list) else [value]):
                    if isinstance(v, ast.AST):
                        for n in ast.walk(v):
                            n.lineno = n.end_lineno = ln
                            n.col_offset = n.end_col_offset = 0
            st.lineno = st.end_lineno = ln
            st.col_offset = st.end_col_offset = 0
            if isinstance(st, (ast.FunctionDef, ast.ClassDef)):
                for n in ast.walk(st):
                    n.lineno = n.end_lineno = ln
                continue
            for field in ("body", "orelse", "finalbody"):
                sub = getattr(st, field, None)
                if isinstance(sub, list):
                    visit_block(sub)
            for h in getattr(st, "handlers", []) or []:
                counter[0] += 1
                for n in ast.walk(h):
                    if not isinstance(n, ast.stmt):
                        n.lineno = n.end_lineno = counter[0]
                h.lineno = h.end_lineno = counter[0]
                visit_block(h.body)
    visit_block(f.body)
    return f


def _splice_helpers(f, module):
    """`T = helper(a, b, ..)` with a private module-level straight-line helper is replaced by the helper's statements
    (parameters renamed to the argument names) followed by `T = <returned expression>`.  Only when that cannot change
    the meaning: arguments are plain distinct names; the helper consists of single-name assignments and a final return;
    its locals do not occur in the caller; an argument whose parameter the helper rebinds is not read afterwards in
    the caller; the names the helper reads from the module are not bound in the caller; no loops around the call."""
    if module is None:
        return f, False
    defs = {}
    for n in module.body:
        if isinstance(n, ast.FunctionDef):
            defs.setdefault(n.name, []).append(n)
    did = False
    loops = [n for n in ast.walk(f) if isinstance(n, (ast.For, ast.While))]
    for block in list(_blocks(f.body)):
        i = 0
        while i < len(block):
            st = block[i]
            i += 1
            if not (isinstance(st, ast.Assign) and len(st.targets) == 1 and isinstance(st.targets[0], ast.Name)
                    and isinstance(st.value, ast.Call) and isinstance(st.value.func, ast.Name)
                    and st.value.func.id in defs and len(defs[st.value.func.id]) == 1 and not st.value.keywords
                    and all(isinstance(a, ast.Name) for a in st.value.args)):
                continue
            h = defs[st.value.func.id][0]
            if h is f or h.name == f.name or h.decorator_list or any(any(st is x for x in ast.walk(lp)) for lp in loops):
                continue
            a = h.args
            if a.vararg or a.kwarg or a.kwonlyargs or a.defaults or a.posonlyargs or len(a.args) != len(st.value.args):
                continue
            pnames = [x.arg for x in a.args]
            anames = [x.id for x in st.value.args]
            if len(set(anames)) != len(anames):
                continue
            hbody = strip_doc(h.body)
            if not hbody or not isinstance(hbody[-1], ast.Return) or hbody[-1].value is None or not all(
                    isinstance(x, ast.Assign) and len(x.targets) == 1 and isinstance(x.targets[0], ast.Name) for x in hbody[:-1]):
                continue
            if any(isinstance(n, (ast.Lambda, ast.GeneratorExp, ast.ListComp, ast.SetComp, ast.DictComp, ast.NamedExpr))
                   for x in hbody for n in ast.walk(x)):
                continue
            assigned = [x.targets[0].id for x in hbody[:-1]]
            hlocals = set(assigned) - set(pnames)
            caller_names = {n.id for n in ast.walk(f) if isinstance(n, ast.Name)} | {x.arg for x in f.args.args}
            if hlocals & caller_names:
                continue
            hreads = {n.id for x in hbody for n in ast.walk(x) if isinstance(n, ast.Name) and isinstance(n.ctx, ast.Load)}
            module_reads = hreads - set(pnames) - hlocals
            caller_stores = {n for n, _ in _stores(f)} | {x.arg for x in f.args.args}
            if module_reads & caller_stores:
                continue
            end = getattr(st, "end_lineno", st.lineno)
            rebound = [anames[pnames.index(p)] for p in set(assigned) & set(pnames)]
            if any(isinstance(n, ast.Name) and isinstance(n.ctx, ast.Load) and n.id in rebound and n.lineno > end for n in ast.walk(f)):
                continue
            if st.targets[0].id in anames and st.targets[0].id not in rebound and False:
                continue

            class Ren(ast.NodeTransformer):
                def visit_Name(self, node):
                    if node.id in pnames:
                        return ast.copy_location(ast.Name(id=anames[pnames.index(node.id)], ctx=node.ctx), node)
                    return node
            new = [Ren().visit(copy.deepcopy(x)) for x in hbody[:-1]]
            new.append(ast.Assign(targets=[copy.deepcopy(st.targets[0])], value=Ren().visit(copy.deepcopy(hbody[-1].value))))
            block[i - 1:i] = new
            i += len(new) - 1
            did = True
    if did:
        ast.fix_missing_locations(f)
        _renumber(f)
    return f, did


def normalize_function(fdef, consts=None, keep=(), module=None):
    f = copy.deepcopy(fdef)
    f.body = strip_doc(f.body)
    f, _ = _splice_helpers(f, module)
    params = {a.arg for a in f.args.args + f.args.kwonlyargs + f.args.posonlyargs}
    if f.args.vararg:
        params.add(f.args.vararg.arg)
    if f.args.kwarg:
        params.add(f.args.kwarg.arg)
    # module constants (not shadowed locally)
    if consts:
        local = {name for name, _ in _stores(f)} | params
        f = _Subst({k: v for k, v in consts.items() if k not in local}).visit(f)
    # tuple assignments
    for block in list(_blocks(f.body)):
        i = 0
        while i < len(block):
            st = block[i]
            if isinstance(st, ast.Assign) and len(st.targets) == 1 and isinstance(st.targets[0], ast.Tuple) \
                    and isinstance(st.value, ast.Tuple) and len(st.value.elts) == len(st.targets[0].elts) \
                    and all(isinstance(t, ast.Name) for t in st.targets[0].elts):
                names = {t.id for t in st.targets[0].elts}
                if not any(names & _free_names(v) for v in st.value.elts):
                    new = [ast.copy_location(ast.Assign(targets=[t], value=v), st)
                           for t, v in zip(st.targets[0].elts, st.value.elts)]
                    block[i:i + 1] = new
                    i += len(new)
                    continue
            i += 1
    ast.fix_missing_locations(f)
    # local closures
    changed = True
    while changed:
        changed = False
        stores = _stores(f)
        for block in _blocks(f.body):
            for st in block:
                if not isinstance(st, ast.FunctionDef):
                    continue
                a = st.args
                inner = strip_doc(st.body)
                if a.vararg or a.kwarg or a.kwonlyargs or a.defaults or a.posonlyargs or st.decorator_list \
                        or len(inner) != 1 or not isinstance(inner[0], ast.Return) or inner[0].value is None:
                    continue
                pnames = [x.arg for x in a.args]
                expr = inner[0].value
                free = _free_names(expr) - set(pnames)
                if sum(1 for n, _ in stores if n == st.name) != 1:
                    continue
                uses = [n for n in ast.walk(f) if isinstance(n, ast.Name) and n.id == st.name and isinstance(n.ctx, ast.Load)]
                calls = [n for n in ast.walk(f) if isinstance(n, ast.Call) and isinstance(n.func, ast.Name)
                         and n.func.id == st.name and not n.keywords and len(n.args) == len(pnames)
                         and all(_pure(x) for x in n.args)]
                if len(uses) != len(calls) or not calls:
                    continue
                # a free name of the closure is never bound in the enclosing function, or bound exactly once and that
                # before every call (outside loops)
                first_call = min(c.lineno for c in calls)
                bad = False
                for name in free:
                    lines = [ln for n, ln in stores if n == name]
                    if lines and (len(lines) > 1 or lines[0] >= first_call or name in params
                                  or any(isinstance(lp, (ast.For, ast.While)) for lp in ast.walk(f))):
                        bad = True
                if bad:
                    continue

                class Inline(ast.NodeTransformer):
                    def visit_Call(self, node):
                        self.generic_visit(node)
                        if isinstance(node.func, ast.Name) and node.func.id == st.name:
                            e = _Subst(dict(zip(pnames, node.args))).visit(copy.deepcopy(expr))
                            for sub in ast.walk(e):
                                ast.copy_location(sub, node)
                            return e
                        return node
                block.remove(st)
                f = Inline().visit(f)
                ast.fix_missing_locations(f)
                changed = True
                break
            if changed:
                break
    # single-assignment side-effect-free locals
    loops = [n for n in ast.walk(f) if isinstance(n, (ast.For, ast.While))]
    changed = True
    while changed:
        changed = False
        stores = _stores(f)
        for block in _blocks(f.body):
            for st in block:
                if not (isinstance(st, ast.Assign) and len(st.targets) == 1 and isinstance(st.targets[0], ast.Name)):
                    continue
                name = st.targets[0].id
                if name in keep or name in params or not _pure(st.value) or isinstance(st.value, (ast.Constant,)) \
                        or sum(1 for n, _ in stores if n == name) != 1:
                    continue
                inside = [lp for lp in loops if any(st is x for x in ast.walk(lp))]
                free = _free_names(st.value)
                if name in free or any(n in free and ln > st.lineno for n, ln in stores):
                    continue
                uses = [n for n in ast.walk(f) if isinstance(n, ast.Name) and n.id == name and isinstance(n.ctx, ast.Load)]
                if not uses or any(u.lineno <= st.lineno for u in uses):
                    continue
                # a definition inside a loop body may only be used in the same iteration of the same loops
                if inside and any([lp for lp in loops if any(u is x for x in ast.walk(lp))] != inside for u in uses):
                    continue
                if inside and any(u.lineno <= st.lineno for u in uses):
                    continue
                end = getattr(st, "end_lineno", st.lineno)
                if _interferes(f, end, max(u.lineno for u in uses) - 1):
                    continue
                block.remove(st)
                f = _Subst({name: st.value}, after=end).visit(f)
                changed = True
                break
            if changed:
                break
    return f


def canon(node):
    """text of a node with the right-hand side of `in` printed as a tuple"""
    n = copy.deepcopy(node)
    for c in ast.walk(n):
        if isinstance(c, ast.Compare) and len(c.ops) == 1 and isinstance(c.ops[0], (ast.In, ast.NotIn)) \
                and isinstance(c.comparators[0], ast.List):
            c.comparators[0] = ast.Tuple(elts=c.comparators[0].elts, ctx=ast.Load())
    return ast.unparse(n)


CMPQ = {ast.Lt: "(negb (Qle_bool {1} {0}))", ast.LtE: "(Qle_bool {0} {1})", ast.Gt: "(negb (Qle_bool {0} {1}))",
        ast.GtE: "(Qle_bool {1} {0})", ast.Eq: "(Qeq_bool {0} {1})", ast.NotEq: "(negb (Qeq_bool {0} {1}))"}
CMPPY = {ast.Lt: lambda a, b: a < b, ast.LtE: lambda a, b: a <= b, ast.Gt: lambda a, b: a > b,
         ast.GtE: lambda a, b: a >= b, ast.Eq: lambda a, b: a == b, ast.NotEq: lambda a, b: a != b}


def bool_q(file, n, etr):
    """boolean combination of comparisons of arithmetic expressions -> Gallina bool over Q"""
    if isinstance(n, ast.BinOp) and isinstance(n.op, ast.BitAnd):
        return "(andb {} {})".format(bool_q(file, n.left, etr), bool_q(file, n.right, etr))
    if isinstance(n, ast.BoolOp) and isinstance(n.op, ast.And):
        out = bool_q(file, n.values[-1], etr)
        for v in reversed(n.values[:-1]):
            out = "(andb {} {})".format(bool_q(file, v, etr), out)
        return out
    if isinstance(n, ast.Compare) and len(n.ops) == 1 and type(n.ops[0]) in CMPQ:
        return CMPQ[type(n.ops[0])].format(pr(etr.tr(n.left), "Q"), pr(etr.tr(n.comparators[0]), "Q"))
    raise TranslateError(file, n, "boolean expression " + ast.unparse(n)[:60])


def nat_expr(file, n, names):
    """index arithmetic over naturals: names, literals, +"""
    if isinstance(n, ast.Name) and n.id in names:
        return "v_" + n.id
    if isinstance(n, ast.Constant) and isinstance(n.value, int) and not isinstance(n.value, bool) and n.value >= 0:
        return "{}%nat".format(n.value)
    if isinstance(n, ast.BinOp) and isinstance(n.op, ast.Add):
        return "({} + {})%nat".format(nat_expr(file, n.left, names), nat_expr(file, n.right, names))
    raise TranslateError(file, n, "index expression " + ast.unparse(n)[:60])


def _func(tree, name, file, cls=None, keep=()):
    """the (normalised, see normalize_function) definition of a function / method"""
    return normalize_function(_func_raw(tree, name, file, cls), module_constants(tree), keep, module=tree)


def _func_raw(tree, name, file, cls=None):
    body = tree.body
    if cls:
        for n in body:
            if isinstance(n, ast.ClassDef) and n.name == cls:
                body = n.body
                break
        else:
            raise TranslateError(file, tree, "class {} not found".format(cls))
    found = [n for n in body if isinstance(n, ast.FunctionDef) and n.name == name]
    if len(found) != 1:
        raise TranslateError(file, tree, "function {} not found exactly once".format(name))
    return found[0]


def _expect(file, node, text, what):
    if ast.unparse(node) != text:
        raise TranslateError(file, node, "{}: expected `{}`".format(what, text))


def gen_fitglue(repo):
    ft = _parse(repo, FITTING)
    ut = _parse(repo, QUTILS)
    defsR, defsQ, notes = [], [], []

    def both(name, binders, ir, comment):
        defsR.append("(* {} *)\nDefinition {} ({} : R) : R :=\n  {}.".format(comment, name, binders, pr(ir, "R")))
        if rational(ir):
            defsQ.append("(* {} *)\nDefinition {} ({} : Q) : Q :=\n  {}.".format(comment, name, binders, pr(ir, "Q")))

    # 1 -- __polynomial_fit -------------------------------------------------------------------
    f = _func(ft, "__polynomial_fit", FITTING, keep=("weights",))
    body = strip_doc(f.body)
    if [a.arg for a in f.args.args] != ["xdata", "ydata", "degrees", "yerr"] or len(body) != 3:
        raise TranslateError(FITTING, f, "__polynomial_fit: signature / number of statements")
    st = body[0]
    wexpr = None
    if isinstance(st, ast.Assign) and ast.unparse(st.targets[0]) == "weights" and isinstance(st.value, ast.IfExp):
        t, b, o = ast.unparse(st.value.test), st.value.body, st.value.orelse
        if t == "yerr is not None" and ast.unparse(o) == "None":
            wexpr = b
        elif t == "yerr is None" and ast.unparse(b) == "None":
            wexpr = o
    if wexpr is None:
        raise TranslateError(FITTING, st, "__polynomial_fit: weights = E if yerr is not None else None")
    both("polyfit_weight", "v_yerr", ExprTr(FITTING, ["yerr"]).tr(wexpr),
         "{}:{} weights handed to numpy.polyfit".format(FITTING, st.lineno))
    call = body[1]
    if not (isinstance(call, ast.Assign) and isinstance(call.targets[0], ast.Tuple) and len(call.targets[0].elts) == 2
            and all(isinstance(t, ast.Name) for t in call.targets[0].elts) and isinstance(call.value, ast.Call)
            and ast.unparse(call.value.func) == "np.polyfit"
            and [ast.unparse(a) for a in call.value.args] == ["xdata.values", "ydata.values", "degrees"]
            and {k.arg: ast.unparse(k.value) for k in call.value.keywords} == {"cov": "True", "w": "weights"}):
        raise TranslateError(FITTING, call, "__polynomial_fit: P, C = np.polyfit(xdata.values, ydata.values, degrees, cov=True, w=weights)")
    pn, cn = (t.id for t in call.targets[0].elts)
    if pn == cn or [n for n, _ in _stores(f)].count(pn) != 1 or [n for n, _ in _stores(f)].count(cn) != 1:
        raise TranslateError(FITTING, call, "__polynomial_fit: results of polyfit rebound")
    # (a local bound once to np.sqrt(np.diag(C)) has been substituted by the normalisation)
    _expect(FITTING, body[2], "return RawFitResults({0}, np.sqrt(np.diag({1})), {1})".format(pn, cn), "__polynomial_fit")

    # 2 -- fit_to_xy_dataset: mask, yerr selection, dispatch -----------------------------------
    f = _func(ft, "fit_to_xy_dataset", FITTING, keep=("x_to_fit", "y_to_fit", "yerr", "xrange", "pcorr", "params", "result_func"))
    body = strip_doc(f.body)
    ifs = [n for n in body if isinstance(n, ast.If) and ast.unparse(n.test) == "xrange and utils.validate_xrange(xrange)"]
    if len(ifs) != 1:
        raise TranslateError(FITTING, f, "fit_to_xy_dataset: `if xrange and utils.validate_xrange(xrange):` not found once")
    sel = ifs[0]
    if len(sel.body) != 2 or len(sel.orelse) not in (0, 2):
        raise TranslateError(FITTING, sel, "fit_to_xy_dataset: selection block shape")
    masks = []
    for st, tgt, src in zip(sel.body, ("x_to_fit", "y_to_fit"), ("dataset.xdata", "dataset.ydata")):
        if not (isinstance(st, ast.Assign) and ast.unparse(st.targets[0]) == tgt and isinstance(st.value, ast.Subscript)
                and ast.unparse(st.value.value) == src):
            raise TranslateError(FITTING, st, "fit_to_xy_dataset: {} = {}[mask]".format(tgt, src))
        masks.append(st.value.slice)
    if ast.unparse(masks[0]) != ast.unparse(masks[1]):
        raise TranslateError(FITTING, sel, "fit_to_xy_dataset: x and y are selected with different masks")
    stores = [n for n, _ in _stores(f)]
    if stores.count("x_to_fit") != 2 or stores.count("y_to_fit") != 2:
        raise TranslateError(FITTING, sel, "fit_to_xy_dataset: x_to_fit / y_to_fit assigned elsewhere")
    if sel.orelse:
        # whole data set in the else branch ...
        _expect(FITTING, sel.orelse[0], "x_to_fit = dataset.xdata", "fit_to_xy_dataset")
        _expect(FITTING, sel.orelse[1], "y_to_fit = dataset.ydata", "fit_to_xy_dataset")
    else:
        # ... or assigned (at the top level of the function) before the conditional selection
        before = [ast.unparse(n) for n in body[:body.index(sel)]]
        if before.count("x_to_fit = dataset.xdata") != 1 or before.count("y_to_fit = dataset.ydata") != 1:
            raise TranslateError(FITTING, sel, "fit_to_xy_dataset: whole data set not assigned before the selection")
    etr = ExprTr(FITTING, [], calls={"xrange[0]": "lo", "xrange[1]": "hi", "dataset.xdata": "x"})
    defsQ.append("(* {}:{} boolean mask of the x-range selection *)\nDefinition in_range (v_lo v_hi v_x : Q) : bool :=\n  {}."
                 .format(FITTING, sel.lineno, bool_q(FITTING, masks[0], etr)))
    texts = [ast.unparse(n) for n in body]
    disp = [n for n in body if isinstance(n, ast.If) and canon(n.test) == "fit_model.name in (lit.POLY, lit.LIN, lit.QUAD)"]
    if len(disp) != 1 or len(disp[0].body) != 1 or len(disp[0].orelse) != 1 or not isinstance(disp[0].body[0], ast.Assign) \
            or not isinstance(disp[0].body[0].targets[0], ast.Name):
        raise TranslateError(FITTING, f, "fit_to_xy_dataset: polynomial / curve_fit dispatch")
    raw = disp[0].body[0].targets[0].id           # the local that holds the raw results (any name, assigned only here)
    if [n for n, _ in _stores(f)].count(raw) != 2:
        raise TranslateError(FITTING, disp[0], "fit_to_xy_dataset: raw results assigned elsewhere")
    _expect(FITTING, disp[0].body[0],
            raw + " = __polynomial_fit(x_to_fit, y_to_fit, fit_model.param_constraints.length - 1, yerr)", "dispatch")
    _expect(FITTING, disp[0].orelse[0],
            raw + " = __curve_fit(fit_model.func, x_to_fit, y_to_fit, param_info.parguess, yerr)", "dispatch")
    for want in ("xrange = kwargs.get('xrange', None)",
                 "yerr = y_to_fit.errors if any((err > 0 for err in y_to_fit.errors)) else None",
                 "pcorr = utils.cov2corr({}.pcov)".format(raw), "__correlate_fit_params(params, {}.pcov)".format(raw),
                 "result_func = __combine_fit_func_and_fit_params(fit_model.func, params)"):
        if texts.count(want) != 1:
            raise TranslateError(FITTING, f, "fit_to_xy_dataset: statement `{}` not found once".format(want))

    # 3 -- __curve_fit: effective variance -----------------------------------------------------
    f = _func(ft, "__curve_fit", FITTING, keep=("yerr", "adjusted_yerr", "func", "popt", "pcov", "perr"))
    body = strip_doc(f.body)
    if [a.arg for a in f.args.args] != ["fit_func", "xdata", "ydata", "parguess", "yerr"]:
        raise TranslateError(FITTING, f, "__curve_fit: signature")
    tries = [n for n in body if isinstance(n, ast.Try)]
    if len(tries) != 1 or len(tries[0].body) != 2:
        raise TranslateError(FITTING, f, "__curve_fit: try block shape")
    first, second = tries[0].body

    def check_call(st, sigma):
        ok = isinstance(st, ast.Assign) and ast.unparse(st.targets[0]) == "(popt, pcov)" and isinstance(st.value, ast.Call) \
            and ast.unparse(st.value.func) == "opt.curve_fit" \
            and [ast.unparse(a) for a in st.value.args] == ["fit_func", "xdata.values", "ydata.values"] \
            and {k.arg: ast.unparse(k.value) for k in st.value.keywords} == {
                "p0": "parguess", "sigma": sigma, "absolute_sigma": "True"}
        if not ok:
            raise TranslateError(FITTING, st, "__curve_fit: curve_fit call with sigma={}".format(sigma))

    check_call(first, "yerr")
    if not (isinstance(second, ast.If) and ast.unparse(second.test) == "any((err > 0 for err in xdata.errors))"
            and len(second.body) == 4 and not second.orelse):
        raise TranslateError(FITTING, second, "__curve_fit: second pass block")
    st0 = second.body[0]
    if not (isinstance(st0, ast.Assign) and len(st0.targets) == 1 and isinstance(st0.targets[0], ast.Name)
            and ast.unparse(st0.value) == "__combine_fit_func_and_fit_params(fit_func, popt)"
            and [n for n, _ in _stores(f)].count(st0.targets[0].id) == 1):
        raise TranslateError(FITTING, st0, "__curve_fit: F = __combine_fit_func_and_fit_params(fit_func, popt)")
    fname = st0.targets[0].id            # the first-pass curve (any name, bound once)
    _expect(FITTING, second.body[1], "yerr = 0 if yerr is None else yerr", "__curve_fit")
    st = second.body[2]
    if not (isinstance(st, ast.Assign) and ast.unparse(st.targets[0]) == "adjusted_yerr" and isinstance(st.value, ast.Call)
            and ast.unparse(st.value.func) == "np.sqrt" and len(st.value.args) == 1 and not st.value.keywords):
        raise TranslateError(FITTING, st, "__curve_fit: adjusted_yerr = np.sqrt(E)")
    slope_calls = [n for n in ast.walk(st.value) if isinstance(n, ast.Call)
                   and ast.unparse(n.func) == "utils.numerical_derivative"]
    if len(slope_calls) != 1 or len(slope_calls[0].args) != 2 or slope_calls[0].keywords \
            or ast.unparse(slope_calls[0].args[0]) != fname:
        raise TranslateError(FITTING, st, "__curve_fit: numerical_derivative(<first-pass curve>, <points>) expected once")
    where = ast.unparse(slope_calls[0].args[1])
    if where not in ("xdata.values", "xdata.errors"):
        raise TranslateError(FITTING, st, "__curve_fit: slope evaluated at " + where)
    etr = ExprTr(FITTING, ["yerr"], calls={"xdata.errors": "xerr", ast.unparse(slope_calls[0]): "slope"})
    both("eff_variance", "v_yerr v_xerr v_slope", etr.tr(st.value.args[0]),
         "{}:{} argument of np.sqrt in adjusted_yerr".format(FITTING, st.lineno))
    check_call(second.body[3], "adjusted_yerr")
    rets = [ast.unparse(n) for n in body if not isinstance(n, ast.Try)]
    if rets != ["perr = np.sqrt(np.diag(pcov))", "return RawFitResults(popt, perr, pcov)"]:
        raise TranslateError(FITTING, f, "__curve_fit: tail")

    # 4 -- XYFitResult.__init__: residuals and chi-squared --------------------------------------
    f = _func(ft, "__init__", FITTING, cls="XYFitResult", keep=("chi2",))
    stmts = strip_doc(f.body)
    fitted = [n for n in stmts if isinstance(n, ast.Assign) and isinstance(n.targets[0], ast.Name)
              and ast.unparse(n.value) == "result_func(self._dataset.xdata)"]
    if len(fitted) != 1 or [n for n, _ in _stores(f)].count(fitted[0].targets[0].id) != 1:
        raise TranslateError(FITTING, f, "XYFitResult.__init__: NAME = result_func(self._dataset.xdata) not found once")
    yfit = fitted[0].targets[0].id
    resid = "self._dataset.ydata - " + yfit        # the residual array (a local bound once to it has been substituted)
    texts = {ast.unparse(n): n for n in stmts}
    want = "self._result = FitResults(result_func, result_params, {}, chi2, pcorr)".format(resid)
    if want not in texts:
        raise TranslateError(FITTING, f, "XYFitResult.__init__: statement `{}` not found".format(want))
    chi = [n for n in stmts if isinstance(n, ast.Assign) and ast.unparse(n.targets[0]) == "chi2"]
    if len(chi) != 1:
        raise TranslateError(FITTING, f, "XYFitResult.__init__: chi2 assignment")
    c = chi[0].value
    if not (isinstance(c, ast.Call) and ast.unparse(c.func) == "sum" and len(c.args) == 1 and not c.keywords
            and isinstance(c.args[0], ast.GeneratorExp) and len(c.args[0].generators) == 1):
        raise TranslateError(FITTING, chi[0], "chi2 = sum(generator)")
    g = c.args[0].generators[0]
    if not (isinstance(g.target, ast.Tuple) and len(g.target.elts) == 2 and all(isinstance(t, ast.Name) for t in g.target.elts)
            and g.target.elts[0].id != g.target.elts[1].id
            and ast.unparse(g.iter) == "zip({}, self._dataset.yerr)".format(resid) and len(g.ifs) == 1 and not g.is_async):
        raise TranslateError(FITTING, chi[0], "chi2 generator: for R, E in zip(<residuals>, self._dataset.yerr) if G")
    rname, ename = g.target.elts[0].id, g.target.elts[1].id

    class _Rename(ast.NodeTransformer):
        def visit_Name(self, node):
            if node.id == rname:
                return ast.copy_location(ast.Name(id="res", ctx=node.ctx), node)
            if node.id == ename:
                return ast.copy_location(ast.Name(id="err", ctx=node.ctx), node)
            if node.id in ("res", "err"):
                raise TranslateError(FITTING, node, "chi2 generator: name clash")
            return node
    c = _Rename().visit(copy.deepcopy(c))
    g = c.args[0].generators[0]
    etr = ExprTr(FITTING, ["err"], calls={"res.value": "res"})
    both("chi2_term", "v_res v_err", etr.tr(c.args[0].elt), "{}:{} term of chi-squared".format(FITTING, chi[0].lineno))
    defsQ.append("(* {}:{} which points enter chi-squared *)\nDefinition chi2_guard (v_err : Q) : bool :=\n  {}.".format(
        FITTING, chi[0].lineno, bool_q(FITTING, g.ifs[0], ExprTr(FITTING, ["err"]))))

    # 5 -- __correlate_fit_params ---------------------------------------------------------------
    f = _func(ft, "__correlate_fit_params", FITTING)
    body = strip_doc(f.body)
    argn = [a.arg for a in f.args.args]
    if len(argn) != 2 or argn[0] != "params" or len(body) != 1 or not isinstance(body[0], ast.For):  # (after normalisation)
        raise TranslateError(FITTING, f, "__correlate_fit_params: shape")
    mat = argn[1]
    o = body[0]
    pair_loop = isinstance(o.iter, ast.GeneratorExp)
    if pair_loop:
        # for R, C in ((i, j) for i in range(len(params)) for j in range(i + 1, len(params))): the pairs i < j, row by row
        ge = o.iter
        ok = isinstance(o.target, ast.Tuple) and len(o.target.elts) == 2 and all(isinstance(t, ast.Name) for t in o.target.elts) \
            and not o.orelse and len(ge.generators) == 2 and all(not g.ifs and not g.is_async for g in ge.generators) \
            and all(isinstance(g.target, ast.Name) for g in ge.generators)
        if ok:
            gi, gj = ge.generators[0].target.id, ge.generators[1].target.id
            ok = gi != gj and ast.unparse(ge.elt) == "({}, {})".format(gi, gj) \
                and ast.unparse(ge.generators[0].iter) == "range(len(params))" \
                and ast.unparse(ge.generators[1].iter) == "range({} + 1, len(params))".format(gi)
        if not ok:
            raise TranslateError(FITTING, o, "__correlate_fit_params: loop over the index pairs")
        rn, cn = o.target.elts[0].id, o.target.elts[1].id
        p1, p2 = "params[{}]".format(rn), "params[{}]".format(cn)
        names = (rn, cn)
        subst = {"v_" + rn: "v_index1", "v_" + cn: "(v_index2 + (v_index1 + 1%nat)%nat)%nat"}
        i = o
    else:
        if ast.unparse(o.target) != "(index1, param1)" or ast.unparse(o.iter) != "enumerate(params)" or len(o.body) != 1 \
                or not isinstance(o.body[0], ast.For) or o.orelse:
            raise TranslateError(FITTING, o, "__correlate_fit_params: outer loop")
        i = o.body[0]
        it = ast.unparse(i.iter)
        if ast.unparse(i.target) != "(index2, param2)" or i.orelse \
                or it not in ("enumerate(params[index1 + 1:])", "enumerate(params[index1 + 1:], index1 + 1)"):
            raise TranslateError(FITTING, i, "__correlate_fit_params: inner loop")
        # value of the loop variable index2 in terms of the position k = 0, 1, .. in params[index1 + 1:]
        idx2 = "v_index2" if it == "enumerate(params[index1 + 1:])" else "(v_index2 + (v_index1 + 1%nat)%nat)%nat"
        p1, p2 = "param1", "param2"
        names = ("index1", "index2")
        subst = {"v_index2": idx2}
    if len(i.body) == 2:
        _expect(FITTING, i.body[0], "if {0}.error == 0 or {1}.error == 0:\n    continue".format(p1, p2), "__correlate_fit_params")
        call = i.body[1]
    elif len(i.body) == 1 and isinstance(i.body[0], ast.If) and not i.body[0].orelse and len(i.body[0].body) == 1 \
            and ast.unparse(i.body[0].test) == "{0}.error != 0 and {1}.error != 0".format(p1, p2):
        call = i.body[0].body[0]
    else:
        raise TranslateError(FITTING, i, "__correlate_fit_params: guard on zero uncertainties")
    if not (isinstance(call, ast.Expr) and isinstance(call.value, ast.Call)
            and ast.unparse(call.value.func) == p1 + ".set_covariance" and len(call.value.args) == 2
            and not call.value.keywords and ast.unparse(call.value.args[0]) == p2):
        raise TranslateError(FITTING, call, "__correlate_fit_params: P1.set_covariance(P2, M[R][C])")
    e = call.value.args[1]
    if not (isinstance(e, ast.Subscript) and isinstance(e.value, ast.Subscript) and ast.unparse(e.value.value) == mat):
        raise TranslateError(FITTING, e, "__correlate_fit_params: M[R][C] of the matrix argument")

    def index_text(node):
        t = nat_expr(FITTING, node, names)
        import re as _re
        return _re.sub(r"v_\w+", lambda m: subst.get(m.group(0), m.group(0)), t)
    defsQ.append("(* {}:{} entry of the covariance matrix registered for the pair (index1, k + index1 + 1), k the position in "
                 "params[index1 + 1:] *)".format(FITTING, call.lineno))
    defsQ.append("Definition corr_row (v_index1 v_index2 : nat) : nat := {}.".format(index_text(e.value.slice)))
    defsQ.append("Definition corr_col (v_index1 v_index2 : nat) : nat := {}.".format(index_text(e.slice)))

    # 6 -- utils.cov2corr ----------------------------------------------------------------------
    f = _func(ut, "cov2corr", QUTILS, keep=("std",))
    body = strip_doc(f.body)
    if [a.arg for a in f.args.args] != ["pcov"] or len(body) != 2 or not isinstance(body[1], ast.Return):
        raise TranslateError(QUTILS, f, "cov2corr: shape")
    _expect(QUTILS, body[0], "std = np.sqrt(np.diag(pcov))", "cov2corr")
    etr = ExprTr(QUTILS, ["pcov"], calls={"np.outer(std, std)": "stdi * v_stdj"})
    ir = etr.tr(body[1].value)
    both("cov2corr_entry", "v_pcov v_stdi v_stdj", _subst_outer(ir),
         "{}:{} entry (i, j) of cov2corr: np.outer(std, std)[i][j] = std[i] * std[j]".format(QUTILS, body[1].lineno))

    # 7 -- utils.numerical_derivative -----------------------------------------------------------
    f = _func(ut, "numerical_derivative", QUTILS)
    body = strip_doc(f.body)
    if [a.arg for a in f.args.args] != ["function", "x0", "dx"] or len(body) != 1 or not isinstance(body[0], ast.Return) \
            or [ast.unparse(d) for d in f.decorator_list] != ["vectorize"] \
            or [ast.unparse(d) for d in f.args.defaults] != ["1e-05"]:
        raise TranslateError(QUTILS, f, "numerical_derivative: shape")
    ir = ExprTr(QUTILS, ["x0", "dx"], funcs=["function"]).tr(body[0].value)
    defsR.append("(* {}:{} *)\nDefinition num_derivative (v_function : R -> R) (v_x0 v_dx : R) : R :=\n  {}.".format(
        QUTILS, body[0].lineno, pr(ir, "R")))
    defsQ.append("(* {}:{} *)\nDefinition num_derivative (v_function : Q -> Q) (v_x0 v_dx : Q) : Q :=\n  {}.".format(
        QUTILS, body[0].lineno, pr(ir, "Q")))

    out = ["(* GENERATED by tools/gens/fitters_gen.py from {} and {} -- do not edit *)".format(FITTING, QUTILS),
           "From Coq Require Import List Reals QArith Bool.", "Import ListNotations.", "",
           "(** the slope in the effective variance is evaluated at the x VALUES of the data points",
           "    (true) or at another array (false) *)",
           "Definition slope_at_values : bool := {}.".format("true" if where == "xdata.values" else "false"), "",
           "Module FitGlueR.", "Local Open Scope R_scope."] + defsR + ["End FitGlueR.", "",
           "Module FitGlueQ.", "Local Open Scope Q_scope."] + defsQ + ["End FitGlueQ."]
    return "\n".join(out) + "\n"


def _subst_outer(ir):
    """("var", "stdi * v_stdj") placeholder -> product of the two variables"""
    if ir == ("var", "stdi * v_stdj"):
        return ("mul", ("var", "stdi"), ("var", "stdj"))
    return tuple(_subst_outer(x) if isinstance(x, tuple) else x for x in ir)


GENERATORS = {"Fitters": gen_fitters, "FitGlue": gen_fitglue}
