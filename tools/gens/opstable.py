"""Gen/OpsTable.v : OPERATIONS and DIFFERENTIATORS of qexpy/data/operations.py as Gallina functions.

For every operator the value function and the derivative rule are emitted twice:
  * over R   (sem_u, sem_b, d_u, d_b)        -- for the theorems (Coquelicot is_derive)
  * over Q in the option monad (qsem_u, ...) -- executable; transcendental sub-terms give None

In a rule, `x.value` becomes the variable v<x>, `x.derivative(o)` the variable d<x>.
Anything outside the recognised vocabulary raises TranslateError (fail closed).
"""
import ast
import os

import translate as T

FILE = "qexpy/data/operations.py"

UOPS = ["NEG", "SQRT", "EXP", "LN", "LOG10", "SIN", "COS", "TAN", "SEC", "CSC", "COT", "ASIN", "ACOS", "ATAN"]
BOPS = ["ADD", "SUB", "MUL", "DIV", "POW", "LOG"]

NP_R = {"sqrt": "sqrt", "exp": "exp", "log": "ln", "log10": "Rlog10", "sin": "sin", "cos": "cos", "tan": "tan",
        "arcsin": "asin", "arccos": "acos", "arctan": "atan"}


class Tr:
    def __init__(self, env):
        self.env = env  # python parameter name -> (value var, derivative var) or plain var

    def err(self, node, msg):
        raise T.TranslateError(FILE, node, msg)

    def ir(self, n):
        """AST -> small IR: ('num', int) ('var', name) ('neg', a) ('bin', op, a, b) ('call', fn, a)
           ('pow', a, b) ('ifnz', cond_expr, then, else)"""
        if isinstance(n, ast.Constant) and isinstance(n.value, int) and not isinstance(n.value, bool):
            return ("num", n.value)
        if isinstance(n, ast.Name):
            if n.id in self.env and isinstance(self.env[n.id], str):
                return ("var", self.env[n.id])
            if n.id in self.env and isinstance(self.env[n.id], tuple) and self.env[n.id][0] == "plain":
                return ("var", self.env[n.id][1])
            self.err(n, "name " + n.id)
        if isinstance(n, ast.Attribute) and isinstance(n.value, ast.Name) and n.attr == "value" \
                and isinstance(self.env.get(n.value.id), tuple) and self.env[n.value.id][0] == "operand":
            return ("var", self.env[n.value.id][1])
        if isinstance(n, ast.Call) and isinstance(n.func, ast.Attribute) and n.func.attr == "derivative" \
                and isinstance(n.func.value, ast.Name) and isinstance(self.env.get(n.func.value.id), tuple) \
                and self.env[n.func.value.id][0] == "operand" and len(n.args) == 1 and not n.keywords \
                and isinstance(n.args[0], ast.Name) and self.env.get(n.args[0].id) == ("target",):
            return ("var", self.env[n.func.value.id][2])
        if isinstance(n, ast.Call) and isinstance(n.func, ast.Attribute) and isinstance(n.func.value, ast.Name) \
                and n.func.value.id == "np" and n.func.attr in NP_R and len(n.args) == 1 and not n.keywords:
            return ("call", n.func.attr, self.ir(n.args[0]))
        if isinstance(n, ast.UnaryOp) and isinstance(n.op, ast.USub):
            return ("neg", self.ir(n.operand))
        if isinstance(n, ast.BinOp):
            ops = {ast.Add: "+", ast.Sub: "-", ast.Mult: "*", ast.Div: "/"}
            if type(n.op) in ops:
                return ("bin", ops[type(n.op)], self.ir(n.left), self.ir(n.right))
            if isinstance(n.op, ast.Pow):
                return ("pow", self.ir(n.left), self.ir(n.right))
        if isinstance(n, ast.IfExp) and isinstance(n.test, ast.Compare) and len(n.test.ops) == 1 \
                and isinstance(n.test.ops[0], ast.NotEq) and isinstance(n.test.comparators[0], ast.Constant) \
                and n.test.comparators[0].value == 0:
            return ("ifnz", self.ir(n.test.left), self.ir(n.body), self.ir(n.orelse))
        self.err(n, "expression " + ast.dump(n)[:70])


def emit_R(e):
    k = e[0]
    if k == "num":
        return str(e[1]) if e[1] >= 0 else "(- {})".format(-e[1])
    if k == "var":
        return e[1]
    if k == "neg":
        return "(- {})".format(emit_R(e[1]))
    if k == "bin":
        return "({} {} {})".format(emit_R(e[2]), e[1], emit_R(e[3]))
    if k == "call":
        return "({} {})".format(NP_R[e[1]], emit_R(e[2]))
    if k == "pow":
        if e[2][0] == "num" and e[2][1] >= 0:
            return "({} ^ {})".format(emit_R(e[1]), e[2][1])
        return "(Rpow {} {})".format(emit_R(e[1]), emit_R(e[2]))
    if k == "ifnz":
        return "(if Req_EM_T {} 0 then {} else {})".format(emit_R(e[1]), emit_R(e[3]), emit_R(e[2]))
    raise ValueError(e)


def emit_Q(e):
    """option Q"""
    k = e[0]
    if k == "num":
        return "(Some ({} # 1))".format(e[1])
    if k == "var":
        return "(Some {})".format(e[1])
    if k == "neg":
        return "(oneg {})".format(emit_Q(e[1]))
    if k == "bin":
        f = {"+": "oadd", "-": "osub", "*": "omul", "/": "odiv"}[e[1]]
        return "({} {} {})".format(f, emit_Q(e[2]), emit_Q(e[3]))
    if k == "call":
        return "(@None Q)"          # transcendental: not executable in Q
    if k == "pow":
        return "(opow {} {})".format(emit_Q(e[1]), emit_Q(e[2]))
    if k == "ifnz":
        return "(oifnz {} (fun _ => {}) (fun _ => {}))".format(emit_Q(e[1]), emit_Q(e[2]), emit_Q(e[3]))
    raise ValueError(e)


def lit_of(node, lits, file):
    if isinstance(node, ast.Attribute) and getattr(node.value, "id", None) == "lit" and node.attr in lits:
        return node.attr
    raise T.TranslateError(file, node, "operator key")


def _single_assign(st):
    """(name, value) of `name = value` / `name: T = value`, else None"""
    if isinstance(st, ast.Assign) and len(st.targets) == 1 and isinstance(st.targets[0], ast.Name):
        return st.targets[0].id, st.value
    if isinstance(st, ast.AnnAssign) and isinstance(st.target, ast.Name) and st.value is not None:
        return st.target.id, st.value
    return None


def _straighten(stmts, fn):
    """straight-line body of a differentiator function: single assignments followed by one return.  Two equivalent
    spellings are normalised to that shape (anything else is rejected):
      if c: x = a  else: x = b              ->  x = a if c else b
      if c: return a   (then)  return b     ->  return a if c else b"""
    out = []
    i = 0
    while i < len(stmts):
        st = stmts[i]
        last = i == len(stmts) - 1
        if _single_assign(st) and not last:
            n, v = _single_assign(st)
            out.append(ast.copy_location(ast.Assign(targets=[ast.Name(id=n, ctx=ast.Store())], value=v), st))
        elif isinstance(st, ast.If) and len(st.body) == 1 and len(st.orelse) == 1 and _single_assign(st.body[0]) \
                and _single_assign(st.orelse[0]) and _single_assign(st.body[0])[0] == _single_assign(st.orelse[0])[0] and not last:
            n = _single_assign(st.body[0])[0]
            v = ast.copy_location(ast.IfExp(test=st.test, body=_single_assign(st.body[0])[1],
                                            orelse=_single_assign(st.orelse[0])[1]), st)
            out.append(ast.copy_location(ast.Assign(targets=[ast.Name(id=n, ctx=ast.Store())], value=v), st))
        elif isinstance(st, ast.If) and len(st.body) == 1 and isinstance(st.body[0], ast.Return) and not st.orelse \
                and i == len(stmts) - 2 and isinstance(stmts[i + 1], ast.Return):
            v = ast.copy_location(ast.IfExp(test=st.test, body=st.body[0].value, orelse=stmts[i + 1].value), st)
            out.append(ast.copy_location(ast.Return(value=v), st))
            return out
        elif isinstance(st, ast.Return) and last:
            out.append(st)
        else:
            raise T.TranslateError(FILE, st, "differentiator function: single assignments followed by one return expected")
        i += 1
    if not out or not isinstance(out[-1], ast.Return):
        raise T.TranslateError(FILE, fn, "differentiator function must end in return")
    return out


def gen_opstable(repo):
    lits = T.load_literals(repo)
    tree = ast.parse(open(os.path.join(repo, FILE)).read())
    tables, funcs = {}, {}
    for node in tree.body:
        if isinstance(node, ast.Assign) and len(node.targets) == 1 and isinstance(node.targets[0], ast.Name) \
                and node.targets[0].id in ("OPERATIONS", "DIFFERENTIATORS"):
            if not isinstance(node.value, ast.Dict):
                raise T.TranslateError(FILE, node, "dict literal expected")
            tables[node.targets[0].id] = node.value
        if isinstance(node, ast.FunctionDef):
            funcs[node.name] = node
    if set(tables) != {"OPERATIONS", "DIFFERENTIATORS"}:
        raise T.TranslateError(FILE, tree, "OPERATIONS / DIFFERENTIATORS not found")

    sem, der = {}, {}
    # OPERATIONS -----------------------------------------------------------------------
    for k, v in zip(tables["OPERATIONS"].keys, tables["OPERATIONS"].values):
        name = lit_of(k, lits, FILE)
        if isinstance(v, ast.Lambda):
            params = [a.arg for a in v.args.args]
            env = {p: ("plain", "x{}".format(i)) for i, p in enumerate(params)}
            sem[name] = (len(params), Tr(env).ir(v.body))
        elif isinstance(v, ast.Attribute) and getattr(v.value, "id", None) == "np" and v.attr in NP_R:
            sem[name] = (1, ("call", v.attr, ("var", "x0")))
        else:
            raise T.TranslateError(FILE, v, "operation " + name)
    # DIFFERENTIATORS ------------------------------------------------------------------
    for k, v in zip(tables["DIFFERENTIATORS"].keys, tables["DIFFERENTIATORS"].values):
        name = lit_of(k, lits, FILE)
        if isinstance(v, ast.Lambda):
            params = [a.arg for a in v.args.args]
            body = v.body
            assigns = []
        elif isinstance(v, ast.Name) and v.id.lstrip("_") in [f.lstrip("_") for f in funcs]:
            fn = [f for n, f in funcs.items() if n.lstrip("_") == v.id.lstrip("_")][0]
            params = [a.arg for a in fn.args.args]
            stmts = _straighten(T.strip_doc(fn.body), fn)
            assigns = stmts[:-1]
            body = stmts[-1].value
        else:
            raise T.TranslateError(FILE, v, "differentiator " + name)
        env = {params[0]: ("target",)}
        for i, p in enumerate(params[1:]):
            env[p] = ("operand", "v{}".format(i), "d{}".format(i))
        tr = Tr(env)
        lets = []
        for st in assigns:
            if not (isinstance(st, ast.Assign) and len(st.targets) == 1 and isinstance(st.targets[0], ast.Name)):
                raise T.TranslateError(FILE, st, "local assignment expected")
            lets.append((st.targets[0].id, tr.ir(st.value)))
            tr.env[st.targets[0].id] = "l_" + st.targets[0].id
        der[name] = (len(params) - 1, lets, tr.ir(body))

    if set(sem) != set(der):
        raise T.TranslateError(FILE, tree, "OPERATIONS and DIFFERENTIATORS have different key sets: {}".format(
            sorted(set(sem) ^ set(der))))
    if set(sem) != set(UOPS) | set(BOPS):
        raise T.TranslateError(FILE, tree, "operator vocabulary changed: {}".format(sorted(set(sem) ^ (set(UOPS) | set(BOPS)))))
    for name in UOPS:
        if sem[name][0] != 1 or der[name][0] != 1:
            raise T.TranslateError(FILE, tree, "arity of " + name)
    for name in BOPS:
        if sem[name][0] != 2 or der[name][0] != 2:
            raise T.TranslateError(FILE, tree, "arity of " + name)

    def with_lets(lets, body, emit, qmode):
        out = emit(body)
        for n, e in reversed(lets):
            out = "(let l_{} := {} in {})".format(n, emit(e), out) if not qmode else \
                "(obind {} (fun l_{} => {}))".format(emit(e), n, out)
        return out

    o = ["(* GENERATED by tools/gens/opstable.py from {} -- do not edit *)".format(FILE),
         "From Coq Require Import Reals QArith.",
         "From QV Require Import Base.RealOps Base.QOps.",
         "",
         "Inductive uop := " + " | ".join(UOPS) + ".",
         "Inductive bop := " + " | ".join(BOPS) + ".",
         "",
         "(* string keys of the operators (settings/literals.py) *)",
         "Local Open Scope R_scope.", ""]
    o.append("Definition sem_u (o : uop) (x0 : R) : R :=\n  match o with")
    for n in UOPS:
        o.append("  | {} => {}".format(n, emit_R(sem[n][1])))
    o.append("  end.\n")
    o.append("Definition sem_b (o : bop) (x0 x1 : R) : R :=\n  match o with")
    for n in BOPS:
        o.append("  | {} => {}".format(n, emit_R(sem[n][1])))
    o.append("  end.\n")
    o.append("(* d_u o v0 d0 : the rule for operator o applied to an operand with value v0 and derivative d0 *)")
    o.append("Definition d_u (o : uop) (v0 d0 : R) : R :=\n  match o with")
    for n in UOPS:
        o.append("  | {} => {}".format(n, with_lets(der[n][1], der[n][2], emit_R, False)))
    o.append("  end.\n")
    o.append("Definition d_b (o : bop) (v0 d0 v1 d1 : R) : R :=\n  match o with")
    for n in BOPS:
        o.append("  | {} => {}".format(n, with_lets(der[n][1], der[n][2], emit_R, False)))
    o.append("  end.\n")
    o.append("Local Close Scope R_scope.\nLocal Open Scope Q_scope.\n")
    o.append("Definition qsem_u (o : uop) (x0 : Q) : option Q :=\n  match o with")
    for n in UOPS:
        o.append("  | {} => {}".format(n, emit_Q(sem[n][1])))
    o.append("  end.\n")
    o.append("Definition qsem_b (o : bop) (x0 x1 : Q) : option Q :=\n  match o with")
    for n in BOPS:
        o.append("  | {} => {}".format(n, emit_Q(sem[n][1])))
    o.append("  end.\n")
    o.append("Definition qd_u (o : uop) (v0 d0 : Q) : option Q :=\n  match o with")
    for n in UOPS:
        o.append("  | {} => {}".format(n, with_lets(der[n][1], der[n][2], emit_Q, True)))
    o.append("  end.\n")
    o.append("Definition qd_b (o : bop) (v0 d0 v1 d1 : Q) : option Q :=\n  match o with")
    for n in BOPS:
        o.append("  | {} => {}".format(n, with_lets(der[n][1], der[n][2], emit_Q, True)))
    o.append("  end.\n")
    return "\n".join(o) + "\n"


GENERATORS = {"OpsTable": gen_opstable}
