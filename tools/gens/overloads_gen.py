"""Generator OverloadsGen: the arithmetic special methods of ExperimentalValue and ExperimentalValueArray, the
vectorised math functions of qexpy/data/operations.py, utils.vectorize and _execute, as Gallina tables over
Model/OverloadVocab.v.  Fail closed: any method or function whose body is not of a recognised shape aborts."""
import ast
import math
import os

import translate
from translate import TranslateError, load_literals, strip_doc, qlit

DUNDERS = ["__add__", "__radd__", "__sub__", "__rsub__", "__mul__", "__rmul__", "__truediv__", "__rtruediv__",
           "__pow__", "__rpow__", "__neg__"]
FNAMES = ["sqrt", "exp", "sin", "sind", "cos", "cosd", "tan", "tand", "sec", "secd", "csc", "cscd", "cot", "cotd",
          "asin", "acos", "atan", "log", "log10"]
OPLITS = ["NEG", "ADD", "SUB", "MUL", "DIV", "SQRT", "SIN", "COS", "TAN", "SEC", "CSC", "COT", "POW", "EXP", "LOG",
          "LOG10", "LN", "ASIN", "ACOS", "ATAN"]
WRAP = "dut.wrap_in_experimental_value"


def dname(d):
    return "D_" + d.strip("_")


def parse(repo, rel):
    return ast.parse(open(os.path.join(repo, rel)).read())


def find_class(tree, name, rel):
    for n in tree.body:
        if isinstance(n, ast.ClassDef) and n.name == name:
            return n
    raise TranslateError(rel, tree, "class {} not found".format(name))


def methods(cls):
    return {n.name: n for n in cls.body if isinstance(n, ast.FunctionDef)}


def lit_op(rel, node, lits):
    if isinstance(node, ast.Attribute) and isinstance(node.value, ast.Name) and node.value.id == "lit" \
            and node.attr in lits and node.attr in OPLITS:
        return node.attr
    raise TranslateError(rel, node, "operator is not a literal lit.<OP>: " + ast.unparse(node))


def check_array_types(rel, tree):
    for n in tree.body:
        if isinstance(n, ast.Assign) and len(n.targets) == 1 and isinstance(n.targets[0], ast.Name) \
                and n.targets[0].id == "ARRAY_TYPES":
            elts = sorted(ast.unparse(e) for e in n.value.elts) if isinstance(n.value, ast.Tuple) else None
            if elts != ["list", "np.ndarray"]:
                raise TranslateError(rel, n, "ARRAY_TYPES is not (np.ndarray, list)")
            return
    raise TranslateError(rel, tree, "ARRAY_TYPES not defined")


def is_array_test(test, arg):
    return ast.unparse(test) == "isinstance({}, ARRAY_TYPES)".format(arg)


def ev_method(rel, f, lits):
    """-> Gallina ev_shape term"""
    decos = [ast.unparse(d) for d in f.decorator_list]
    args = [a.arg for a in f.args.args]
    if f.args.vararg or f.args.kwarg or f.args.kwonlyargs or f.args.defaults:
        raise TranslateError(rel, f, f.name + ": unexpected signature")
    body = strip_doc(f.body)

    def formula(ret):
        """Return DerivedValue(Formula(lit.OP, [..])) -> (OP, [operand texts])"""
        if not (isinstance(ret, ast.Return) and isinstance(ret.value, ast.Call)
                and ast.unparse(ret.value.func) == "DerivedValue" and len(ret.value.args) == 1
                and not ret.value.keywords):
            raise TranslateError(rel, ret, f.name + ": not 'return DerivedValue(Formula(...))'")
        fo = ret.value.args[0]
        if not (isinstance(fo, ast.Call) and ast.unparse(fo.func) == "Formula" and len(fo.args) == 2
                and not fo.keywords and isinstance(fo.args[1], ast.List)):
            raise TranslateError(rel, ret, f.name + ": not Formula(lit.OP, [operands])")
        return lit_op(rel, fo.args[0], lits), [ast.unparse(e) for e in fo.args[1].elts]

    if f.name == "__neg__":
        if decos or args != ["self"] or len(body) != 1:
            raise TranslateError(rel, f, "__neg__: unexpected shape")
        op, operands = formula(body[0])
        if operands != ["self"]:
            raise TranslateError(rel, f, "__neg__: operands are not [self]")
        return "EvUnary {}".format(op)
    if len(decos) != 1 or not decos[0].startswith("utils.check_operand_type("):
        raise TranslateError(rel, f, f.name + ": decorators " + repr(decos))
    if len(args) != 2 or args[0] != "self":
        raise TranslateError(rel, f, f.name + ": arguments")
    other = args[1]
    defer = "None"
    if len(body) == 2:
        st = body[0]
        if not (isinstance(st, ast.If) and is_array_test(st.test, other) and not st.orelse and len(st.body) == 1
                and isinstance(st.body[0], ast.Return) and isinstance(st.body[0].value, ast.Call)):
            raise TranslateError(rel, st, f.name + ": first statement is not the ARRAY_TYPES deferral")
        call = st.body[0].value
        if not (isinstance(call.func, ast.Attribute) and isinstance(call.func.value, ast.Name)
                and call.func.value.id == other and call.func.attr in DUNDERS
                and [ast.unparse(a) for a in call.args] == ["self"] and not call.keywords):
            raise TranslateError(rel, st, f.name + ": deferral is not other.__rop__(self)")
        defer = "(Some {})".format(dname(call.func.attr))
        body = body[1:]
    if len(body) != 1:
        raise TranslateError(rel, f, f.name + ": unexpected statements")
    op, operands = formula(body[0])
    wrapped = "{}({})".format(WRAP, other)
    if operands == ["self", wrapped]:
        first = "true"
    elif operands == [wrapped, "self"]:
        first = "false"
    else:
        raise TranslateError(rel, body[0], f.name + ": operands " + repr(operands))
    return "EvBinary {} {} {}".format(op, first, defer)


def operand_helpers(tree):
    """names of module-level functions of the form
         def h(x):
             if isinstance(x, ARRAY_TYPES):
                 return x
             return dut.wrap_in_experimental_value(x)
    i.e. exactly the conditional of the recognised method shape, moved into a helper"""
    names = set()
    for f in tree.body:
        if not isinstance(f, ast.FunctionDef) or f.decorator_list:
            continue
        args = [a.arg for a in f.args.args]
        if len(args) != 1 or f.args.vararg or f.args.kwarg or f.args.defaults or f.args.kwonlyargs:
            continue
        x = args[0]
        body = strip_doc(f.body)
        if len(body) == 2 and isinstance(body[0], ast.If) and is_array_test(body[0].test, x) and not body[0].orelse \
                and len(body[0].body) == 1 and ast.unparse(body[0].body[0]) == "return " + x \
                and ast.unparse(body[1]) == "return {}({})".format(WRAP, x):
            names.add(f.name)
    # a helper that is rebound anywhere else in the module would not be what its definition says
    for n in ast.walk(tree):
        if isinstance(n, (ast.Assign, ast.AugAssign, ast.AnnAssign)):
            targets = n.targets if isinstance(n, ast.Assign) else [n.target]
            for t in targets:
                if isinstance(t, ast.Name) and t.id in names:
                    names.discard(t.id)
        if isinstance(n, ast.Global) and set(n.names) & names:
            names -= set(n.names)
    defs = [f.name for f in ast.walk(tree) if isinstance(f, (ast.FunctionDef, ast.ClassDef))]
    return {h for h in names if defs.count(h) == 1}


def arr_method(rel, f, helpers=()):
    args = [a.arg for a in f.args.args]
    if f.decorator_list or len(args) != 2 or args[0] != "self" or f.args.vararg or f.args.kwarg or f.args.defaults:
        raise TranslateError(rel, f, f.name + ": signature / decorators")
    other = args[1]
    body = strip_doc(f.body)
    # the conditional moved into a recognised helper:  return super().__op__(helper(other))
    if len(body) == 1 and isinstance(body[0], ast.Return) and isinstance(body[0].value, ast.Call):
        call = body[0].value
        if isinstance(call.func, ast.Attribute) and ast.unparse(call.func.value) == "super()" \
                and call.func.attr in DUNDERS and not call.keywords and len(call.args) == 1 \
                and isinstance(call.args[0], ast.Call) and isinstance(call.args[0].func, ast.Name) \
                and call.args[0].func.id in helpers and not call.args[0].keywords \
                and [ast.unparse(a) for a in call.args[0].args] == [other]:
            return "ArrDelegate {} true".format(dname(call.func.attr))
    if len(body) != 2 or not (isinstance(body[0], ast.If) and is_array_test(body[0].test, other)
                              and not body[0].orelse and len(body[0].body) == 1):
        raise TranslateError(rel, f, f.name + ": not 'if isinstance(other, ARRAY_TYPES): ...; return ...'")

    def sup(ret, expect_arg):
        if not (isinstance(ret, ast.Return) and isinstance(ret.value, ast.Call)
                and isinstance(ret.value.func, ast.Attribute) and ast.unparse(ret.value.func.value) == "super()"
                and ret.value.func.attr in DUNDERS and not ret.value.keywords
                and [ast.unparse(a) for a in ret.value.args] == [expect_arg]):
            raise TranslateError(rel, ret, f.name + ": not 'return super().__op__({})'".format(expect_arg))
        return ret.value.func.attr
    t1 = sup(body[0].body[0], other)
    t2 = sup(body[1], "{}({})".format(WRAP, other))
    if t1 != t2:
        raise TranslateError(rel, f, f.name + ": the two branches delegate to different methods")
    return "ArrDelegate {} true".format(dname(t1))


def normalized(fn):
    """source of a function with the docstring removed (comments are not in the ast)"""
    f = ast.FunctionDef(name=fn.name, args=fn.args, body=strip_doc(fn.body) or [ast.Pass()],
                        decorator_list=fn.decorator_list, returns=None, type_comment=None, lineno=0, col_offset=0)
    try:
        f.type_params = []
    except Exception:  # noqa
        pass
    return ast.unparse(ast.fix_missing_locations(f))


EXECUTE_SRC = '''def _execute(operator: str, *operands):
    if all((isinstance(x, Real) for x in operands)):
        return OPERATIONS[operator](*operands)
    try:
        values = list((dut.wrap_in_experimental_value(x) for x in operands))
    except TypeError:
        raise UndefinedOperationError(operator, operands, 'real numbers')
    return dt.DerivedValue(dt.Formula(operator, list(values)))'''

EXECUTE_SRC2 = '''def _execute(operator: str, *operands):
    only_plain_numbers = all((isinstance(operand, Real) for operand in operands))
    if only_plain_numbers:
        function = OPERATIONS[operator]
        return function(*operands)
    wrapped_operands = []
    for operand in operands:
        try:
            wrapped_operands.append(dut.wrap_in_experimental_value(operand))
        except TypeError:
            raise UndefinedOperationError(operator, operands, 'real numbers')
    return dt.DerivedValue(dt.Formula(operator, wrapped_operands))'''

WRAP_SRC = '''def wrap_in_experimental_value(operand):
    if isinstance(operand, (Real, np.bool_)):
        return dt.Constant(int(operand) if isinstance(operand, Integral) else float(operand))
    if isinstance(operand, dt.ExperimentalValue):
        return operand
    if isinstance(operand, tuple) and len(operand) == 2:
        return dt.MeasuredValue(operand[0], operand[1])
    raise TypeError('Cannot parse a {} into an ExperimentalValue'.format(type(operand).__name__))'''


def module_functions(tree):
    return {n.name: n for n in tree.body if isinstance(n, ast.FunctionDef)}


def fn_shape(rel, f, lits):
    decos = [ast.unparse(d) for d in f.decorator_list]
    if decos != ["utils.vectorize"]:
        raise TranslateError(rel, f, f.name + ": not decorated with exactly @utils.vectorize")
    body = strip_doc(f.body)
    if f.name == "log":
        if f.args.args or not f.args.vararg or f.args.vararg.arg != "args" or f.args.kwarg or len(body) != 3:
            raise TranslateError(rel, f, "log: signature / statements")

        def branch(st):
            """if len(args) == n: [names = args;] return _execute(lit.OP, <the n arguments>)  ->  (n, OP, positions)"""
            n = None
            if isinstance(st, ast.If) and not st.orelse:
                for k in (1, 2):
                    if ast.unparse(st.test) == "len(args) == {}".format(k):
                        n = k
            if n is None:
                raise TranslateError(rel, st, "log: not a branch on the number of arguments")
            stmts = list(st.body)
            names = {}
            if len(stmts) == 2 and isinstance(stmts[0], ast.Assign) and len(stmts[0].targets) == 1 \
                    and isinstance(stmts[0].targets[0], ast.Tuple) and ast.unparse(stmts[0].value) == "args" \
                    and all(isinstance(e, ast.Name) for e in stmts[0].targets[0].elts) \
                    and len(stmts[0].targets[0].elts) == n \
                    and len({e.id for e in stmts[0].targets[0].elts}) == n \
                    and "args" not in {e.id for e in stmts[0].targets[0].elts}:
                names = {e.id: i for i, e in enumerate(stmts[0].targets[0].elts)}     # a, b = args
                stmts = stmts[1:]
            if not (len(stmts) == 1 and isinstance(stmts[0], ast.Return) and isinstance(stmts[0].value, ast.Call)
                    and ast.unparse(stmts[0].value.func) == "_execute" and not stmts[0].value.keywords):
                raise TranslateError(rel, st, "log: branch for {} argument(s)".format(n))
            a_ = stmts[0].value.args
            op = lit_op(rel, a_[0], lits)
            idx = []
            for e in a_[1:]:
                if isinstance(e, ast.Subscript) and ast.unparse(e.value) == "args" \
                        and isinstance(e.slice, ast.Constant) and isinstance(e.slice.value, int) \
                        and not isinstance(e.slice.value, bool) and 0 <= e.slice.value < n:
                    idx.append(e.slice.value)
                elif isinstance(e, ast.Name) and e.id in names:
                    idx.append(names[e.id])
                else:
                    raise TranslateError(rel, e, "log: operand is neither args[i] nor an unpacked argument")
            if len(idx) != n:
                raise TranslateError(rel, st, "log: wrong number of operands")
            return n, op, idx
        branches = dict((br[0], br[1:]) for br in (branch(body[0]), branch(body[1])))
        if sorted(branches) != [1, 2]:
            raise TranslateError(rel, f, "log: the one- and the two-argument branch are not both present")
        if not isinstance(body[2], ast.Raise):
            raise TranslateError(rel, body[2], "log: last statement is not raise")
        (two, idx2), (one, idx1) = branches[2], branches[1]
        return "FnLog {} {}%nat {}%nat {}".format(two, idx2[0], idx2[1], one)
    args = [a.arg for a in f.args.args]
    if len(args) != 1 or f.args.vararg or f.args.kwarg or f.args.defaults or len(body) != 1 \
            or not isinstance(body[0], ast.Return) or not isinstance(body[0].value, ast.Call):
        raise TranslateError(rel, f, f.name + ": not a one-argument 'return call(...)'")
    x = args[0]
    call = body[0].value
    fn = ast.unparse(call.func)
    if fn == "_execute":
        if len(call.args) != 2 or ast.unparse(call.args[1]) != x or call.keywords:
            raise TranslateError(rel, call, f.name + ": _execute arguments")
        return "FnDirect {}".format(lit_op(rel, call.args[0], lits))
    if fn in FNAMES and len(call.args) == 1 and not call.keywords:
        e = call.args[0]
        # x / <int> * np.pi
        if isinstance(e, ast.BinOp) and isinstance(e.op, ast.Mult) and ast.unparse(e.right) == "np.pi" \
                and isinstance(e.left, ast.BinOp) and isinstance(e.left.op, ast.Div) \
                and ast.unparse(e.left.left) == x and isinstance(e.left.right, ast.Constant) \
                and isinstance(e.left.right.value, int) and not isinstance(e.left.right.value, bool):
            return "FnDegrees F_{} {} {}".format(fn, qlit(e.left.right.value), qlit(math.pi))
    raise TranslateError(rel, f, f.name + ": unrecognised body " + ast.unparse(body[0])[:60])


def vectorize_flag_shape(wb, kinds):
    """f1 = any(isinstance(arg, K1) for arg in args); f2 = any(... K2 ...)
       if not f1 and not f2: return func(*args)
       r = np.vectorize(func)(*args)
       return X if f else Y            with {X, Y} = {r, r.tolist()}
    -> the rule list [(kind of f, X is tolist), (the other kind, Y is tolist)], or None if not this shape"""
    if len(wb) != 5:
        return None
    flags = {}
    for st in wb[:2]:
        if not (isinstance(st, ast.Assign) and len(st.targets) == 1 and isinstance(st.targets[0], ast.Name)):
            return None
        for k in kinds:
            if ast.unparse(st.value) == "any((isinstance(arg, {}) for arg in args))".format(k):
                flags[st.targets[0].id] = k
    if len(flags) != 2 or sorted(flags.values()) != sorted(kinds) or {"args", "func"} & set(flags):
        return None
    f1, f2 = [st.targets[0].id for st in wb[:2]]
    st = wb[2]
    if not (isinstance(st, ast.If) and not st.orelse and len(st.body) == 1
            and ast.unparse(st.body[0]) == "return func(*args)"
            and ast.unparse(st.test) in ("not {} and (not {})".format(f1, f2), "not {} and (not {})".format(f2, f1))):
        return None
    st = wb[3]
    if not (isinstance(st, ast.Assign) and len(st.targets) == 1 and isinstance(st.targets[0], ast.Name)
            and ast.unparse(st.value) == "np.vectorize(func)(*args)" and st.targets[0].id not in flags
            and st.targets[0].id not in ("args", "func")):
        return None
    r = st.targets[0].id
    st = wb[4]
    if not (isinstance(st, ast.Return) and isinstance(st.value, ast.IfExp) and isinstance(st.value.test, ast.Name)
            and st.value.test.id in flags):
        return None
    x, y = ast.unparse(st.value.body), ast.unparse(st.value.orelse)
    if {x, y} != {r, r + ".tolist()"}:
        return None
    first = flags[st.value.test.id]
    other = [k for k in kinds if k != first][0]
    return ["({}, {})".format(kinds[first], "true" if x.endswith(".tolist()") else "false"),
            "({}, {})".format(kinds[other], "true" if y.endswith(".tolist()") else "false")]


def vectorize_rules(rel, tree):
    fns = module_functions(tree)
    if "vectorize" not in fns:
        raise TranslateError(rel, tree, "vectorize not found")
    v = fns["vectorize"]
    body = strip_doc(v.body)
    if len(body) != 2 or not isinstance(body[0], ast.FunctionDef) or ast.unparse(body[1]) != "return " + body[0].name:
        raise TranslateError(rel, v, "vectorize: not a single inner wrapper")
    w = body[0]
    if [ast.unparse(d) for d in w.decorator_list] != ["functools.wraps(func)"] or w.args.args \
            or not w.args.vararg or w.args.vararg.arg != "args":
        raise TranslateError(rel, w, "vectorize wrapper: signature")
    wb = strip_doc(w.body)
    kinds = {"np.ndarray": "VkNdarray", "list": "VkList"}
    alt = vectorize_flag_shape(wb, kinds)
    if alt is not None:
        return alt
    if len(wb) < 1 or ast.unparse(wb[-1]) != "return func(*args)":
        raise TranslateError(rel, w, "vectorize wrapper: last statement is not 'return func(*args)'")
    rules = []
    kinds = {"np.ndarray": "VkNdarray", "list": "VkList"}
    for st in wb[:-1]:
        ok = isinstance(st, ast.If) and not st.orelse and len(st.body) == 1 and isinstance(st.body[0], ast.Return)
        kind = None
        if ok:
            for k in kinds:
                if ast.unparse(st.test) == "any((isinstance(arg, {}) for arg in args))".format(k):
                    kind = k
        if not ok or kind is None:
            raise TranslateError(rel, st, "vectorize wrapper: unrecognised rule")
        r = ast.unparse(st.body[0].value)
        if r == "np.vectorize(func)(*args)":
            tolist = "false"
        elif r == "np.vectorize(func)(*args).tolist()":
            tolist = "true"
        else:
            raise TranslateError(rel, st, "vectorize wrapper: unrecognised result " + r)
        rules.append("({}, {})".format(kinds[kind], tolist))
    return rules


def gen_overloads(repo):
    lits = load_literals(repo)
    out = ["(** GENERATED by tools/gens/overloads_gen.py from qexpy/data/data.py, qexpy/data/datasets.py,",
           "    qexpy/data/operations.py, qexpy/data/utils.py, qexpy/utils/utils.py -- do not edit. *)",
           "From Coq Require Import List QArith.", "From QV Require Import Model.OverloadVocab.",
           "Import ListNotations.", ""]
    # ExperimentalValue
    rel = "qexpy/data/data.py"
    tree = parse(repo, rel)
    check_array_types(rel, tree)
    ms = methods(find_class(tree, "ExperimentalValue", rel))
    out.append("Definition ev_overload (d : dunder) : ev_shape :=\n  match d with")
    for d in DUNDERS:
        if d not in ms:
            raise TranslateError(rel, tree, "ExperimentalValue.{} not defined".format(d))
        out.append("  | {} => {}".format(dname(d), ev_method(rel, ms[d], lits)))
    out.append("  end.\n")
    for sub in ("Constant", "MeasuredValue", "RepeatedlyMeasuredValue", "DerivedValue"):
        for d in DUNDERS:
            if d in methods(find_class(tree, sub, rel)):
                raise TranslateError(rel, tree, "{} overrides {}".format(sub, d))
    # ExperimentalValueArray
    rel = "qexpy/data/datasets.py"
    tree = parse(repo, rel)
    check_array_types(rel, tree)
    ms = methods(find_class(tree, "ExperimentalValueArray", rel))
    helpers = operand_helpers(tree)
    out.append("Definition arr_overload (d : dunder) : arr_shape :=\n  match d with")
    for d in DUNDERS:
        if d in ms:
            out.append("  | {} => {}".format(dname(d), arr_method(rel, ms[d], helpers)))
        elif d == "__neg__":
            out.append("  | {} => ArrInherited".format(dname(d)))
        else:
            raise TranslateError(rel, tree, "ExperimentalValueArray.{} not defined".format(d))
    out.append("  end.\n")
    for extra in ("__array_ufunc__", "__array_wrap__", "__array_function__", "__iadd__", "__isub__", "__imul__",
                  "__itruediv__", "__ipow__", "__pos__", "__abs__"):
        if extra in ms:
            raise TranslateError(rel, ms[extra], "ExperimentalValueArray defines {}".format(extra))
    # math functions
    rel = "qexpy/data/operations.py"
    tree = parse(repo, rel)
    check_array_types(rel, tree)
    fns = module_functions(tree)
    out.append("Definition fn_table (f : fname) : fn_shape :=\n  match f with")
    for f in FNAMES:
        if f not in fns:
            raise TranslateError(rel, tree, "function {} not defined".format(f))
        out.append("  | F_{} => {}".format(f, fn_shape(rel, fns[f], lits)))
    out.append("  end.\n")
    if "_execute" not in fns or normalized(fns["_execute"]) not in (EXECUTE_SRC, EXECUTE_SRC2):
        raise TranslateError(rel, fns.get("_execute", tree), "_execute is not of the recognised shape")
    out.append("(* _execute: all operands numbers.Real -> OPERATIONS[op] applied to them, a plain number; otherwise\n"
               "   DerivedValue(Formula(op, [wrap(x) for x in operands])) *)")
    out.append("Definition execute_plain_when_all_real : bool := true.\n")
    rel = "qexpy/data/utils.py"
    tree = parse(repo, rel)
    check_array_types(rel, tree)
    fns = module_functions(tree)
    if "wrap_in_experimental_value" not in fns or normalized(fns["wrap_in_experimental_value"]) != WRAP_SRC:
        raise TranslateError(rel, fns.get("wrap_in_experimental_value", tree),
                             "wrap_in_experimental_value is not of the recognised shape")
    out.append("(* wrap_in_experimental_value: Real -> Constant, ExperimentalValue -> itself, 2-tuple -> MeasuredValue *)")
    out.append("Definition wrap_number_is_constant : bool := true.\n")
    rel = "qexpy/utils/utils.py"
    rules = vectorize_rules(rel, parse(repo, rel))
    out.append("Definition vectorize_rules : list (vkind * bool) := [{}].".format("; ".join(rules)))
    return "\n".join(out) + "\n"


GENERATORS = {"OverloadsGen": gen_overloads}
