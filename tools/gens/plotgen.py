"""Generator PlotGen: the table-like / single-expression parts of qexpy/plotting that the C19 model is built on.

Emitted into coq/Gen/PlotGen.v (fail-closed: anything outside the recognised shapes raises TranslateError):

  * the four *_VALID_KWARGS lists of plotobjects.py                         -> list string
  * XYDataSetOnPlot.__get_indices_from_xrange  (low, high = self._xrange; return CMP & CMP)  -> gen_mask low high x
  * FunctionOnPlot.xvalues   return np.linspace(self.xrange[0], self.xrange[1], N)            -> gen_linspace_num
  * Plot.xlabel / Plot.ylabel  return self.A + ("..{}..".format(self.B) if self.C else "")    -> gen_xlabel / gen_ylabel
  * Plot.xname/yname/xunit/yunit  (override key, attribute read from the first XY object)    -> gen_src_*
  * Plot.xrange  min(obj.xrange[0] ...), max(obj.xrange[1] ...) over ObjectWithRange         -> gen_dom_low / gen_dom_high
"""
import ast
import os

from translate import TranslateError, coq_string

PO = "qexpy/plotting/plotobjects.py"
PL = "qexpy/plotting/plotting.py"


def _cls(tree, file, name):
    for n in tree.body:
        if isinstance(n, ast.ClassDef) and n.name == name:
            return n
    raise TranslateError(file, tree, "class {} not found".format(name))


def _method(cls, file, name, getter=True):
    """the (property getter) function [name] of a class"""
    found = []
    for n in cls.body:
        if isinstance(n, ast.FunctionDef) and n.name == name:
            is_setter = any(isinstance(d, ast.Attribute) and d.attr == "setter" for d in n.decorator_list)
            if is_setter == (not getter):
                found.append(n)
    if len(found) != 1:
        raise TranslateError(file, cls, "expected exactly one {} {} in {}".format("getter" if getter else "setter", name, cls.name))
    return found[0]


def _body(fn):
    b = list(fn.body)
    if b and isinstance(b[0], ast.Expr) and isinstance(b[0].value, ast.Constant) and isinstance(b[0].value.value, str):
        b = b[1:]
    return b


def _is_self_attr(e, attr=None):
    return isinstance(e, ast.Attribute) and isinstance(e.value, ast.Name) and e.value.id == "self" and \
        (attr is None or e.attr == attr)


def _text(s):
    return "(" + "".join("{}%N :: ".format(ord(c)) for c in s) + "@nil N)"


# ---- shape normalisation (behaviour-preserving rewrites are mapped to one form; anything else fails closed) ------
def _conditional(file, fn, body):
    """a body that is one two-way decision:
         if T: A...            |   if T: A... else: B...      (A must end in return / raise for the first form)
         B...
       -> (T, A, B); a negated test `not T` is returned as (T, B, A)"""
    if not body or not isinstance(body[0], ast.If):
        raise TranslateError(file, fn, "expected a body that starts with an if")
    i = body[0]
    if i.orelse and len(body) == 1:
        then, other = i.body, i.orelse
    elif not i.orelse and len(body) > 1 and isinstance(i.body[-1], (ast.Return, ast.Raise)):
        then, other = i.body, body[1:]
    else:
        raise TranslateError(file, i, "if without else must end in return/raise and be followed by the other branch")
    test = i.test
    if isinstance(test, ast.UnaryOp) and isinstance(test.op, ast.Not):
        return test.operand, other, then
    return test, then, other


def _inline_locals(file, stmts):
    """NAME = <pure expression> assignments followed by one return: the return expression with the locals substituted.
    Pure = names, attributes of self, subscripts with constant index, tuples of such.  A local may be assigned once."""
    import copy
    env = {}

    def pure(e):
        if isinstance(e, (ast.Name, ast.Constant)):
            return True
        if isinstance(e, ast.Attribute):
            return pure(e.value)
        if isinstance(e, ast.Subscript):
            return pure(e.value) and isinstance(e.slice, ast.Constant)
        return False

    class S(ast.NodeTransformer):
        def visit_Name(self, n):
            return copy.deepcopy(env[n.id]) if n.id in env and isinstance(n.ctx, ast.Load) else n
    for st in stmts[:-1]:
        if isinstance(st, ast.Assign) and len(st.targets) == 1 and isinstance(st.targets[0], ast.Name) and pure(st.value):
            if st.targets[0].id in env:
                raise TranslateError(file, st, "local assigned twice")
            env[st.targets[0].id] = S().visit(copy.deepcopy(st.value))
        elif isinstance(st, ast.Assign) and len(st.targets) == 1 and isinstance(st.targets[0], ast.Tuple) \
                and all(isinstance(e, ast.Name) for e in st.targets[0].elts) and pure(st.value):
            # a, b = X   ->   a := X[0], b := X[1]
            val = S().visit(copy.deepcopy(st.value))
            for k, e in enumerate(st.targets[0].elts):
                if e.id in env:
                    raise TranslateError(file, st, "local assigned twice")
                env[e.id] = ast.Subscript(value=copy.deepcopy(val), slice=ast.Constant(value=k), ctx=ast.Load())
        else:
            raise TranslateError(file, st, "statement outside 'local = pure expression'")
    last = stmts[-1]
    if not isinstance(last, ast.Return) or last.value is None:
        raise TranslateError(file, last, "expected a return")
    return S().visit(copy.deepcopy(last.value))


def _helper_call(cls, file, e):
    """(helper FunctionDef, {param: argument}) when e is self.<private method of the class>(positional pure args)"""
    if isinstance(e, ast.Call) and isinstance(e.func, ast.Attribute) and isinstance(e.func.value, ast.Name) \
            and e.func.value.id == "self" and not e.keywords:
        name = e.func.attr
        cands = [n for n in cls.body if isinstance(n, ast.FunctionDef) and (n.name == name or "_" + cls.name + n.name == name)]
        if len(cands) != 1:
            return None
        fn = cands[0]
        decos = [ast.unparse(d) for d in fn.decorator_list]
        if decos not in ([], ["staticmethod"]):
            return None
        params = [a.arg for a in fn.args.args][(0 if decos else 1):]
        if fn.args.vararg or fn.args.kwarg or fn.args.kwonlyargs or fn.args.defaults or len(params) != len(e.args):
            raise TranslateError(file, e, "helper call arity")
        return fn, dict(zip(params, e.args))
    return None


def _inlined_body(cls, file, fn):
    """the body of a method, with a body that is just `return self.<private helper>(args)` replaced by the helper's body
    (parameters substituted by the argument expressions), repeatedly"""
    body = _body(fn)
    depth = 0
    while len(body) == 1 and isinstance(body[0], ast.Return) and _helper_call(cls, file, body[0].value):
        helper, mapping = _helper_call(cls, file, body[0].value)
        body = _subst_params(file, _body(helper), mapping)
        depth += 1
        if depth > 4:
            raise TranslateError(file, fn, "helper inlining too deep")
    return body


def _subst_params(file, stmts, mapping):
    import copy

    class S(ast.NodeTransformer):
        def visit_Name(self, n):
            return copy.deepcopy(mapping[n.id]) if n.id in mapping and isinstance(n.ctx, ast.Load) else n
    stores = [n.id for b in stmts for n in ast.walk(b) if isinstance(n, ast.Name) and isinstance(n.ctx, ast.Store)]
    if any(x in mapping for x in stores):
        raise TranslateError(file, stmts[0], "helper assigns to its parameter")
    return [S().visit(copy.deepcopy(b)) for b in stmts]


# ---- keyword lists -----------------------------------------------------------------------
def kw_lists(tree):
    want = ["PLOT_VALID_KWARGS", "ERRORBAR_VALID_KWARGS", "HIST_VALID_KWARGS", "NP_HIST_VALID_KWARGS"]
    out = {}
    for n in tree.body:
        if isinstance(n, ast.Assign) and len(n.targets) == 1 and isinstance(n.targets[0], ast.Name) \
                and n.targets[0].id in want:
            if not isinstance(n.value, ast.List) or not all(
                    isinstance(e, ast.Constant) and isinstance(e.value, str) for e in n.value.elts):
                raise TranslateError(PO, n, "{} is not a list of string literals".format(n.targets[0].id))
            if n.targets[0].id in out:
                raise TranslateError(PO, n, "{} assigned twice".format(n.targets[0].id))
            out[n.targets[0].id] = [e.value for e in n.value.elts]
    for w in want:
        if w not in out:
            raise TranslateError(PO, tree, "{} not found".format(w))
    return out


# ---- the x-range mask ----------------------------------------------------------------------
def mask_expr(tree):
    cls = _cls(tree, PO, "XYDataSetOnPlot")
    fn = _method(cls, PO, "__get_indices_from_xrange")
    body = _body(fn)
    if not body:
        raise TranslateError(PO, fn, "mask: empty body")
    # locals (low, high = self._xrange; x = self.dataset.xvalues; ...) are substituted into the returned expression
    r = _inline_locals(PO, body)
    if not (isinstance(r, ast.BinOp) and isinstance(r.op, ast.BitAnd)):
        raise TranslateError(PO, body[-1], "mask: expected 'return CMP & CMP'")

    def operand(e):
        if isinstance(e, ast.Subscript) and _is_self_attr(e.value, "_xrange") and isinstance(e.slice, ast.Constant) \
                and e.slice.value in (0, 1):
            return ("low", "high")[e.slice.value]
        if isinstance(e, ast.Attribute) and e.attr == "xvalues" and _is_self_attr(e.value, "dataset"):
            return "x"
        raise TranslateError(PO, e, "mask: operand outside {self._xrange[0], self._xrange[1], self.dataset.xvalues}")

    def cmp(e):
        if not (isinstance(e, ast.Compare) and len(e.ops) == 1 and len(e.comparators) == 1):
            raise TranslateError(PO, e, "mask: not a single comparison")
        l, rr = operand(e.left), operand(e.comparators[0])
        op = e.ops[0]
        if isinstance(op, ast.LtE):
            return "(Qle_bool {} {})".format(l, rr)
        if isinstance(op, ast.Lt):
            return "(Qltb {} {})".format(l, rr)
        if isinstance(op, ast.GtE):
            return "(Qle_bool {} {})".format(rr, l)
        if isinstance(op, ast.Gt):
            return "(Qltb {} {})".format(rr, l)
        raise TranslateError(PO, e, "mask: comparison operator outside < <= > >=")
    return "andb {} {}".format(cmp(r.left), cmp(r.right))


def mask_users(tree):
    """xvalues / yvalues / xerr / yerr of XYDataSetOnPlot all decide on the truth of self._xrange between
         self.dataset.<same name>[self.__get_indices_from_xrange()]   and   self.dataset.<same name>
    written as early return, if/else or conditional expression, directly or through a private helper of the class that
    gets the array as its argument (inlined by substituting the argument)"""
    cls = _cls(tree, PO, "XYDataSetOnPlot")
    out = []
    for name in ("xvalues", "yvalues", "xerr", "yerr"):
        fn = _method(cls, PO, name)
        body = _body(fn)
        depth = 0
        while len(body) == 1 and isinstance(body[0], ast.Return) and _helper_call(cls, PO, body[0].value):
            helper, mapping = _helper_call(cls, PO, body[0].value)
            body = _subst_params(PO, _body(helper), mapping)
            depth += 1
            if depth > 4:
                raise TranslateError(PO, fn, "{}: helper inlining too deep".format(name))
        if len(body) == 1 and isinstance(body[0], ast.Return) and isinstance(body[0].value, ast.IfExp):
            e = body[0].value
            test, then, other = e.test, e.body, e.orelse
            if isinstance(test, ast.UnaryOp) and isinstance(test.op, ast.Not):
                test, then, other = test.operand, other, then
        else:
            test, tb, ob = _conditional(PO, fn, body)
            then, other = _inline_locals(PO, tb), _inline_locals(PO, ob)
        if not _is_self_attr(test, "_xrange"):
            raise TranslateError(PO, fn, "{}: the decision is not on the truth of self._xrange".format(name))
        sub, plain = then, other

        def arr(e):
            if isinstance(e, ast.Attribute) and _is_self_attr(e.value, "dataset"):
                return e.attr
            raise TranslateError(PO, e, "{}: array is not self.dataset.<attr>".format(name))
        if not (isinstance(sub, ast.Subscript) and isinstance(sub.slice, ast.Call) and not sub.slice.args
                and not sub.slice.keywords and isinstance(sub.slice.func, ast.Attribute)
                and sub.slice.func.attr.endswith("__get_indices_from_xrange") and
                isinstance(sub.slice.func.value, ast.Name) and sub.slice.func.value.id == "self"):
            raise TranslateError(PO, sub, "{}: masked branch is not A[self.__get_indices_from_xrange()]".format(name))
        out.append((name, arr(sub.value), arr(plain)))
    return out


# ---- linspace ---------------------------------------------------------------------------------
def linspace_num(tree):
    cls = _cls(tree, PO, "FunctionOnPlot")
    fn = _method(cls, PO, "xvalues")
    body = _body(fn)
    r = body[-1]
    if not (len(body) == 2 and isinstance(body[0], ast.If) and isinstance(r, ast.Return) and isinstance(r.value, ast.Call)):
        raise TranslateError(PO, fn, "FunctionOnPlot.xvalues: expected 'if not self.xrange: raise; return np.linspace(...)'")
    c = r.value
    f = c.func
    if not (isinstance(f, ast.Attribute) and f.attr == "linspace" and isinstance(f.value, ast.Name) and f.value.id == "np"):
        raise TranslateError(PO, c, "FunctionOnPlot.xvalues: not np.linspace")
    if c.keywords or len(c.args) != 3:
        raise TranslateError(PO, c, "np.linspace: expected exactly (start, stop, num)")

    def idx(e, k):
        return isinstance(e, ast.Subscript) and _is_self_attr(e.value, "xrange") and \
            isinstance(e.slice, ast.Constant) and e.slice.value == k
    if not (idx(c.args[0], 0) and idx(c.args[1], 1)):
        raise TranslateError(PO, c, "np.linspace: start/stop are not self.xrange[0], self.xrange[1]")
    n = c.args[2]
    if not (isinstance(n, ast.Constant) and isinstance(n.value, int) and not isinstance(n.value, bool) and n.value >= 2):
        raise TranslateError(PO, n, "np.linspace: num is not an integer literal >= 2")
    return n.value


# ---- labels -------------------------------------------------------------------------------------
ATTRS = ("xname", "yname", "xunit", "yunit")


def label_expr(cls, name):
    fn = _method(cls, PL, name)
    body = _inlined_body(cls, PL, fn)
    if not (len(body) == 1 and isinstance(body[0], ast.Return)):
        raise TranslateError(PL, fn, "{}: expected a single return".format(name))

    def tr(e):
        if _is_self_attr(e) and e.attr in ATTRS:
            return e.attr
        if isinstance(e, ast.Constant) and isinstance(e.value, str):
            return _text(e.value)
        if isinstance(e, ast.BinOp) and isinstance(e.op, ast.Add):
            return "(app {} {})".format(tr(e.left), tr(e.right))
        if isinstance(e, ast.IfExp):
            if not (_is_self_attr(e.test) and e.test.attr in ATTRS):
                raise TranslateError(PL, e, "{}: condition is not the truthiness of a name/unit".format(name))
            return "(if nonempty {} then {} else {})".format(e.test.attr, tr(e.body), tr(e.orelse))
        if isinstance(e, ast.Call) and isinstance(e.func, ast.Attribute) and e.func.attr == "format" \
                and isinstance(e.func.value, ast.Constant) and isinstance(e.func.value.value, str) \
                and len(e.args) >= 1 and not e.keywords:
            fmt = e.func.value.value
            if fmt.count("{}") != len(e.args) or "{" in fmt.replace("{}", "") or "}" in fmt.replace("{}", ""):
                raise TranslateError(PL, e, "{}: format string is not literal text with one {{}} per argument".format(name))
            pieces = fmt.split("{}")
            if len(e.args) == 1:
                return "(format1 {} {} {})".format(_text(pieces[0]), _text(pieces[1]), tr(e.args[0]))
            out = _text(pieces[-1])                     # "p0{}p1{}p2".format(a, b) = p0 ++ a ++ p1 ++ b ++ p2
            for piece, arg in zip(reversed(pieces[:-1]), reversed(e.args)):
                out = "(app {} (app {} {}))".format(_text(piece), tr(arg), out)
            return out
        raise TranslateError(PL, e, "{}: expression outside the label subset".format(name))
    return tr(body[0].value)


def _name_source_loop(body, name, lits, info_key, err):
    """the same look-up written with a local and a loop:
         v = self._plot_info[lit.K]
         if v: return v
         for obj in self._objects:
             if isinstance(obj, XYObjectOnPlot) and <obj.A | getattr(obj, "A")>: return <obj.A | getattr(obj, "A")>
         return """""
    a, i, loop, r = body
    if not (isinstance(a, ast.Assign) and len(a.targets) == 1 and isinstance(a.targets[0], ast.Name)):
        raise err
    v = a.targets[0].id
    key = info_key(a.value)
    if not (isinstance(i, ast.If) and not i.orelse and isinstance(i.test, ast.Name) and i.test.id == v and len(i.body) == 1
            and isinstance(i.body[0], ast.Return) and isinstance(i.body[0].value, ast.Name) and i.body[0].value.id == v):
        raise err
    if not (isinstance(loop, ast.For) and not loop.orelse and isinstance(loop.target, ast.Name)
            and _is_self_attr(loop.iter, "_objects") and len(loop.body) == 1 and isinstance(loop.body[0], ast.If)
            and not loop.body[0].orelse and len(loop.body[0].body) == 1 and isinstance(loop.body[0].body[0], ast.Return)):
        raise err
    obj = loop.target.id
    if obj == v:
        raise err
    test = loop.body[0].test
    if not (isinstance(test, ast.BoolOp) and isinstance(test.op, ast.And) and len(test.values) == 2):
        raise err
    t = test.values[0]
    if not (isinstance(t, ast.Call) and isinstance(t.func, ast.Name) and t.func.id == "isinstance" and len(t.args) == 2
            and isinstance(t.args[0], ast.Name) and t.args[0].id == obj
            and isinstance(t.args[1], ast.Name) and t.args[1].id == "XYObjectOnPlot"):
        raise TranslateError(PL, t, "{}: candidates are not the XYObjectOnPlot instances".format(name))

    def obj_attr(e):
        if isinstance(e, ast.Attribute) and isinstance(e.value, ast.Name) and e.value.id == obj and e.attr in ATTRS:
            return e.attr
        # getattr(obj, "A") with the attribute name known statically (a string literal after inlining)
        if isinstance(e, ast.Call) and isinstance(e.func, ast.Name) and e.func.id == "getattr" and len(e.args) == 2 \
                and not e.keywords and isinstance(e.args[0], ast.Name) and e.args[0].id == obj \
                and isinstance(e.args[1], ast.Constant) and e.args[1].value in ATTRS:
            return e.args[1].value
        raise TranslateError(PL, e, "{}: attribute of the object cannot be resolved statically".format(name))
    a1, a2 = obj_attr(test.values[1]), obj_attr(loop.body[0].body[0].value)
    if a1 != a2:
        raise TranslateError(PL, loop, "{}: yields {} but filters on {}".format(name, a2, a1))
    if not (isinstance(r, ast.Return) and isinstance(r.value, ast.Constant) and r.value.value == ""):
        raise TranslateError(PL, r, "{}: default is not the empty string".format(name))
    if key not in lits:
        raise TranslateError(PL, a, "{}: unknown literal lit.{}".format(name, key))
    return lits[key], a1


def name_source(cls, name, lits):
    """if self._plot_info[lit.K]: return self._plot_info[lit.K]
       xy_objects = (obj for obj in self._objects if isinstance(obj, XYObjectOnPlot))
       return next((obj.A for obj in xy_objects if obj.A), "")"""
    fn = _method(cls, PL, name)
    body = _inlined_body(cls, PL, fn)
    err = TranslateError(PL, fn, "{}: not of the shape override / first XY object with a non-empty attribute".format(name))

    def info_key(e):
        if isinstance(e, ast.Subscript) and _is_self_attr(e.value, "_plot_info") and isinstance(e.slice, ast.Attribute) \
                and isinstance(e.slice.value, ast.Name) and e.slice.value.id == "lit":
            return e.slice.attr
        raise err
    if len(body) == 4:
        return _name_source_loop(body, name, lits, info_key, err)
    if len(body) != 3:
        raise err
    i, a, r = body
    if not (isinstance(i, ast.If) and not i.orelse and len(i.body) == 1 and isinstance(i.body[0], ast.Return)):
        raise err
    k1, k2 = info_key(i.test), info_key(i.body[0].value)
    if k1 != k2:
        raise TranslateError(PL, i, "{}: tests {} but returns {}".format(name, k1, k2))
    # the generator of XY objects
    g = a.value if isinstance(a, ast.Assign) and len(a.targets) == 1 and isinstance(a.targets[0], ast.Name) else None
    if not (isinstance(g, ast.GeneratorExp) and len(g.generators) == 1 and isinstance(g.elt, ast.Name)
            and _is_self_attr(g.generators[0].iter, "_objects") and len(g.generators[0].ifs) == 1):
        raise err
    t = g.generators[0].ifs[0]
    if not (isinstance(t, ast.Call) and isinstance(t.func, ast.Name) and t.func.id == "isinstance" and len(t.args) == 2
            and isinstance(t.args[1], ast.Name) and t.args[1].id == "XYObjectOnPlot"):
        raise TranslateError(PL, t, "{}: candidates are not the XYObjectOnPlot instances".format(name))
    var = a.targets[0].id
    if not (isinstance(r, ast.Return) and isinstance(r.value, ast.Call) and isinstance(r.value.func, ast.Name)
            and r.value.func.id == "next" and len(r.value.args) == 2):
        raise err
    gen, default = r.value.args
    if not (isinstance(default, ast.Constant) and default.value == ""):
        raise TranslateError(PL, default, "{}: default is not the empty string".format(name))
    if not (isinstance(gen, ast.GeneratorExp) and len(gen.generators) == 1 and isinstance(gen.generators[0].iter, ast.Name)
            and gen.generators[0].iter.id == var and len(gen.generators[0].ifs) == 1):
        raise err
    tgt = gen.generators[0].target.id

    def obj_attr(e):
        if isinstance(e, ast.Attribute) and isinstance(e.value, ast.Name) and e.value.id == tgt and e.attr in ATTRS:
            return e.attr
        raise err
    a1, a2 = obj_attr(gen.elt), obj_attr(gen.generators[0].ifs[0])
    if a1 != a2:
        raise TranslateError(PL, gen, "{}: yields {} but filters on {}".format(name, a1, a2))
    if k1 not in lits:
        raise TranslateError(PL, i, "{}: unknown literal lit.{}".format(name, k1))
    return lits[k1], a1


# ---- the plot's x-domain ---------------------------------------------------------------------------
def domain(cls):
    fn = _method(cls, PL, "xrange")
    body = _body(fn)
    err = TranslateError(PL, fn, "Plot.xrange: unrecognised shape")
    # decision on the truth of self._xrange (early return either way round, or if/else)
    test, then, other = _conditional(PL, fn, body)
    if not _is_self_attr(test, "_xrange"):
        raise err
    if not (len(then) == 1 and isinstance(then[0], ast.Return) and _is_self_attr(then[0].value, "_xrange")):
        raise TranslateError(PL, then[0], "Plot.xrange: a range that was set is not returned as it is")
    if len(other) != 4:
        raise err
    objs, lo, hi, ret = other
    # objs = list(obj for obj in self._objects if isinstance(obj, ObjectWithRange))   (or the list comprehension)
    try:
        v = objs.value
        g = v if isinstance(v, ast.ListComp) else v.args[0]
        if not isinstance(v, ast.ListComp):
            assert isinstance(v, ast.Call) and v.func.id == "list" and len(v.args) == 1 and not v.keywords
            assert isinstance(g, ast.GeneratorExp)
        t = g.generators[0].ifs[0]
        assert len(g.generators) == 1 and _is_self_attr(g.generators[0].iter, "_objects")
        assert isinstance(g.elt, ast.Name) and g.elt.id == g.generators[0].target.id
        assert t.func.id == "isinstance" and t.args[0].id == g.elt.id and t.args[1].id == "ObjectWithRange" \
            and len(g.generators[0].ifs) == 1
        objs_name = objs.targets[0].id
    except (AttributeError, IndexError, AssertionError):
        raise TranslateError(PL, objs, "Plot.xrange: candidates are not the ObjectWithRange instances")

    def bound(st):
        try:
            c = st.value
            agg = c.func.id
            g = c.args[0]
            assert agg in ("min", "max") and len(c.args) == 1 and not c.keywords
            gen = g.generators[0]
            assert isinstance(g, (ast.GeneratorExp, ast.ListComp)) and len(g.generators) == 1
            assert gen.iter.id == objs_name and len(gen.ifs) == 1
            v = gen.target.id
            f = gen.ifs[0]
            assert isinstance(f, ast.Attribute) and f.value.id == v and f.attr == "xrange"
            e = g.elt
            assert isinstance(e, ast.Subscript) and e.value.value.id == v and e.value.attr == "xrange"
            k = e.slice.value
            assert k in (0, 1)
            return st.targets[0].id, agg, k
        except (AttributeError, IndexError, AssertionError):
            raise TranslateError(PL, st, "Plot.xrange: bound is not min/max(obj.xrange[k] for obj in objs if obj.xrange)")
    n_lo, agg_lo, k_lo = bound(lo)
    n_hi, agg_hi, k_hi = bound(hi)
    if len({n_lo, n_hi, objs_name}) != 3:
        raise TranslateError(PL, hi, "Plot.xrange: the two bounds and the candidate list must be three different locals")
    if not (isinstance(ret, ast.Return) and isinstance(ret.value, ast.Tuple) and
            [getattr(e, "id", None) for e in ret.value.elts] == [n_lo, n_hi]):
        raise TranslateError(PL, ret, "Plot.xrange: does not return (low_bound, high_bound)")
    return (agg_lo, k_lo), (agg_hi, k_hi)


def gen_plot(repo):
    import translate
    po = ast.parse(open(os.path.join(repo, PO)).read())
    pl = ast.parse(open(os.path.join(repo, PL)).read())
    lits = translate.load_literals(repo)
    out = ["(* GENERATED by tools/gens/plotgen.py from qexpy/plotting/plotobjects.py and plotting.py -- do not edit *)",
           "From Coq Require Import List ZArith QArith Bool String.",
           "From QV Require Import Model.PlotBase.",
           "Import ListNotations.",
           "Open Scope string_scope.", ""]
    for name, vals in kw_lists(po).items():
        out.append("Definition {} : list string :=\n  [{}].".format(name, "; ".join(coq_string(v) for v in vals)))
    out.append("")
    out.append("(* XYDataSetOnPlot.__get_indices_from_xrange, per element x of self.dataset.xvalues *)")
    out.append("Definition gen_mask (low high x : Q) : bool := {}.".format(mask_expr(po)))
    users = mask_users(po)
    for name, a, b in users:
        if not (a == b == name):
            raise TranslateError(PO, po, "XYDataSetOnPlot.{} reads dataset.{} (masked) / dataset.{} (unmasked)".format(name, a, b))
    out.append("(* XYDataSetOnPlot.xvalues/yvalues/xerr/yerr: each is its own dataset array, masked by the one mask "
               "when an x-range was given (checked by the generator) *)")
    out.append("Definition gen_masked_arrays : list string := [{}].".format("; ".join(coq_string(n) for n, _, _ in users)))
    out.append("")
    out.append("(* FunctionOnPlot.xvalues: np.linspace(self.xrange[0], self.xrange[1], num) *)")
    out.append("Definition gen_linspace_num : nat := {}%nat.".format(linspace_num(po)))
    out.append("")
    plot = _cls(pl, PL, "Plot")
    for nm in ("xlabel", "ylabel"):
        out.append("(* Plot.{} *)".format(nm))
        out.append("Definition gen_{} (xname yname xunit yunit : text) : text :=\n  {}.".format(nm, label_expr(plot, nm)))
    out.append("")
    out.append("(* Plot.xname/yname/xunit/yunit: (key of the explicit override in _plot_info, attribute read from the first\n"
               "   XYObjectOnPlot for which it is non-empty) *)")
    for nm in ATTRS:
        key, attr = name_source(plot, nm, lits)
        out.append("Definition gen_src_{} : string * string := ({}, {}).".format(nm, coq_string(key), coq_string(attr)))
    out.append("")
    (agg_lo, k_lo), (agg_hi, k_hi) = domain(plot)
    A = {"min": "AggMin", "max": "AggMax"}
    out.append("(* Plot.xrange when none was set: aggregate over the x-ranges of the ObjectWithRange instances that have one *)")
    out.append("Definition gen_dom_low : agg * comp := ({}, Comp{}).".format(A[agg_lo], k_lo))
    out.append("Definition gen_dom_high : agg * comp := ({}, Comp{}).".format(A[agg_hi], k_hi))
    return "\n".join(out) + "\n"


GENERATORS = {"PlotGen": gen_plot}
