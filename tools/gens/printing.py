"""PrintingGen: the integer/rational arithmetic of qexpy/utils/printing.py, regenerated from the source text.

Emitted (coq/Gen/PrintingGen.v); everything else in that file is modelled by hand in Model/Printing.v and tied by the
correspondence:
  gen_back_off_exp_err / _val  (order n : Z) : Z   exponent in  back_off = 10 ** (...)   of __round_values_to_sig_figs
  gen_decimals_exp             (order n : Z) : Z   number_of_decimals = ...               of __find_number_of_decimals
  gen_clamp                    (d : Z) : Z         return number_of_decimals if number_of_decimals > 0 else 0
  gen_snap_next, gen_snap_bump (result : Z) : Z    and  gen_snap_factor : Q               of the local helper order_of

How: the two functions are EXECUTED SYMBOLICALLY once per significant-figure mode (the mode is concrete, the two numbers,
the number of figures and the validity of a number are symbols; an `if` on the validity of a number forks).  The result of
each run must be the decision tree the hand-written model has for that mode:

  __round_values_to_sig_figs:  if valid(ref):  (round(value / 10**z) * 10**z, round(error / 10**z) * 10**z)
                               else:           (value, error)
       with ref = error in AUTOMATIC and ERROR mode, value in VALUE mode, z an integer expression in
       floor(log10(abs(ref))) and the number of figures  -> gen_back_off_exp_*
  __find_number_of_decimals:   clamp(d)  with d an integer expression in  (order_of(ref) if valid(ref) else order_of(other))
       and the number of figures  -> gen_decimals_exp, gen_clamp

so the way the code is written (nested or module-level helpers, settings fetched once or twice, mirrored branches or one
"reference" variable, `x if x > 0 else 0` or `max(x, 0)`) does not matter, and anything the executor does not understand
-- an unknown call, another statement form, a different tree -- raises TranslateError (fail closed).
"""
import ast
import os
from decimal import Decimal
from fractions import Fraction

from translate import TranslateError

FILE = "qexpy/utils/printing.py"
MODES = ["AUTOMATIC", "VALUE", "ERROR"]
VALID_REF = ast.dump(ast.parse("not m.isinf(X) and not m.isnan(X) and X != 0", mode="eval").body)


def terr(node, msg):
    raise TranslateError(FILE, node, msg)


# ---- symbolic values ---------------------------------------------------------------------------------
# ("num", "value"|"error")      one of the two inputs
# ("int", k) ("n",) ("order", x) ("orderof", x) ("sel", p, f) ("add", a, b) ("sub", a, b) ("neg", a)   integer expressions
# ("max", a, b)  ("ifz", cmp, a, k, body, orelse)                                                        clamps
# ("pow10", z)   ("quot", num, pow)  ("round", quot)  ("rounded", x, z)
# ("bool", b)    ("valid", x)  ("notvalid", x)     ("enum", name)   ("settings",)   ("tuple", [..])
# ("ifvalid", x, a, b)                              decision on the validity of input x
def is_int(v):
    return v[0] in ("int", "n", "order", "orderof", "sel", "add", "sub", "neg")


class Exec:
    def __init__(self, tree, mode):
        self.tree, self.mode = tree, mode

    # -- helpers of the module / nested helpers
    def module_func(self, name):
        for node in self.tree.body:
            if isinstance(node, ast.FunctionDef) and node.name == name:
                return node
        return None

    def is_valid_helper(self, f):
        body = strip_doc(f.body)
        if len(f.args.args) != 1 or len(body) != 1 or not isinstance(body[0], ast.Return):
            return False
        p = f.args.args[0].arg
        return ast.dump(body[0].value) == VALID_REF.replace("id='X'", "id='{}'".format(p))

    # -- expressions
    def ev(self, node, env):
        if isinstance(node, ast.Constant):
            if type(node.value) is int:
                return ("int", node.value)
            if type(node.value) is bool:
                return ("bool", node.value)
            terr(node, "constant outside the subset: " + ast.unparse(node))
        if isinstance(node, ast.Name):
            if node.id in env:
                return env[node.id]
            terr(node, "unknown name " + node.id)
        if isinstance(node, ast.Tuple):
            return ("tuple", [self.ev(e, env) for e in node.elts])
        if isinstance(node, ast.Attribute):
            if isinstance(node.value, ast.Name) and node.value.id == "SigFigMode" and node.attr in MODES:
                return ("enum", node.attr)
            base = self.ev(node.value, env)
            if base == ("settings",) and node.attr == "sig_fig_mode":
                return ("enum", self.mode)
            if base == ("settings",) and node.attr == "sig_fig_value":
                return ("n",)
            terr(node, "attribute outside the subset: " + ast.unparse(node))
        if isinstance(node, ast.List):
            return ("list", [self.ev(e, env) for e in node.elts])
        if isinstance(node, ast.Compare) and len(node.ops) == 1:
            a, b, op = self.ev(node.left, env), self.ev(node.comparators[0], env), node.ops[0]
            if a[0] == "enum" and b[0] == "enum" and isinstance(op, (ast.Eq, ast.NotEq, ast.Is, ast.IsNot)):
                return ("bool", (a == b) == isinstance(op, (ast.Eq, ast.Is)))
            if a[0] == "enum" and b[0] == "list" and all(x[0] == "enum" for x in b[1]) and isinstance(op, (ast.In, ast.NotIn)):
                return ("bool", (a in b[1]) == isinstance(op, ast.In))
            if is_int(a) and b[0] == "int" and isinstance(op, (ast.Gt, ast.GtE, ast.Lt, ast.LtE)):
                return ("cmp", type(op).__name__, a, b[1])
            terr(node, "comparison outside the subset: " + ast.unparse(node))
        if isinstance(node, ast.BoolOp):
            isand = isinstance(node.op, ast.And)
            acc = None
            for sub in node.values:
                v = self.ev(sub, env)
                if v[0] == "bool":
                    if v[1] != isand:          # short circuit: False in an `and`, True in an `or`
                        return v if acc is None else terr(node, "mixed condition outside the subset")
                    continue                   # neutral element
                if v[0] in ("valid", "notvalid") and acc is None:
                    acc = v
                    continue
                terr(node, "condition outside the subset: " + ast.unparse(node))
            return acc if acc is not None else ("bool", isand)
        if isinstance(node, ast.UnaryOp) and isinstance(node.op, ast.Not):
            v = self.ev(node.operand, env)
            if v[0] == "bool":
                return ("bool", not v[1])
            if v[0] == "valid":
                return ("notvalid", v[1])
            if v[0] == "notvalid":
                return ("valid", v[1])
            terr(node, "negation outside the subset")
        if isinstance(node, ast.UnaryOp) and isinstance(node.op, ast.USub):
            v = self.ev(node.operand, env)
            if is_int(v):
                return ("neg", v)
            terr(node, "unary minus outside the subset")
        if isinstance(node, ast.BinOp):
            if isinstance(node.op, ast.Pow):
                base, z = self.ev(node.left, env), self.ev(node.right, env)
                if base == ("int", 10) and is_int(z):
                    return ("pow10", z)
                terr(node, "power outside the subset: " + ast.unparse(node))
            a, b = self.ev(node.left, env), self.ev(node.right, env)
            if isinstance(node.op, (ast.Add, ast.Sub)) and is_int(a) and is_int(b):
                return ("add" if isinstance(node.op, ast.Add) else "sub", a, b)
            if isinstance(node.op, ast.Div) and a[0] == "num" and b[0] == "pow10":
                return ("quot", a[1], b[1])
            if isinstance(node.op, ast.Mult) and a[0] == "round" and b[0] == "pow10" and a[2] == b[1]:
                return ("rounded", a[1], b[1])
            terr(node, "arithmetic outside the subset: " + ast.unparse(node))
        if isinstance(node, ast.IfExp):
            t = self.ev(node.test, env)
            if t[0] == "bool":
                return self.ev(node.body if t[1] else node.orelse, env)
            if t[0] in ("valid", "notvalid"):
                a, b = self.ev(node.body, env), self.ev(node.orelse, env)
                if t[0] == "notvalid":
                    a, b = b, a
                if a[0] == "orderof" and b[0] == "orderof" and a[1] == t[1] and b[1] != t[1]:
                    return ("sel", a[1], b[1])
                terr(node, "conditional on validity outside the subset: " + ast.unparse(node))
            if t[0] == "cmp":
                return ("ifz", t[1], t[2], t[3], self.ev(node.body, env), self.ev(node.orelse, env))
            terr(node, "conditional outside the subset")
        if isinstance(node, ast.Call):
            return self.call(node, env)
        terr(node, "expression outside the subset: " + ast.unparse(node))

    def call(self, node, env):
        src = ast.unparse(node.func)
        if node.keywords:
            terr(node, "keyword arguments outside the subset")
        if src == "sts.get_settings" and not node.args:
            return ("settings",)
        if src == "m.floor" and len(node.args) == 1 and isinstance(node.args[0], ast.Call) \
                and ast.unparse(node.args[0].func) == "m.log10" and len(node.args[0].args) == 1 \
                and isinstance(node.args[0].args[0], ast.Call) and ast.unparse(node.args[0].args[0].func) == "abs" \
                and len(node.args[0].args[0].args) == 1:
            x = self.ev(node.args[0].args[0].args[0], env)
            if x[0] == "num":
                return ("order", x[1])
            terr(node, "order of magnitude of something that is not one of the two numbers")
        if src == "round" and len(node.args) == 1:
            x = self.ev(node.args[0], env)
            if x[0] == "quot":
                return ("round", x[1], x[2])
            terr(node, "round() of something that is not number / back_off")
        if src == "max" and len(node.args) == 2:
            a, b = self.ev(node.args[0], env), self.ev(node.args[1], env)
            if is_int(a) and is_int(b):
                return ("max", a, b)
            terr(node, "max() outside the subset")
        if isinstance(node.func, ast.Name):
            name = node.func.id
            f = env.get(("func", name)) or self.module_func(name)
            if f is None:
                terr(node, "call of an unknown function " + name)
            if self.is_valid_helper(f) and len(node.args) == 1:
                x = self.ev(node.args[0], env)
                if x[0] == "num":
                    return ("valid", x[1])
                terr(node, "validity of something that is not one of the two numbers")
            if name == "order_of" and env.get(("func", name)) is not None and len(node.args) == 1:
                x = self.ev(node.args[0], env)       # the local helper of __find_number_of_decimals, translated separately
                if x[0] == "num":
                    return ("orderof", x[1])
                terr(node, "order_of of something that is not one of the two numbers")
            # a private helper with a single return: inline it
            body = strip_doc(f.body)
            if len(body) == 1 and isinstance(body[0], ast.Return) and len(f.args.args) == len(node.args) \
                    and not f.args.vararg and not f.args.kwarg and not f.args.kwonlyargs:
                inner = {k: v for k, v in env.items() if isinstance(k, tuple)}
                for a, arg in zip(f.args.args, node.args):
                    inner[a.arg] = self.ev(arg, env)
                return self.ev(body[0].value, inner)
        terr(node, "call outside the subset: " + ast.unparse(node))

    # -- statements; returns the value returned by the block, or None when it falls through (env updated in place)
    def run(self, stmts, env):
        for i, st in enumerate(stmts):
            if isinstance(st, ast.Expr) and isinstance(st.value, ast.Constant) and isinstance(st.value.value, str):
                continue
            if isinstance(st, ast.FunctionDef):
                env[("func", st.name)] = st
                continue
            if isinstance(st, ast.Assign) and len(st.targets) == 1:
                tgt, val = st.targets[0], self.ev(st.value, env)
                if isinstance(tgt, ast.Name):
                    env[tgt.id] = val
                elif isinstance(tgt, ast.Tuple) and val[0] == "tuple" and len(tgt.elts) == len(val[1]) \
                        and all(isinstance(e, ast.Name) for e in tgt.elts):
                    for e, v in zip(tgt.elts, val[1]):
                        env[e.id] = v
                else:
                    terr(st, "assignment outside the subset")
                continue
            if isinstance(st, ast.Return):
                return self.ev(st.value, env)
            if isinstance(st, ast.If):
                t = self.ev(st.test, env)
                rest = stmts[i + 1:]
                if t[0] == "bool":
                    return self.run((st.body if t[1] else st.orelse) + rest, env)
                if t[0] in ("valid", "notvalid"):
                    a = self.run(st.body + rest, dict(env))
                    b = self.run(st.orelse + rest, dict(env))
                    if a is None or b is None:
                        terr(st, "a path falls off the end of the function")
                    if t[0] == "notvalid":
                        a, b = b, a
                    return ("ifvalid", t[1], a, b)
                terr(st, "if-condition outside the subset: " + ast.unparse(st.test))
            terr(st, "statement outside the subset: " + type(st).__name__)
        return None


def strip_doc(body):
    return [s for s in body if not (isinstance(s, ast.Expr) and isinstance(s.value, ast.Constant)
                                    and isinstance(s.value.value, str))]


# ---- printing integer expressions as Gallina ---------------------------------------------------------------
def zcoq(v, ordername):
    """[ordername]: what the order-of-magnitude leaves are called in the emitted definition"""
    k = v[0]
    if k == "int":
        return "({})".format(v[1])
    if k == "n":
        return "n"
    if k in ("order", "orderof", "sel"):
        return ordername
    if k == "neg":
        return "(- {})".format(zcoq(v[1], ordername))
    if k in ("add", "sub"):
        return "({} {} {})".format(zcoq(v[1], ordername), "+" if k == "add" else "-", zcoq(v[2], ordername))
    raise ValueError(v)


def leaves(v):
    if v[0] in ("order", "orderof", "sel"):
        return [v]
    if v[0] in ("neg",):
        return leaves(v[1])
    if v[0] in ("add", "sub"):
        return leaves(v[1]) + leaves(v[2])
    return []


def find_func(tree, name, parent=None):
    for node in ast.walk(parent or tree):
        if isinstance(node, ast.FunctionDef) and node.name == name:
            return node
    terr(tree, "function {} not found".format(name))


def qexpr(node):
    """rational constant expression: numeric literals (read as the decimals they are written as), + - *"""
    if isinstance(node, ast.Constant) and isinstance(node.value, (int, float)) and not isinstance(node.value, bool):
        fr = Fraction(Decimal(repr(node.value)))
        return "({} # {})".format(fr.numerator, fr.denominator)
    if isinstance(node, ast.BinOp) and isinstance(node.op, (ast.Add, ast.Sub, ast.Mult)):
        op = {ast.Add: "+", ast.Sub: "-", ast.Mult: "*"}[type(node.op)]
        return "({} {} {})".format(qexpr(node.left), op, qexpr(node.right))
    terr(node, "rational constant outside the subset: " + ast.unparse(node))


def zexpr_plain(node, env):
    if isinstance(node, ast.Name) and node.id in env:
        return env[node.id]
    if isinstance(node, ast.Constant) and type(node.value) is int:
        return "({})".format(node.value)
    if isinstance(node, ast.BinOp) and isinstance(node.op, (ast.Add, ast.Sub)):
        return "({} {} {})".format(zexpr_plain(node.left, env), "+" if isinstance(node.op, ast.Add) else "-",
                                   zexpr_plain(node.right, env))
    terr(node, "integer expression outside the subset: " + ast.unparse(node))


def gen_printing(repo):
    src = open(os.path.join(repo, FILE)).read()
    tree = ast.parse(src)
    out = ["(** GENERATED by tools/gens/printing.py from {} -- do not edit. *)".format(FILE),
           "From Coq Require Import ZArith QArith.", "Open Scope Z_scope.", ""]
    ref_of = {"AUTOMATIC": "error", "ERROR": "error", "VALUE": "value"}

    # --- __round_values_to_sig_figs, once per mode
    rv = find_func(tree, "__round_values_to_sig_figs")
    if [a.arg for a in rv.args.args] != ["value", "error"]:
        terr(rv, "parameters are not (value, error)")
    exps = {}
    for mode in MODES:
        res = Exec(tree, mode).run(rv.body, {"value": ("num", "value"), "error": ("num", "error")})
        ref = ref_of[mode]
        if not (res and res[0] == "ifvalid" and res[1] == ref):
            terr(rv, "in mode {} the rounding is not guarded by the validity of the {}".format(mode, ref))
        if res[3] != ("tuple", [("num", "value"), ("num", "error")]):
            terr(rv, "in mode {} an invalid {} does not return the pair unchanged".format(mode, ref))
        good = res[2]
        if not (good[0] == "tuple" and len(good[1]) == 2 and good[1][0][0] == "rounded" and good[1][1][0] == "rounded"
                and good[1][0][1] == "value" and good[1][1][1] == "error" and good[1][0][2] == good[1][1][2]):
            terr(rv, "in mode {} the result is not (round(value / b) * b, round(error / b) * b) with one b = 10 ** z".format(mode))
        z = good[1][0][2]
        lv = leaves(z)
        if not lv or any(x != ("order", ref) for x in lv):
            terr(rv, "in mode {} the back-off does not use floor(log10(abs({}))) only".format(mode, ref))
        exps[mode] = zcoq(z, "order")
    if exps["AUTOMATIC"] != exps["ERROR"]:
        terr(rv, "AUTOMATIC and ERROR mode use different back-off exponents")
    out.append("Definition gen_back_off_exp_err (order n : Z) : Z := {}.".format(exps["ERROR"]))
    out.append("Definition gen_back_off_exp_val (order n : Z) : Z := {}.".format(exps["VALUE"]))

    # --- __find_number_of_decimals, once per mode
    fd = find_func(tree, "__find_number_of_decimals")
    if [a.arg for a in fd.args.args] != ["value", "error"]:
        terr(fd, "parameters are not (value, error)")
    shapes = set()
    for mode in MODES:
        res = Exec(tree, mode).run(fd.body, {"value": ("num", "value"), "error": ("num", "error")})
        ref = ref_of[mode]
        other = "value" if ref == "error" else "error"
        if res is None:
            terr(fd, "falls off the end")
        if res[0] == "max":
            a, b = res[1], res[2]
            if a[0] == "int":
                a, b = b, a
            if b[0] != "int":
                terr(fd, "max() of two non-constants")
            d, clamp = a, "Z.max d ({})".format(b[1])
        elif res[0] == "ifz":
            _, op, d, k, body, orelse = res
            cmpop = {"Gt": "({} <? d)", "GtE": "({} <=? d)", "Lt": "(d <? {})", "LtE": "(d <=? {})"}[op].format(k)

            def side(x):
                if x == d:
                    return "d"
                if x[0] == "int":
                    return "({})".format(x[1])
                terr(fd, "clamp branch is neither the number of decimals nor a constant")
            clamp = "if {} then {} else {}".format(cmpop, side(body), side(orelse))
        else:
            terr(fd, "the result is not a clamped number of decimals")
        lv = leaves(d)
        if not lv or any(x != ("sel", ref, other) for x in lv):
            terr(fd, "in mode {} the decimals do not come from order_of({}) if valid else order_of({})".format(mode, ref, other))
        shapes.add((zcoq(d, "order"), clamp))
    if len(shapes) != 1:
        terr(fd, "the three modes compute the number of decimals differently")
    dexp, clamp = shapes.pop()
    out.append("Definition gen_decimals_exp (order n : Z) : Z := {}.".format(dexp))
    out.append("Definition gen_clamp (d : Z) : Z := {}.".format(clamp))

    # --- the local helper order_of
    oo = find_func(tree, "order_of", fd)
    body = strip_doc(oo.body)
    if len(oo.args.args) != 1 or oo.args.args[0].arg != "number":
        terr(oo, "order_of does not take one parameter `number`")
    if len(body) < 2 or not isinstance(body[0], ast.Assign):
        terr(oo, "order_of does not begin with `result = ...`")
    if ast.unparse(body[0].targets[0]) != "result" or \
            Exec(tree, "ERROR").ev(body[0].value, {"number": ("num", "error")}) != ("order", "error"):
        terr(body[0], "result is not m.floor(m.log10(abs(number)))")
    # the rest is one decision `A if T else B`, written as a conditional expression, as `if T: return A` followed by
    # `return B`, or as `if T: return A else: return B`
    rest = body[1:]

    def single_return(stmts):
        return stmts[0].value if len(stmts) == 1 and isinstance(stmts[0], ast.Return) and stmts[0].value is not None else None
    if len(rest) == 1 and isinstance(rest[0], ast.Return) and isinstance(rest[0].value, ast.IfExp):
        test, r_then, r_else = rest[0].value.test, rest[0].value.body, rest[0].value.orelse
    elif len(rest) == 2 and isinstance(rest[0], ast.If) and not rest[0].orelse and single_return(rest[0].body) is not None \
            and single_return(rest[1:]) is not None:
        test, r_then, r_else = rest[0].test, single_return(rest[0].body), single_return(rest[1:])
    elif len(rest) == 1 and isinstance(rest[0], ast.If) and single_return(rest[0].body) is not None \
            and single_return(rest[0].orelse) is not None:
        test, r_then, r_else = rest[0].test, single_return(rest[0].body), single_return(rest[0].orelse)
    else:
        terr(oo, "order_of is not `result = ...` followed by one decision between two returned values")

    class _R:      # the decision, in the shape the checks below were written for
        pass
    r = _R()
    r.test, r.body, r.orelse = test, r_then, r_else
    if not (isinstance(r.test, ast.Compare) and len(r.test.ops) == 1
            and isinstance(r.test.ops[0], ast.GtE) and ast.unparse(r.test.left) == "abs(number)"):
        terr(oo, "order_of does not decide on `abs(number) >= ...`")
    rhs = r.test.comparators[0]
    if not (isinstance(rhs, ast.BinOp) and isinstance(rhs.op, ast.Mult) and isinstance(rhs.left, ast.BinOp)
            and isinstance(rhs.left.op, ast.Pow) and isinstance(rhs.left.left, ast.Constant)
            and rhs.left.left.value == 10 and type(rhs.left.left.value) is int):
        terr(rhs, "threshold is not 10 ** (...) * <factor>")
    env = {"result": "result"}
    out.append("Definition gen_snap_next (result : Z) : Z := {}.".format(zexpr_plain(rhs.left.right, env)))
    out.append("Definition gen_snap_bump (result : Z) : Z := {}.".format(zexpr_plain(r.body, env)))
    if not (isinstance(r.orelse, ast.Name) and r.orelse.id == "result"):
        terr(r.orelse, "order_of's other branch is not `result`")
    out.append("Open Scope Q_scope.")
    out.append("Definition gen_snap_factor : Q := {}.".format(qexpr(rhs.right)))
    return "\n".join(out) + "\n"


GENERATORS = {"PrintingGen": gen_printing}
