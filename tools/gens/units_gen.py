"""Generator UnitsGen: qexpy/utils/units.py (table + exponent arithmetic) -> coq/Gen/UnitsGen.v

Translated, fail-closed (anything outside the recognised subset raises TranslateError):
  * the key set of operations.OPERATIONS            -> Inductive opname
  * units.UNIT_OPERATIONS  (lit.X : __function)     -> unit_operations : opname -> option ufn, apply_ufn (arity from the def)
  * units.__update_unit_exponent_count_in_dict      -> update_count
  * units.__neg __add_and_sub __mul __div __sqrt (whatever functions the table names)
                                                    -> f_<name> : umap -> [umap ->] umap * bool   (bool = a warning was issued)
The statement subset is the one these functions are written in: NAME = OrderedDict(), for k, v in X.items(): <one update>,
if <condition>: ... return, warnings.warn(...), return NAME / OrderedDict() / deepcopy(NAME); conditions over dict truthiness,
not/and/or and (in)equality of dict(A), dict(B) (order-insensitive) or of the bare OrderedDicts (order-SENSITIVE); exponent
expressions over + - * / unary minus, integer literals, `0 if k not in d else d[k]` / `d[k] if k in d else 0` (d[k] only
under such a membership guard: an unguarded d[k] may raise KeyError) and `d.get(k, 0)`.
Common maintenance rewrites are accepted and NORMALISED to the same Gallina shapes (so that the proofs keep checking):
  * `OrderedDict((k, e) for k, v in X.items())` = the loop `new = OrderedDict(); for k, v in X.items(): new[k] = e`;
  * a call statement of a private module-level helper that only mutates the dict passed as an argument (no return, does not
    rebind its parameters) is INLINED: parameters are replaced by the argument names / boolean constants (keyword and default
    values included), `a if flag else b` with a constant flag is decided, the helper's local names are renamed apart;
  * `if c: ... return ... else: ...`, and early returns in any order.
Everything else still raises TranslateError; an ill-typed result is rejected by coqc (the build breaks).
"""
import copy
import ast
import os

import translate
from translate import TranslateError

UNITS = "qexpy/utils/units.py"
OPS = "qexpy/data/operations.py"


def _parse(repo, rel):
    return ast.parse(open(os.path.join(repo, rel)).read())


def _top_assign(tree, name, rel):
    for node in tree.body:
        if isinstance(node, ast.Assign) and len(node.targets) == 1 and isinstance(node.targets[0], ast.Name) \
                and node.targets[0].id == name:
            return node
    raise TranslateError(rel, tree, "no top-level assignment to " + name)


def _lit_key(k, lits, rel):
    if isinstance(k, ast.Attribute) and isinstance(k.value, ast.Name) and k.value.id == "lit" and k.attr in lits:
        return lits[k.attr]
    raise TranslateError(rel, k, "dictionary key is not lit.NAME")


def _ident(s):
    out = "".join(c if c.isalnum() else "_" for c in s)
    return out


class FnTr:
    """one function of the dict-program subset -> Gallina"""

    def __init__(self, fn, mutator=False, helpers=None):
        self.fn, self.mutator = fn, mutator
        self.helpers = helpers or {}
        self.fresh = 0
        self.depth = 0
        self.params = [a.arg for a in fn.args.args]
        if fn.args.vararg or fn.args.kwarg or fn.args.kwonlyargs or fn.args.defaults:
            self.err(fn, "parameters")
        self.qvars = set()      # names bound to exponents / symbols

    def err(self, node, msg):
        raise TranslateError(UNITS, node, "{}: {}".format(self.fn.name, msg))

    @staticmethod
    def v(name):
        return "v_" + name

    # ---- exponent (Q) expressions
    def qexpr(self, e, guarded=frozenset()):
        """guarded: set of (dict name, key source text) for which `key in dict` is known to hold here"""
        if isinstance(e, ast.Name):
            return self.v(e.id)
        if isinstance(e, ast.Constant) and isinstance(e.value, int) and not isinstance(e.value, bool):
            return "({} # 1)".format(e.value)
        if isinstance(e, ast.UnaryOp) and isinstance(e.op, ast.USub):
            return "(- {})".format(self.qexpr(e.operand, guarded))
        if isinstance(e, ast.BinOp) and type(e.op) in (ast.Add, ast.Sub, ast.Mult, ast.Div):
            op = {ast.Add: "+", ast.Sub: "-", ast.Mult: "*", ast.Div: "/"}[type(e.op)]
            return "({} {} {})".format(self.qexpr(e.left, guarded), op, self.qexpr(e.right, guarded))
        if isinstance(e, ast.Subscript) and isinstance(e.value, ast.Name):
            if (e.value.id, ast.unparse(e.slice)) not in guarded:
                self.err(e, "d[k] without a membership guard (may raise KeyError)")
            return "(u_get {} {})".format(self.v(e.value.id), self.qexpr(e.slice, guarded))
        if isinstance(e, ast.Call) and isinstance(e.func, ast.Attribute) and e.func.attr == "get" \
                and isinstance(e.func.value, ast.Name) and len(e.args) == 2 and not e.keywords \
                and isinstance(e.args[1], ast.Constant) and e.args[1].value == 0 and not isinstance(e.args[1].value, bool):
            return "(u_get {} {})".format(self.v(e.func.value.id), self.qexpr(e.args[0], guarded))   # d.get(k, 0)
        if isinstance(e, ast.IfExp):
            t = e.test
            if isinstance(t, ast.Constant) and isinstance(t.value, bool):      # decided after inlining a helper
                return self.qexpr(e.body if t.value else e.orelse, guarded)
            g_then, g_else = guarded, guarded
            if isinstance(t, ast.Compare) and len(t.ops) == 1 and isinstance(t.comparators[0], ast.Name):
                key = (t.comparators[0].id, ast.unparse(t.left))
                if isinstance(t.ops[0], ast.In):
                    g_then = guarded | {key}
                elif isinstance(t.ops[0], ast.NotIn):
                    g_else = guarded | {key}
            return "(if {} then {} else {})".format(self.cond(t), self.qexpr(e.body, g_then), self.qexpr(e.orelse, g_else))
        self.err(e, "exponent expression " + ast.dump(e)[:60])

    # ---- conditions
    def dict_of(self, e):
        """dict(NAME) -> NAME"""
        if isinstance(e, ast.Call) and isinstance(e.func, ast.Name) and e.func.id == "dict" and len(e.args) == 1 \
                and not e.keywords and isinstance(e.args[0], ast.Name):
            return self.v(e.args[0].id)
        return None

    def cond(self, e):
        if isinstance(e, ast.Constant) and isinstance(e.value, bool):
            return "true" if e.value else "false"
        if isinstance(e, ast.Name):
            return "(negb (u_empty {}))".format(self.v(e.id))
        if isinstance(e, ast.UnaryOp) and isinstance(e.op, ast.Not):
            return "(negb {})".format(self.cond(e.operand))
        if isinstance(e, ast.BoolOp):
            op = "&&" if isinstance(e.op, ast.And) else "||"
            return "(" + (" " + op + " ").join(self.cond(x) for x in e.values) + ")"
        if isinstance(e, ast.Compare) and len(e.ops) == 1:
            l, r, op = e.left, e.comparators[0], e.ops[0]
            if isinstance(op, (ast.In, ast.NotIn)) and isinstance(r, ast.Name):
                t = "(u_mem {} {})".format(self.qexpr(l), self.v(r.id))
                return t if isinstance(op, ast.In) else "(negb {})".format(t)
            if isinstance(op, (ast.Eq, ast.NotEq)):
                dl, dr = self.dict_of(l), self.dict_of(r)
                if dl and dr:
                    t = "(dict_eqb {} {})".format(dl, dr)
                elif isinstance(l, ast.Name) and isinstance(r, ast.Name):
                    t = "(odict_eqb {} {})".format(self.v(l.id), self.v(r.id))   # OrderedDict comparison: order-sensitive
                else:
                    self.err(e, "comparison operands")
                return t if isinstance(op, ast.Eq) else "(negb {})".format(t)
        self.err(e, "condition " + ast.dump(e)[:60])

    # ---- dict-valued expressions
    def dexpr(self, e):
        if isinstance(e, ast.Name):
            return self.v(e.id)
        if isinstance(e, ast.Call) and isinstance(e.func, ast.Name) and not e.keywords:
            if e.func.id == "OrderedDict" and not e.args:
                return "[]"
            if e.func.id == "OrderedDict" and len(e.args) == 1 and isinstance(e.args[0], ast.GeneratorExp):
                return self.genexp(e.args[0])
            if e.func.id == "deepcopy" and len(e.args) == 1 and isinstance(e.args[0], ast.Name):
                return self.v(e.args[0].id)
        self.err(e, "dict expression " + ast.dump(e)[:60])

    def genexp(self, g):
        """OrderedDict((k, e) for k, v in X.items()): the pairs are inserted one after the other into a new dict"""
        if len(g.generators) != 1:
            self.err(g, "generator expression")
        c = g.generators[0]
        if c.ifs or c.is_async or not (isinstance(c.target, ast.Tuple) and len(c.target.elts) == 2
                                       and all(isinstance(x, ast.Name) for x in c.target.elts)) \
                or not (isinstance(c.iter, ast.Call) and isinstance(c.iter.func, ast.Attribute) and c.iter.func.attr == "items"
                        and not c.iter.args and isinstance(c.iter.func.value, ast.Name)) \
                or not (isinstance(g.elt, ast.Tuple) and len(g.elt.elts) == 2):
            self.err(g, "generator expression")
        k, v = c.target.elts[0].id, c.target.elts[1].id
        self.fresh += 1
        acc = "v__new{}".format(self.fresh)
        return "(fold_left (fun {a} kv => let '({k}, {v}) := kv in u_set {a} {ke} {ve}) {src} [])".format(
            a=acc, k=self.v(k), v=self.v(v), ke=self.qexpr(g.elt.elts[0]), ve=self.qexpr(g.elt.elts[1]),
            src=self.v(c.iter.func.value.id))

    # ---- inlining of private helpers that mutate a dict argument
    def inline(self, call):
        """the statements of the helper, with parameters replaced by the arguments, or None if [call] is no helper call"""
        if not (isinstance(call.func, ast.Name) and call.func.id in self.helpers):
            return None
        h = self.helpers[call.func.id]
        if self.depth >= 3:
            self.err(call, "helper calls nested too deeply")
        a = h.args
        if a.vararg or a.kwarg or a.kwonlyargs or a.posonlyargs:
            self.err(call, "helper {}: parameter kinds".format(h.name))
        params = [x.arg for x in a.args]
        bound = {}
        if len(call.args) > len(params):
            self.err(call, "helper {}: too many arguments".format(h.name))
        for pname, arg in zip(params, call.args):
            bound[pname] = arg
        for kw in call.keywords:
            if kw.arg is None or kw.arg not in params or kw.arg in bound:
                self.err(call, "helper {}: keyword argument".format(h.name))
            bound[kw.arg] = kw.value
        for pname, d in zip(params[len(params) - len(a.defaults):], a.defaults):
            bound.setdefault(pname, d)
        if set(bound) != set(params):
            self.err(call, "helper {}: missing argument".format(h.name))
        for pname, arg in bound.items():
            if not (isinstance(arg, ast.Name) or (isinstance(arg, ast.Constant) and isinstance(arg.value, bool))):
                self.err(call, "helper {}: argument {} is neither a name nor a boolean constant".format(h.name, pname))
        body = copy.deepcopy(translate.strip_doc(h.body))
        local = set()
        for node in body:
            for n in ast.walk(node):
                if isinstance(n, (ast.Return, ast.Global, ast.Nonlocal, ast.Yield, ast.YieldFrom, ast.Lambda, ast.FunctionDef)):
                    self.err(call, "helper {}: {} in a helper".format(h.name, type(n).__name__))
                if isinstance(n, (ast.AugAssign, ast.AnnAssign, ast.NamedExpr, ast.Delete, ast.With, ast.Try, ast.While)):
                    self.err(call, "helper {}: {} in a helper".format(h.name, type(n).__name__))
                if isinstance(n, ast.Name) and isinstance(n.ctx, ast.Store):
                    if n.id in params:
                        self.err(call, "helper {}: rebinds its parameter {}".format(h.name, n.id))
                    local.add(n.id)
        self.fresh += 1
        ren = {n: "{}__h{}".format(n, self.fresh) for n in local}

        class Sub(ast.NodeTransformer):
            def visit_Name(_, n):   # noqa: N805
                if n.id in bound:
                    return copy.deepcopy(bound[n.id])
                if n.id in ren:
                    return ast.copy_location(ast.Name(id=ren[n.id], ctx=n.ctx), n)
                return n
        return [ast.fix_missing_locations(Sub().visit(node)) for node in body]

    # ---- statements
    def update_stmt(self, s, k, v):
        """the single statement of a for body: returns (target, Gallina for the new value of target)"""
        if isinstance(s, ast.Expr) and isinstance(s.value, ast.Call) and isinstance(s.value.func, ast.Name) \
                and s.value.func.id == "__update_unit_exponent_count_in_dict" and len(s.value.args) == 3 \
                and not s.value.keywords and isinstance(s.value.args[0], ast.Name):
            tgt = s.value.args[0].id
            return tgt, "update_count {} {} {}".format(self.v(tgt), self.qexpr(s.value.args[1]), self.qexpr(s.value.args[2]))
        if isinstance(s, ast.Assign) and len(s.targets) == 1 and isinstance(s.targets[0], ast.Subscript) \
                and isinstance(s.targets[0].value, ast.Name):
            tgt = s.targets[0].value.id
            return tgt, "u_set {} {} {}".format(self.v(tgt), self.qexpr(s.targets[0].slice), self.qexpr(s.value))
        self.err(s, "loop body statement")

    def stmts(self, body, warned, ind):
        pad = "  " * ind
        if not body:
            if self.mutator:
                return pad + self.v(self.params[0])
            self.err(self.fn, "a path reaches the end of the function without return")
        s, rest = body[0], body[1:]
        if isinstance(s, ast.Return):
            if self.mutator or s.value is None:
                self.err(s, "return in a mutator / bare return")
            return pad + "({}, {})".format(self.dexpr(s.value), "true" if warned else "false")
        if isinstance(s, ast.Expr) and isinstance(s.value, ast.Call) and ast.unparse(s.value.func) == "warnings.warn":
            return self.stmts(rest, True, ind)
        if isinstance(s, ast.Expr) and isinstance(s.value, ast.Call):
            inl = self.inline(s.value)
            if inl is not None:
                self.depth += 1
                try:
                    return self.stmts(inl + rest, warned, ind)
                finally:
                    self.depth -= 1
        if isinstance(s, ast.Assign) and len(s.targets) == 1 and isinstance(s.targets[0], ast.Name):
            name = s.targets[0].id
            if isinstance(s.value, ast.Call) and isinstance(s.value.func, ast.Name) and s.value.func.id in ("OrderedDict", "deepcopy"):
                val = self.dexpr(s.value)
            else:
                val = self.qexpr(s.value)
            return pad + "let {} := {} in\n".format(self.v(name), val) + self.stmts(rest, warned, ind)
        if isinstance(s, ast.Assign) and len(s.targets) == 1 and isinstance(s.targets[0], ast.Subscript):
            tgt, val = self.update_stmt(s, None, None)
            return pad + "let {} := {} in\n".format(self.v(tgt), val) + self.stmts(rest, warned, ind)
        if isinstance(s, ast.For) and not s.orelse and isinstance(s.target, ast.Tuple) and len(s.target.elts) == 2 \
                and all(isinstance(x, ast.Name) for x in s.target.elts) and isinstance(s.iter, ast.Call) \
                and isinstance(s.iter.func, ast.Attribute) and s.iter.func.attr == "items" and not s.iter.args \
                and isinstance(s.iter.func.value, ast.Name) and len(s.body) == 1:
            k, v = s.target.elts[0].id, s.target.elts[1].id
            src = s.iter.func.value.id
            tgt, val = self.update_stmt(s.body[0], k, v)
            if tgt == src:
                self.err(s, "loop mutates the dict it iterates over")
            return pad + "let {t} := fold_left (fun {t} kv => let '({k}, {v}) := kv in {val}) {src} {t} in\n".format(
                t=self.v(tgt), k=self.v(k), v=self.v(v), val=val, src=self.v(src)) + self.stmts(rest, warned, ind)
        if isinstance(s, ast.If):
            if not self.always_returns(s.body):
                self.err(s, "if-body that does not end in return")
            return pad + "if {} then\n{}\n{}else\n{}".format(
                self.cond(s.test), self.stmts(s.body, warned, ind + 1), pad, self.stmts(list(s.orelse) + rest, warned, ind + 1))
        self.err(s, "statement " + type(s).__name__)

    def always_returns(self, body):
        if not body:
            return False
        last = body[-1]
        if isinstance(last, ast.Return):
            return True
        return isinstance(last, ast.If) and bool(last.orelse) and self.always_returns(last.body) and self.always_returns(last.orelse)

    def gallina(self, gname, types, rettype):
        body = translate.strip_doc(self.fn.body)
        args = " ".join("({} : {})".format(self.v(p), t) for p, t in zip(self.params, types))
        return "Definition {} {} : {} :=\n{}.\n".format(gname, args, rettype, self.stmts(body, False, 1))


def gen_units(repo):
    lits = translate.load_literals(repo)
    utree, otree = _parse(repo, UNITS), _parse(repo, OPS)
    # operator vocabulary: keys of OPERATIONS
    opsd = _top_assign(otree, "OPERATIONS", OPS).value
    if not isinstance(opsd, ast.Dict):
        raise TranslateError(OPS, opsd, "OPERATIONS is not a dict literal")
    opnames = [_lit_key(k, lits, OPS) for k in opsd.keys]
    if len(set(opnames)) != len(opnames):
        raise TranslateError(OPS, opsd, "duplicate operator literal")
    # UNIT_OPERATIONS
    tab = _top_assign(utree, "UNIT_OPERATIONS", UNITS).value
    if not isinstance(tab, ast.Dict):
        raise TranslateError(UNITS, tab, "UNIT_OPERATIONS is not a dict literal")
    table = []
    for k, v in zip(tab.keys, tab.values):
        key = _lit_key(k, lits, UNITS)
        if key not in opnames:
            raise TranslateError(UNITS, k, "UNIT_OPERATIONS key {} is not an operator of OPERATIONS".format(key))
        if not isinstance(v, ast.Name):
            raise TranslateError(UNITS, v, "UNIT_OPERATIONS value is not a function name")
        table.append((key, v.id))
    if len(set(k for k, _ in table)) != len(table):
        raise TranslateError(UNITS, tab, "duplicate key in UNIT_OPERATIONS")
    fdefs = {n.name: n for n in utree.body if isinstance(n, ast.FunctionDef)}
    fnames = []
    for _, f in table:
        if f not in fnames:
            fnames.append(f)
    for f in fnames + ["__update_unit_exponent_count_in_dict"]:
        if f not in fdefs:
            raise TranslateError(UNITS, tab, "function {} not found".format(f))

    def gname(f):
        return "f_" + _ident(f.lstrip("_"))

    def cname(f):
        return "F_" + _ident(f.lstrip("_"))

    out = ["(* GENERATED by tools/gens/units_gen.py from qexpy/utils/units.py and qexpy/data/operations.py -- do not edit *)",
           "From Coq Require Import List QArith Bool PArith.",
           "From QV Require Import Model.UnitsBase.",
           "Import ListNotations.",
           "Open Scope Q_scope.",
           "",
           "(* the operators a Formula can carry: keys of operations.OPERATIONS *)",
           "Inductive opname := " + " | ".join("OP_" + _ident(o) for o in opnames) + ".",
           "Definition all_opnames : list opname := [" + "; ".join("OP_" + _ident(o) for o in opnames) + "].",
           "",
           "(* the functions named by units.UNIT_OPERATIONS *)",
           "Inductive ufn := " + " | ".join(cname(f) for f in fnames) + ".",
           "",
           "(* UNIT_OPERATIONS: operators that are not keys give None *)",
           "Definition unit_operations (o : opname) : option ufn :=",
           "  match o with"]
    for k, f in table:
        out.append("  | OP_{} => Some {}".format(_ident(k), cname(f)))
    if len(table) < len(opnames):
        out.append("  | _ => None")
    out += ["  end.", ""]
    helpers = {n: f for n, f in fdefs.items() if n not in fnames and n != "__update_unit_exponent_count_in_dict"}
    upd = FnTr(fdefs["__update_unit_exponent_count_in_dict"], mutator=True, helpers=helpers)
    if len(upd.params) != 3:
        raise TranslateError(UNITS, upd.fn, "update helper arity")
    out.append("(* __update_unit_exponent_count_in_dict: returns the mutated dictionary *)")
    out.append(upd.gallina("update_count", ["umap", "sym", "Q"], "umap"))
    arities = {}
    for f in fnames:
        tr = FnTr(fdefs[f], helpers=helpers)
        arities[f] = len(tr.params)
        if arities[f] not in (1, 2):
            raise TranslateError(UNITS, tr.fn, "arity")
        out.append("(* {} ; the boolean says whether warnings.warn was called *)".format(f))
        out.append(tr.gallina(gname(f), ["umap"] * arities[f], "umap * bool"))
    out += ["(* UNIT_OPERATIONS[operator] applied to the operands: None = TypeError (wrong number of operands) *)",
            "Definition apply_ufn (f : ufn) (args : list umap) : option (umap * bool) :=",
            "  match f, args with"]
    for f in fnames:
        if arities[f] == 1:
            out.append("  | {}, [a] => Some ({} a)".format(cname(f), gname(f)))
        else:
            out.append("  | {}, [a; b] => Some ({} a b)".format(cname(f), gname(f)))
    out += ["  | _, _ => None", "  end.", ""]
    return "\n".join(out)


GENERATORS = {"UnitsGen": gen_units}
