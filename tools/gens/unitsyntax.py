"""Generator UnitSyntaxGen: the literals of the unit-string parser and printer of qexpy/utils/units.py.

What is regenerated from the source text on every run (C12, C13):
  * the dot sign and the arguments of the `.replace(...)` pre-processing call
  * the regular-expression literals of the lexer (after `.format`), compared in Proofs/ with the
    patterns the hand-written lexer model was written for
  * whether the coverage check (joined finditer tokens == whole string) is present
  * the operator-stack sentinel, the `precedence` dict, the two comparison operators of the builder
  * the "1" leaf literal and the operator list of the evaluator
  * the bound of `limit_denominator` in the power printer
Anything that cannot be located in the expected syntactic position fails closed (TranslateError).
"""
import ast
import os

import translate
from translate import TranslateError

FILE = "qexpy/utils/units.py"


def _cp(s):
    return "[" + "; ".join("{}%N".format(ord(c)) for c in s) + "]"


def _func(tree, name):
    for node in tree.body:
        if isinstance(node, ast.FunctionDef) and node.name == name:
            return node
    raise TranslateError(FILE, tree, "function {} not found".format(name))


def _const_str(node, what):
    if isinstance(node, ast.Constant) and isinstance(node.value, str):
        return node.value
    raise TranslateError(FILE, node, what + ": not a string literal")


def _pattern_value(node, env, what):
    """string literal | NAME | literal.format(args...) | re.compile(X) | NAME.pattern"""
    if isinstance(node, ast.Constant) and isinstance(node.value, str):
        return node.value
    if isinstance(node, ast.Name) and node.id in env:
        return env[node.id]
    if isinstance(node, ast.Attribute) and node.attr == "pattern":
        return _pattern_value(node.value, env, what)
    if isinstance(node, ast.Call) and isinstance(node.func, ast.Attribute):
        f = node.func
        if f.attr == "compile" and isinstance(f.value, ast.Name) and f.value.id == "re" and len(node.args) == 1 \
                and not node.keywords:
            return _pattern_value(node.args[0], env, what)
        if f.attr == "format" and not node.keywords:
            base = _pattern_value(f.value, env, what)
            return base.format(*[_pattern_value(a, env, what) for a in node.args])
    raise TranslateError(FILE, node, what + ": unrecognised pattern expression")


CMP = {ast.Gt: "Z.gtb", ast.GtE: "Z.geb", ast.Lt: "Z.ltb", ast.LtE: "Z.leb", ast.Eq: "Z.eqb"}


REDUCE_BODY = ["right = operand_stack.pop()", "left = operand_stack.pop()", "operator = operator_stack.pop()",
               "operand_stack.append(Expression(operator, left, right))"]


def _reduce_helper(builder):
    """the nested function that pops two operands and one operator and pushes the sub-tree (whatever its name):
    its body must be exactly the four statements the builder model's [reduce] was written for"""
    found = []
    for st in builder.body:
        if isinstance(st, ast.FunctionDef) and not st.args.args:
            body = [ast.unparse(b) for b in translate.strip_doc(st.body)]
            if body == REDUCE_BODY:
                found.append(st.name)
    if len(found) != 1:
        raise TranslateError(FILE, builder, "reduce helper (pop right, pop left, pop operator, push Expression) not found")
    return found[0]


def _prec_compare(t, top_names, where):
    """precedence[token] CMP precedence[<top of the operator stack>]  ->  Coq comparison name"""
    if not (isinstance(t, ast.Compare) and len(t.ops) == 1 and type(t.ops[0]) in CMP
            and ast.unparse(t.left) == "precedence[token]"
            and ast.unparse(t.comparators[0]) in ["precedence[{}]".format(n) for n in top_names]):
        raise TranslateError(FILE, t, "token loop: {} comparison".format(where))
    return CMP[type(t.ops[0])]


def _token_loop(loop, reduce_name):
    """two recognised shapes of the loop over the tokens (anything else fails closed):
       A  [top = operator_stack[-1]]
          if isinstance(token, list): <recurse>
          elif token in precedence and prec[token] C1 prec[top]: operator_stack.append(token)
          elif token in precedence and prec[token] C2 prec[top]: reduce(); operator_stack.append(token)
          else: operand_stack.append(token)
       B  if isinstance(token, list): <recurse>
          elif token in precedence:
              if prec[token] C2 prec[top]: reduce()
              operator_stack.append(token)
          else: operand_stack.append(token)
          which is shape A with C1 = not C2.
    returns [C1, C2] as Coq comparison functions"""
    if ast.unparse(loop.target) != "token" or ast.unparse(loop.iter) != "tokens" or loop.orelse:
        raise TranslateError(FILE, loop, "token loop shape")
    body = list(loop.body)
    top_names = ["operator_stack[-1]"]
    if len(body) == 2 and isinstance(body[0], ast.Assign) and len(body[0].targets) == 1 \
            and isinstance(body[0].targets[0], ast.Name) and ast.unparse(body[0].value) == "operator_stack[-1]":
        top_names.append(body[0].targets[0].id)
        body = body[1:]
    if len(body) != 1 or not isinstance(body[0], ast.If):
        raise TranslateError(FILE, loop, "token loop shape")
    node = body[0]
    if ast.unparse(node.test) != "isinstance(token, list)" or \
            [ast.unparse(b) for b in node.body] != ["operand_stack.append(__construct_expression_tree_with_list(token))"]:
        raise TranslateError(FILE, node, "token loop: list branch")
    if len(node.orelse) != 1 or not isinstance(node.orelse[0], ast.If):
        raise TranslateError(FILE, node, "token loop: elif chain")
    node = node.orelse[0]
    push, reduce_call = "operator_stack.append(token)", reduce_name + "()"
    if ast.unparse(node.test) == "token in precedence":
        # shape B
        if len(node.body) != 2 or not isinstance(node.body[0], ast.If) or node.body[0].orelse \
                or [ast.unparse(b) for b in node.body[0].body] != [reduce_call] or ast.unparse(node.body[1]) != push:
            raise TranslateError(FILE, node, "token loop: operator branch")
        c2 = _prec_compare(node.body[0].test, top_names, "reduce")
        cmps = ["(fun a b => negb ({} a b))".format(c2), c2]
    else:
        cmps = []
        for which in ("push", "reduce"):
            t = node.test
            if not (isinstance(t, ast.BoolOp) and isinstance(t.op, ast.And) and len(t.values) == 2
                    and ast.unparse(t.values[0]) == "token in precedence"):
                raise TranslateError(FILE, node, "token loop: {} test".format(which))
            cmps.append(_prec_compare(t.values[1], top_names, which))
            want = [push] if which == "push" else [reduce_call, push]
            if [ast.unparse(b) for b in node.body] != want:
                raise TranslateError(FILE, node, "token loop: {} body".format(which))
            if which == "push":
                if len(node.orelse) != 1 or not isinstance(node.orelse[0], ast.If):
                    raise TranslateError(FILE, node, "token loop: elif chain")
                node = node.orelse[0]
    if [ast.unparse(b) for b in node.orelse] != ["operand_stack.append(token)"]:
        raise TranslateError(FILE, node, "token loop: operand branch")
    return cmps


def _evaluator_literals(ev):
    """the four string literals of __evaluate_unit_tree, located by their role (each must be found exactly once):
         <op> == P          (not the test of a  1 if .. else -1)     the power operator
         <op> in [M1, M2]   (list or tuple)                          the multiplication / division operators
         1 if <op> == T else -1                                      the operator that counts positively
         tree != O   or   tree == O                                  the empty-numerator leaf
       <op> is  tree.operator  or a local name assigned  tree.operator if isinstance(tree, Expression) else None"""
    opnames = ["tree.operator"]
    for node in ast.walk(ev):
        if isinstance(node, ast.Assign) and len(node.targets) == 1 and isinstance(node.targets[0], ast.Name) \
                and ast.unparse(node.value) == "tree.operator if isinstance(tree, Expression) else None":
            opnames.append(node.targets[0].id)
    sign_tests = set()
    plus, powop, ops, one = [], [], [], []
    for node in ast.walk(ev):
        if isinstance(node, ast.IfExp) and isinstance(node.test, ast.Compare) and len(node.test.ops) == 1 \
                and isinstance(node.test.ops[0], ast.Eq) and ast.unparse(node.test.left) in opnames:
            if ast.unparse(node.body) != "1" or ast.unparse(node.orelse) != "-1":
                raise TranslateError(FILE, node, "evaluator: sign expression is not  1 if .. else -1")
            plus.append(_const_str(node.test.comparators[0], "multiplication operator"))
            sign_tests.add(id(node.test))
    for node in ast.walk(ev):
        if not (isinstance(node, ast.Compare) and len(node.ops) == 1) or id(node) in sign_tests:
            continue
        left, op, right = ast.unparse(node.left), node.ops[0], node.comparators[0]
        if left in opnames and isinstance(op, ast.Eq):
            powop.append(_const_str(right, "power operator"))
        elif left in opnames and isinstance(op, ast.In) and isinstance(right, (ast.List, ast.Tuple)):
            ops.append([_const_str(e, "evaluator operator") for e in right.elts])
        elif left in opnames:
            raise TranslateError(FILE, node, "evaluator: unrecognised test on the operator")
        elif left == "tree" and isinstance(op, (ast.Eq, ast.NotEq)):
            one.append(_const_str(right, "empty-numerator leaf"))
    if not (len(plus) == len(powop) == len(ops) == len(one) == 1):
        raise TranslateError(FILE, ev, "evaluator literals not found (or not unique)")
    return one[0], ops[0], powop[0], plus[0]


LEXER = "__parse_unit_string_to_list"


def _module_env(tree):
    """module-level NAME = <string | re.compile(..) | "..".format(..)> constants (anything else is ignored)"""
    env = {}
    for st in tree.body:
        if isinstance(st, ast.Assign) and len(st.targets) == 1 and isinstance(st.targets[0], ast.Name):
            try:
                env[st.targets[0].id] = _pattern_value(st.value, env, st.targets[0].id)
            except TranslateError:
                pass
    return env


def _resolve(node, env, what):
    """a pattern object / string used at a call site: a name bound to a pattern, or a pattern expression"""
    return _pattern_value(node, env, what)


def _token_list_pattern(expr, env, local_lists):
    """[V.group() for V in T.finditer(unit_string)] (list or generator), or a local name bound to one: the pattern T"""
    if isinstance(expr, ast.Name) and expr.id in local_lists:
        return local_lists[expr.id]
    if isinstance(expr, (ast.ListComp, ast.GeneratorExp)) and len(expr.generators) == 1:
        g = expr.generators[0]
        if not g.ifs and isinstance(g.target, ast.Name) and ast.unparse(expr.elt) == g.target.id + ".group()" \
                and isinstance(g.iter, ast.Call) and isinstance(g.iter.func, ast.Attribute) and g.iter.func.attr == "finditer" \
                and len(g.iter.args) == 1 and ast.unparse(g.iter.args[0]) == "unit_string" and not g.iter.keywords:
            return _resolve(g.iter.func.value, env, "finditer pattern")
    return None


def _lexer_literals(tree):
    """The literals of __parse_unit_string_to_list, located by their ROLE (not by the names of local variables):
         unit_string = unit_string.replace(A, B)                          A, B string literals or module constants
         not re.fullmatch(P, unit_string) / not X.fullmatch(unit_string)  -> raise      the validity pattern
         "".join(<tokens found by T.finditer(unit_string)>) != unit_string -> raise     the coverage check (optional)
         T.finditer(unit_string)                                                        the token pattern (unique)
         X.fullmatch(token) guarding the recursive call on token[1:-1]                  the bracket pattern
         X.fullmatch(token) guarding token.split("^")                                   the unit-with-exponent pattern
         isinstance(token, str) and (X.fullmatch(token) | token in ("/", "*"))         the operator pattern
       The two rejection tests may be separate ifs or joined with `or`; the per-token code may live in a helper function that
       the lexer calls.  Anything else that raises in the lexer, or a role found with two different patterns, fails closed."""
    lexer = _func(tree, LEXER)
    env = _module_env(tree)
    # helper functions the lexer calls and that call the lexer back (the per-token code)
    called = {n.func.id for n in ast.walk(lexer) if isinstance(n, ast.Call) and isinstance(n.func, ast.Name)}
    scopes = [lexer]
    for st in tree.body:
        if isinstance(st, ast.FunctionDef) and st.name in called and st.name != LEXER and \
                any(isinstance(n, ast.Call) and isinstance(n.func, ast.Name) and n.func.id == LEXER for n in ast.walk(st)):
            scopes.append(st)
    repl, valid, coverage = None, [], False
    local_lists = {}
    token_pats, bracket, unit_exp, operator = set(), set(), set(), set()

    def rejection(t, where):
        nonlocal coverage
        if isinstance(t, ast.BoolOp) and isinstance(t.op, ast.Or):
            for v in t.values:
                rejection(v, where)
            return
        if isinstance(t, ast.UnaryOp) and isinstance(t.op, ast.Not) and isinstance(t.operand, ast.Call) \
                and isinstance(t.operand.func, ast.Attribute) and t.operand.func.attr == "fullmatch" and not t.operand.keywords:
            c = t.operand
            if ast.unparse(c.func.value) == "re" and len(c.args) == 2 and ast.unparse(c.args[1]) == "unit_string":
                valid.append(_resolve(c.args[0], env, "validity pattern"))
                return
            if len(c.args) == 1 and ast.unparse(c.args[0]) == "unit_string":
                valid.append(_resolve(c.func.value, env, "validity pattern"))
                return
        if isinstance(t, ast.Compare) and len(t.ops) == 1 and isinstance(t.ops[0], ast.NotEq) \
                and ast.unparse(t.comparators[0]) == "unit_string" and isinstance(t.left, ast.Call) \
                and ast.unparse(t.left.func) == "''.join" and len(t.left.args) == 1:
            pat = _token_list_pattern(t.left.args[0], env, local_lists)
            if pat is not None:
                token_pats.add(pat)
                coverage = True
                return
        raise TranslateError(FILE, where, "unrecognised rejection test in the lexer")

    for scope in scopes:
        for st in scope.body:
            # local pattern constants and the list of tokens found
            if isinstance(st, ast.Assign) and len(st.targets) == 1 and isinstance(st.targets[0], ast.Name):
                name = st.targets[0].id
                pat = _token_list_pattern(st.value, env, local_lists)
                if pat is not None:
                    local_lists[name] = pat
                    token_pats.add(pat)
                elif name == "unit_string" and isinstance(st.value, ast.Call) and isinstance(st.value.func, ast.Attribute) \
                        and st.value.func.attr == "replace" and ast.unparse(st.value.func.value) == "unit_string" \
                        and len(st.value.args) == 2:
                    repl = (_resolve(st.value.args[0], env, "replace"), _resolve(st.value.args[1], env, "replace"))
                else:
                    try:
                        env[name] = _pattern_value(st.value, env, name)
                    except TranslateError:
                        if name.endswith("_pattern") or name.upper().endswith("_PATTERN"):
                            raise
            if isinstance(st, ast.If) and any(isinstance(b, ast.Raise) for b in st.body):
                if len(st.body) != 1 or st.orelse:
                    raise TranslateError(FILE, st, "unrecognised rejection test in the lexer")
                rejection(st.test, st)
        for node in ast.walk(scope):
            if isinstance(node, ast.Raise) and scope is not lexer:
                raise TranslateError(FILE, node, "a helper of the lexer raises")
            if isinstance(node, ast.Call) and isinstance(node.func, ast.Attribute) and node.func.attr == "finditer":
                if len(node.args) != 1 or ast.unparse(node.args[0]) != "unit_string":
                    raise TranslateError(FILE, node, "finditer on something else than the unit string")
                token_pats.add(_resolve(node.func.value, env, "token pattern"))
            if isinstance(node, ast.If) and isinstance(node.test, ast.Call) and isinstance(node.test.func, ast.Attribute) \
                    and node.test.func.attr == "fullmatch" and [ast.unparse(x) for x in node.test.args] == ["token"]:
                body = " ".join(ast.unparse(b) for b in node.body)
                pat = _resolve(node.test.func.value, env, "pattern matched against a token")
                if LEXER + "(token[1:-1])" in body:
                    bracket.add(pat)
                elif "token.split('^')" in body:
                    unit_exp.add(pat)
                else:
                    raise TranslateError(FILE, node, "a pattern is matched against a token for an unrecognised purpose")
            if isinstance(node, ast.BoolOp) and isinstance(node.op, ast.And) and len(node.values) == 2 \
                    and ast.unparse(node.values[0]) == "isinstance(token, str)":
                e = node.values[1]
                if isinstance(e, ast.Call) and ast.unparse(e.func) == "bool" and len(e.args) == 1:
                    e = e.args[0]
                if isinstance(e, ast.Call) and isinstance(e.func, ast.Attribute) and e.func.attr == "fullmatch" \
                        and [ast.unparse(x) for x in e.args] == ["token"]:
                    operator.add(_resolve(e.func.value, env, "operator pattern"))
                elif isinstance(e, ast.Compare) and len(e.ops) == 1 and isinstance(e.ops[0], ast.In) and ast.unparse(e.left) == "token" \
                        and isinstance(e.comparators[0], (ast.Tuple, ast.List, ast.Set)):
                    members = sorted(_const_str(x, "operator") for x in e.comparators[0].elts)
                    if members != ["*", "/"]:
                        raise TranslateError(FILE, e, "operator test: not exactly the two operators / and *")
                    operator.add("[/*]")        # token in ("/", "*")  <=>  [/*] matches the whole token
                else:
                    raise TranslateError(FILE, node, "operator test: unrecognised shape")
    for what, found in (("token pattern", token_pats), ("bracket pattern", bracket), ("unit-with-exponent pattern", unit_exp),
                        ("operator pattern", operator), ("validity pattern", set(valid))):
        if len(found) != 1:
            raise TranslateError(FILE, lexer, "{}: {}".format(what, "not found" if not found else "not unique"))
    if repl is None:
        raise TranslateError(FILE, lexer, "replace(dot, '*') not found")
    token, brk, uexp, opat = token_pats.pop(), bracket.pop(), unit_exp.pop(), operator.pop()
    # the power pattern is what the unit-with-exponent pattern wraps; the token pattern must use the same one
    prefix, suffix = "[a-zA-Z]+(", ")"
    if not (uexp.startswith(prefix) and uexp.endswith(suffix)):
        raise TranslateError(FILE, lexer, "unit-with-exponent pattern is not [a-zA-Z]+(POWER)")
    power = uexp[len(prefix):-len(suffix)]
    out = ["Definition gen_replace_from : list N := {}.".format(_cp(repl[0])),
           "Definition gen_replace_to : list N := {}.".format(_cp(repl[1]))]
    for n, v in (("power_pattern", power), ("bracket_pattern", brk), ("token_pattern", token),
                 ("bracket_enclosed_expression_pattern", brk), ("unit_with_exponent_pattern", uexp), ("operator_pattern", opat)):
        out.append("Definition gen_{} : list N := {}.".format(n, _cp(v)))
    out.append("Definition gen_valid_pattern : list N := {}.".format(_cp(valid[0])))
    out.append("Definition gen_coverage_check : bool := {}.".format("true" if coverage else "false"))
    return out


def gen_unitsyntax(repo):
    src = open(os.path.join(repo, FILE)).read()
    tree = ast.parse(src)
    out = ["(** GENERATED by tools/gens/unitsyntax.py from {} -- do not edit *)".format(FILE),
           "From Coq Require Import List ZArith NArith.", "Import ListNotations.", ""]

    # DOT_STRING -------------------------------------------------------------------------
    dot = None
    for node in tree.body:
        if isinstance(node, ast.Assign) and len(node.targets) == 1 and getattr(node.targets[0], "id", "") == "DOT_STRING":
            dot = _const_str(node.value, "DOT_STRING")
    if dot is None:
        raise TranslateError(FILE, tree, "DOT_STRING not found")
    out.append("Definition gen_dot_string : list N := {}.".format(_cp(dot)))

    # lexer ------------------------------------------------------------------------------
    out += _lexer_literals(tree)

    # builder ----------------------------------------------------------------------------
    builder = _func(tree, "__construct_expression_tree_with_list")
    sentinel, prec, cmps = None, None, []
    for st in builder.body:
        tgt = None
        if isinstance(st, ast.Assign) and len(st.targets) == 1 and isinstance(st.targets[0], ast.Name):
            tgt = st.targets[0].id
        if tgt == "operator_stack":
            if not (isinstance(st.value, ast.List) and len(st.value.elts) == 1):
                raise TranslateError(FILE, st, "operator_stack initialiser")
            sentinel = _const_str(st.value.elts[0], "sentinel")
        if tgt == "precedence":
            if not isinstance(st.value, ast.Dict):
                raise TranslateError(FILE, st, "precedence is not a dict literal")
            prec = []
            for k, v in zip(st.value.keys, st.value.values):
                if not (isinstance(v, ast.Constant) and isinstance(v.value, int) and not isinstance(v.value, bool)):
                    raise TranslateError(FILE, v, "precedence value is not an int literal")
                prec.append((_const_str(k, "precedence key"), v.value))
        if isinstance(st, ast.For):
            cmps = _token_loop(st, _reduce_helper(builder))
    if sentinel is None or prec is None or len(cmps) != 2:
        raise TranslateError(FILE, builder, "sentinel / precedence / comparisons not found")
    out.append("Definition gen_sentinel : list N := {}.".format(_cp(sentinel)))
    out.append("Definition gen_prec_table : list (list N * Z) := [{}].".format(
        "; ".join("({}, ({})%Z)".format(_cp(k), v) for k, v in prec)))
    out.append("Definition gen_cmp_push : Z -> Z -> bool := {}.".format(cmps[0]))
    out.append("Definition gen_cmp_reduce : Z -> Z -> bool := {}.".format(cmps[1]))

    # evaluator --------------------------------------------------------------------------
    ev = _func(tree, "__evaluate_unit_tree")
    one, ops, powop, plusop = _evaluator_literals(ev)
    if one is None or ops is None or powop is None or plusop is None:
        raise TranslateError(FILE, ev, "evaluator literals not found")
    out.append("Definition gen_one_leaf : list N := {}.".format(_cp(one)))
    out.append("Definition gen_pow_op : list N := {}.".format(_cp(powop)))
    out.append("Definition gen_plus_op : list N := {}.".format(_cp(plusop)))
    out.append("Definition gen_muldiv_ops : list (list N) := [{}].".format("; ".join(_cp(o) for o in ops)))

    # printer ----------------------------------------------------------------------------
    pr = _func(tree, "__power_num2str")
    maxden = None
    for node in ast.walk(pr):
        if isinstance(node, ast.Call) and isinstance(node.func, ast.Attribute) and node.func.attr == "limit_denominator":
            if len(node.args) != 1 or not isinstance(node.args[0], ast.Constant) or not isinstance(node.args[0].value, int):
                raise TranslateError(FILE, node, "limit_denominator bound")
            maxden = node.args[0].value
    if maxden is None:
        raise TranslateError(FILE, pr, "limit_denominator call not found")
    out.append("Definition gen_max_denominator : Z := ({})%Z.".format(maxden))
    return "\n".join(out) + "\n"


GENERATORS = {"UnitSyntaxGen": gen_unitsyntax}
