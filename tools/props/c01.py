"""C01 -- derivative-method results obey the first-order propagation law."""
import json
import os
import time

from vlib import core, coq
from vlib.core import CorrResult, Violation
from vlib.coqfmt import Interner, coq_list
from props import corelib as CL

ID = "C01"
MANIFEST = {
    "technique": "Rocq proof by induction over the object DAG (Coquelicot is_derive for every generated operator rule, "
                 "sum algebra for the quadrature/covariance terms) over tables translated from operations.py on every run "
                 "+ vm_compute correspondence on the rational fragment + finite-difference oracle",
    "level_text": "Machine-checked theorems over the reals about sem_u/sem_b/d_u/d_b, which tools/gens/opstable.py regenerates from "
                  "OPERATIONS and DIFFERENTIATORS on every run, and about the hand-written evaluator of Model/Core.v (object DAG with "
                  "explicit sharing, source discovery, pair enumeration): the central value is the formula at the central values and the "
                  "propagated variance is the first-order law with the exact partial derivatives, for every well-formed DAG inside the "
                  "operators' domains. The evaluator is tied to the implementation by executing it in Q on random DAGs built through "
                  "the public API (all operand forms, shared sub-results, correlations); a Richardson finite-difference oracle that uses "
                  "neither the library's tables nor the model searches for the failing formula.",
    "level_note": "Trusted: Coq kernel + the stdlib real-number axioms (ClassicalDedekindReals.sig_forall_dec, sig_not_dec, "
                  "functional_extensionality_dep) as listed by Print Assumptions; the translator's vocabulary map (np.sqrt -> sqrt, "
                  "np.log -> ln, ** -> Rpow, x.value -> operand value from _evaluate_formula, x.derivative(o) -> operand derivative); "
                  "float rounding is modelled, not verified (1e-9 relative tolerance on dyadic, well-conditioned inputs); the "
                  "correspondence executes the rational fragment, transcendental operators are tied by the translator and the oracle.",
    "design_ref": "DESIGN.md section 4 C01",
}
GEN = ["OpsTable"]
PROPS_FILE = "Props/C01.v"
MODEL_TARGETS = ["Model/CoreQ.v"]
EXTRA_TARGETS = ["Model/CoreQ.v"]
TRUSTED = ["Model/Core.v hand-written evaluator (object list newest first), tied by correspondence",
           "Base/RealOps.v Rpow: total power for Python's ** on reals"]
ASSUMPTIONS = ["central values inside the operators' open domains (Dom), finite, uncertainties >= 0, correlations in [-1, 1]",
               "exact real arithmetic; IEEE rounding not modelled"]


def run_cases(ctx, n, rational_share=0.7, with_sources=True):
    """generate programs, run them on the implementation, return (cases, res)"""
    rng = ctx.rng
    res = CorrResult()
    cases = []
    for _ in range(n):
        rational = rng.random() < rational_share
        steps, corr = CL.gen_program(rng, rational_only=rational)
        while CL.has_scale_factor(steps):
            steps, corr = CL.gen_program(rng, rational_only=rational)
        try:
            w = CL.execute(steps, corr, corr_after=rng.random() < 0.3)
            observations = [w.observe(k, with_sources) for k in w.derived_ids()]
        except Exception as e:  # the implementation failed on an in-domain program
            cases.append({"steps": steps, "corr": corr, "error": "{}: {}".format(type(e).__name__, e)})
            continue
        cases.append({"steps": steps, "corr": corr, "model": list(w.model), "obs": observations})
        # second phase: change a central value, recalculate every result, observe again (the results must be
        # those of the formula at the NEW central values: intermediate results may not keep anything back)
        ch = CL.pick_change(w.model, rng, corr, visible=w.derived_ids()) if rng.random() < 0.6 else None
        if ch:
            try:
                CL.apply_change_impl(w, ch)
                for k in w.derived_ids():
                    w.objs[k].recalculate()
                obs2 = [w.observe(k, with_sources) for k in reversed(w.derived_ids())]
                cases.append({"steps": steps, "corr": corr, "change": list(ch), "model": CL.apply_change_model(w.model, ch),
                              "obs": obs2})
                res.count("phase2:{}-change+recalculate".format(ch[0]))
            except Exception as e:
                cases.append({"steps": steps, "corr": corr, "change": list(ch), "error": "{}: {}".format(type(e).__name__, e)})
        res.evaluations += 1
        res.traces += 1
        for s in steps:
            res.count(s[0] + ":" + (s[1] if s[0] not in ("meas", "read", "poison") else ""))
            for ref in s[2:] if s[0] in ("un", "bin") else []:
                if isinstance(ref, list):
                    res.count("operand:" + ref[0])
        shared = len([1 for m in w.model if m[0] != "meas"]) >= 2
        if shared and observations:
            res.nontrivial.add(core.canonical_key("p", [steps, corr]))
    return cases, res


def to_shards(cases, per=40):
    shards, index = [], []
    good = [(i, c) for i, c in enumerate(cases) if "model" in c and c["obs"]]
    for k in range(0, len(good), per):
        chunk = good[k:k + per]
        I = Interner()
        body = coq_list([CL.coq_case(c["model"], c["corr"], c["obs"], I) for _, c in chunk])
        text = CL.HEADER + I.text() + "Definition cases : list case := {}.\n".format(body) + \
            "Eval vm_compute in (bad_indices check_case_fast cases).\n" + \
            ("Eval vm_compute in ([fold_right Nat.add 0%nat (map compared cases)]).\n" if k == 0 else "")
        shards.append(text)
        index.append([i for i, _ in chunk])
    return shards, index


def correspondence(ctx):
    cases, res = run_cases(ctx, ctx.n(220, 4000))
    res.rule = ("random expression DAGs built through the public API (1-4 measurements, 1-8 operations, operand forms "
                "quantity-quantity / quantity-number / number-quantity / (value, error) pair, shared sub-results, random pairwise "
                "correlations set before or after deriving); observed: value, error, sorted source ids, derivative w.r.t. every "
                "measurement; compared in Q with Model.CoreQ (1e-9 relative). non-trivial = at least two derived objects "
                "(sharing possible), distinct by content. 70% of the programs stay in the rational fragment "
                "{+,-,*,/,neg,** integer}; numbers the model cannot compute in Q are skipped and counted. Central values include 0 "
                "(under whole powers >= 1), 1, -1, 2, 10, 100 and equal values in distinct measurements; uncertainties include "
                "2^-14 ... 2^-20 (12% of the programs use only such); constants arrive as numpy scalars of every width / Fraction / "
                "bool; 20% of the results are read before they are used as operands; 60% of the programs get a second phase: a "
                "central value, an uncertainty, or the central value of an intermediate result is changed, every result "
                "recalculated and observed again")
    res.samples = [{"steps": c["steps"][:8], "corr": c["corr"]} for c in cases[:2]]
    for c in cases:
        if "error" in c:
            res.disagreements.append({"name": "implementation raised on an in-domain program: " + c["error"][:120],
                                      "kind": "program", "case": {"steps": c["steps"], "corr": c["corr"],
                                                                  "change": c.get("change")}})
    shards, index = to_shards(cases)
    bads, logs = coq.run_case_files(ID, shards, keep=getattr(ctx, "keep_cases", False))
    compared = 0
    for idx, bad, log in zip(index, bads, logs):
        if bad is None:
            res.disagreements.append({"name": "case file did not evaluate: " + log.strip().split("\n")[-1][:200], "case": None})
            continue
        for i in bad[0]:
            c = cases[idx[i]]
            res.disagreements.append({"name": "Model.CoreQ (value/err2/sources/deriv) vs DerivedValue.value/.error/.derivative",
                                      "kind": "program", "case": {"steps": c["steps"], "corr": c["corr"],
                                                                  "change": c.get("change")}})
        if len(bad) > 1 and bad[1]:
            compared += bad[1][0]
    res.extra["numbers_compared_in_Q_first_shard"] = compared
    return res


def oracle_program(steps, corr, change=None):
    """None or description of the first object that contradicts the property; with [change] = (measurement, new value)
    the central value is changed after a first read, every result recalculated, and the check repeated"""
    try:
        w = CL.execute(steps, corr)
    except Exception as e:
        return "the implementation raised {}: {}".format(type(e).__name__, str(e)[:100])
    model = list(w.model)
    for phase in (1, 2):
        for k in (w.derived_ids() if phase == 1 else reversed(w.derived_ids())):
            try:
                obs = w.observe(k, with_sources=False)
            except Exception as e:
                return "reading object {} raised {}: {}".format(k, type(e).__name__, str(e)[:100])
            why = CL.oracle_object(model, corr, obs)
            if why:
                return "{}object {} ({}): {}".format(
                    "" if phase == 1 else "after {} of object {} := {} and recalculate(): ".format(*CL.norm_change(change)[:3]),
                    k, model[k], why)
        if not change or phase == 2:
            break
        CL.apply_change_impl(w, change)
        for k in w.derived_ids():
            w.objs[k].recalculate()
        model = CL.apply_change_model(w.model, change)
    return None


def shrink_program(steps, corr, fails):
    """drop trailing operations and correlations while the failure persists"""
    return _shrink(steps, corr, fails)


def _shrink(steps, corr, fails):
    """drop trailing operations and correlations while the failure persists"""
    n_meas = len([s for s in steps if s[0] == "meas"])
    changed = True
    while changed:
        changed = False
        if len(steps) > n_meas + 1:
            cand = steps[:-1]
            if fails(cand, corr):
                steps, changed = cand, True
                continue
        for i in range(len(corr)):
            cand = corr[:i] + corr[i + 1:]
            if fails(steps, cand):
                corr, changed = cand, True
                break
    return steps, corr


def search(ctx, suspects, budget):
    t0 = time.time()
    out = []
    todo = [s["case"] for s in suspects if s.get("case")]
    d = os.path.join(core.VERIF, "corpus", ID)
    if os.path.isdir(d):
        for f in sorted(os.listdir(d)):
            if f.endswith(".json"):
                todo.append(json.load(open(os.path.join(d, f)))["case"])
    todo += [{"steps": st, "corr": co} for st, co in CL.typed_family()]
    n = 0
    prev = None
    core.fresh_impl()
    while len(out) < 3:
        change = None
        if todo:
            c = todo.pop(0)
            steps, corr, change = c["steps"], c["corr"], c.get("change")
        elif time.time() - t0 > budget:
            break
        else:
            steps, corr = CL.gen_program(ctx.rng, rational_only=ctx.rng.random() < 0.3)
            if ctx.rng.random() < 0.5:
                change = change_for(steps, corr, ctx.rng)
        n += 1
        why = oracle_program(steps, corr, change)
        if why and not alone_fails(oracle_program, steps, corr, change):
            # fine on its own from a fresh library state: it failed because of what an earlier program left behind
            sess = {"session": [prev, {"steps": steps, "corr": corr, "change": change}]} if prev else None
            if sess and session_why(oracle_program, sess):
                out.append(Violation(ID, "program", sess, session_why(oracle_program, sess)))
            else:
                out.append(Violation(ID, "program", {"steps": steps, "corr": corr, "change": change},
                                     why + " (only after the programs of this run, not reproduced from a fresh library state)"))
            core.fresh_impl()
            prev = None
            continue
        prev = {"steps": steps, "corr": corr, "change": change}
        if why:
            if change is None or alone_fails(oracle_program, steps, corr, None):
                change = None
                # (every candidate is judged from a fresh library state: the shrunk program fails on its own)
                steps, corr = shrink_program(steps, corr, lambda s, c: alone_fails(oracle_program, s, c, None))
            core.fresh_impl()
            why = oracle_program(steps, corr, change) or why
            out.append(Violation(ID, "program", {"steps": steps, "corr": corr, "change": change}, why))
    ctx.notes.append("oracle: {} programs checked against finite differences".format(n))
    CL.reset_world()
    return out


def alone_fails(oracle, steps, corr, change):
    for _ in range(4):      # (order-dependent failures: the library orders sources by random ids)
        core.fresh_impl()
        if oracle(steps, corr, change) is not None:
            return True
    return False


def session_why(oracle, sess):
    """programs run one after the other in ONE fresh library state (state the library keeps between calculations is part
    of the input); the last one is judged"""
    core.fresh_impl()
    why = None
    for c in sess["session"]:
        why = oracle(c["steps"], c["corr"], c.get("change"))
    return "after {} earlier calculation(s) in the same interpreter: {}".format(len(sess["session"]) - 1, why) if why else None


def change_for(steps, corr, rng):
    """a value change that keeps the program in its domain (the model of the program is obtained by running it once)"""
    try:
        w = CL.execute(steps, corr)
    except Exception:
        return None
    return CL.pick_change(w.model, rng, corr, visible=w.derived_ids())


def replay(ctx, v):
    if "session" in v["case"]:
        why = session_why(oracle_program, v["case"])
        CL.reset_world()
        return Violation(ID, v["kind"], v["case"], why) if why else None
    why = None
    for _ in range(6):      # (the library orders sources by random ids: an order-dependent failure shows in some runs only)
        why = oracle_program(v["case"]["steps"], v["case"]["corr"], v["case"].get("change"))
        if why:
            break
    CL.reset_world()
    return Violation(ID, v["kind"], v["case"], why) if why else None
