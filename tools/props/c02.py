"""C02 -- Monte Carlo results are the moments of the formula under the stated normal model."""
import itertools
import json
import math
import os
import random
import time
import warnings
from fractions import Fraction

import numpy as np

from vlib import core, coq
from vlib.core import CorrResult, Violation, shrink_list
from props import mc_common as mc
from props.mc_common import fx, fr

ID = "C02"
MANIFEST = {
    "technique": "Rocq proof of the algebraic core of the Monte Carlo pipeline (exact Q model: offsets -> Cholesky factor in "
                 "closed form for <= 3 sources -> scale by the uncertainty and shift -> formula -> finite outcomes -> mean and "
                 "ddof=1 variance; L L^T = C, positive definiteness by leading minors <-> success of the factorisation, second "
                 "moments pushed through any matrix, fallback) + vm_compute correspondence with injected dyadic offsets and "
                 "rational Cholesky factors + independent oracle (whitened offset design, exact recomputation, thorough tier: "
                 "statistical test against exact Gaussian moments)",
    "level_text": "Machine-checked theorems C02_pipeline, C02_chol, C02_chol_pd, C02_cov_push, C02_scale_shift, "
                  "C02_uses_error_not_std, C02_size, C02_fallback about the executable Gallina model of "
                  "MonteCarloEvaluator.__compute_samples / generate_offset_matrix / correlate_samples / "
                  "_generate_random_data_set, which is run against the implementation on every check with numpy.random.normal "
                  "replaced by recorded dyadic offsets (formulas of 1-3 sources, correlation matrices with rational factors, "
                  "non-positive-definite triples, draws on which the formula is undefined, own and global sample sizes). "
                  "PARTIAL by design: the step from i.i.d. standard normal offsets to the multivariate normal law of the draws "
                  "and the law of large numbers ('agree within sampling error with the exact moments') are probability theory "
                  "that nothing installed lets us state; they are covered by a statistical test (thorough tier), not a proof.",
    "level_note": "Partial: proved = what is computed from the offsets actually drawn (if the offsets have identity second "
                  "moments, the draws have covariance D C D; value = mean, error^2 = ddof-1 variance of the finite outcomes; "
                  "sizes; fallback). Not proved: that numpy.random.normal yields i.i.d. N(0,1) offsets, the resulting "
                  "multivariate normal law, convergence to the exact moments (tested with N = 200000 at 6 sigma in the thorough "
                  "tier). numpy.linalg.cholesky is an oracle validated by correspondence for <= 3 sources whose factor is "
                  "rational; the R-valued factor of an arbitrary positive-definite matrix is covered by the minor criterion "
                  "(C02_chol_pd / C02_fallback) but its square roots are not executed. Float rounding is not modelled "
                  "(tolerance 1e-9).",
    "design_ref": "DESIGN.md section 4 C02",
}
GEN = []
PROPS_FILE = "Props/C02.v"
MODEL_TARGETS = ["Model/MCCases.v"]
EXTRA_TARGETS = ["Model/MCCases.v"]
TRUSTED = [
    "Model/MC.v: hand-written model of __compute_samples, generate_offset_matrix, correlate_samples (closed-form factor, "
    "up to three sources), _generate_random_data_set, the isfinite filter and the two warnings (tied by correspondence)",
    "numpy.random.normal (replaced by recorded offsets), numpy.linalg.cholesky (compared with the closed form on matrices "
    "with rational factors and on non-positive-definite triples), numpy.dot / mean / std as oracles",
    "probability theory: i.i.d. N(0,1) offsets => draws ~ N(v, D C D); law of large numbers (statistical test only)",
]
ASSUMPTIONS = [
    "one to three source measurements (the property's range); more sources are reported as unsupported by the model",
    "correlation matrices in the correspondence have rational Cholesky factors or are clearly not positive definite; "
    "the rational the model receives is the intended one (3/5), the implementation receives its nearest float",
    "formulas of the correspondence are on the rational fragment (+ - * / neg, sqrt(x)^2) with no division inside a "
    "denominator; transcendental operators are tied by other properties (C01/C03 operator table)",
    "correlations are set between MeasuredValue objects with non-zero uncertainty (set_correlation rejects others)",
]

PYTH = [(3, 4, 5), (4, 3, 5), (5, 12, 13), (12, 5, 13), (8, 15, 17), (7, 24, 25), (24, 7, 25), (0, 1, 1)]
SPHERE = [(2, 2, 1, 3), (1, 2, 2, 3), (2, 1, 2, 3), (6, 3, 2, 7), (2, 3, 6, 7), (3, 6, 2, 7), (4, 4, 7, 9), (1, 4, 8, 9),
          (8, 4, 1, 9), (3, 0, 4, 5), (0, 3, 4, 5), (0, 0, 1, 1)]
NON_PD3 = [((9, 10), (9, 10), (-9, 10)), ((4, 5), (4, 5), (-1, 2)), ((-7, 10), (7, 10), (7, 10)),
           ((1, 1), (1, 2), (-1, 2)), ((-3, 4), (-3, 4), (-3, 4)), ((1, 2), (1, 1), (0, 1))]


# off-diagonal factors that add up to zero (in this order of positions the Cholesky factor is rational)
CANCEL3 = [((4, 5), (-2, 3), (-2, 15)), ((4, 5), (-2, 15), (-2, 3)), ((-8, 17), (2, 3), (-10, 51)),
           ((24, 25), (-8, 21), (-304, 525)), ((4, 5), (-8, 21), (-44, 105))]
# the same with dyadic factors (exact cancellation in floating point; the factor is irrational: oracle only)
CANCEL3_DYADIC = [((1, 2), (-1, 2), (0, 1)), ((1, 2), (-1, 4), (-1, 4)), ((-1, 2), (1, 4), (1, 4)), ((0, 1), (1, 4), (-1, 4)),
                  ((3, 4), (-3, 4), (0, 1)), ((-1, 4), (-1, 4), (1, 2))]


def minors_pd(k, rho):
    """positive definiteness of the correlation matrix by leading principal minors (exact)"""
    c = [[Fraction(1) if i == j else rho.get((i, j), Fraction(0)) for j in range(k)] for i in range(k)]
    if k == 1:
        return True
    m2 = c[0][0] * c[1][1] - c[0][1] * c[1][0]
    if k == 2:
        return m2 > 0
    m3 = (c[0][0] * (c[1][1] * c[2][2] - c[1][2] * c[2][1]) - c[0][1] * (c[1][0] * c[2][2] - c[1][2] * c[2][0])
          + c[0][2] * (c[1][0] * c[2][1] - c[1][1] * c[2][0]))
    return m2 > 0 and m3 > 0


def frac(n, d):
    f = Fraction(n, d)
    return [f.numerator, f.denominator]


def gen_corr(rng, k):
    """-> (kind, corr_pos) with corr_pos entries [pa, pb, num, den] by position in the source order"""
    if k == 1:
        return "none", []
    r = rng.random()
    if r < 0.12:
        return "none", []
    if k == 2:
        if r < 0.3:
            s = rng.choice([1, -1])
            return "not-pd", [[0, 1, s, 1]]
        a, b, c = rng.choice(PYTH[:-1])
        return "pd", [[0, 1] + frac(rng.choice([1, -1]) * a, c)]
    if r < 0.32:
        t = rng.choice(NON_PD3)
        return "not-pd", [[0, 1] + frac(*t[0]), [0, 2] + frac(*t[1]), [1, 2] + frac(*t[2])]
    if r < 0.44:
        t = rng.choice(CANCEL3)
        return "pd-cancelling", [[0, 1] + frac(*t[0]), [0, 2] + frac(*t[1]), [1, 2] + frac(*t[2])]
    if r < 0.52:      # only one pair correlated
        a, b, c = rng.choice(PYTH[:-1])
        pa, pb = rng.choice([(0, 1), (0, 2), (1, 2)])
        return "pd-one-pair", [[pa, pb] + frac(rng.choice([1, -1]) * a, c)]
    a, b, c = rng.choice(PYTH)
    a *= rng.choice([1, -1])
    p, q, rr, d = rng.choice(SPHERE)
    p *= rng.choice([1, -1])
    q *= rng.choice([1, -1])
    r01 = Fraction(a, c)
    r02 = Fraction(p, d)
    r12 = Fraction(a, c) * Fraction(p, d) + Fraction(b, c) * Fraction(q, d)
    out = []
    for (i, j), v in (((0, 1), r01), ((0, 2), r02), ((1, 2), r12)):
        if v != 0:
            out.append([i, j, v.numerator, v.denominator])
    return "pd", out


def equalize(rng, sources):
    """distinct measurements with EQUAL central values (their identity, not their value, decides what is correlated)"""
    singles = [s for s in sources if s["kind"] == "single"]
    if len(singles) >= 2 and rng.random() < 0.3:
        v = singles[0]["value"]
        for s in (singles if rng.random() < 0.5 else singles[:2]):
            s["value"] = v


def gen_case(rng, seed):
    k = rng.choice([1, 2, 2, 2, 3, 3, 3])
    sources, _ = mc.gen_sources(rng, k, repeated_ok=True, positive_error=True)
    equalize(rng, sources)
    small = any(s["kind"] == "repeated" for s in sources)
    kind, corr_pos = gen_corr(rng, k)
    if kind.startswith("pd"):
        # with a rational, non-dyadic Cholesky factor the draws around 2^30 are rounded at 1e-7: no large offsets there
        sources, _ = mc.gen_sources(rng, k, repeated_ok=True, positive_error=True, allow_offset=False)
        equalize(rng, sources)
        small = any(s["kind"] == "repeated" for s in sources)
    # a division is only used where the draws are dyadic (no correlation applied): with a rational, non-dyadic factor a
    # denominator that is exactly 0 in Q is 1e-17 in floating point, i.e. a finite outcome (rounding, not modelled)
    allow_div = (not small) and not kind.startswith("pd") and rng.random() < 0.5
    zero_pos = []
    if k == 3 and kind == "pd-one-pair" and rng.random() < 0.6:
        zero_pos = [({0, 1, 2} - {corr_pos[0][0], corr_pos[0][1]}).pop()]
    case = {"seed": seed, "okind": rng.choice(["uniform", "uniform", "two", "peak", "coarse"]), "zero_pos": zero_pos,
            "g": rng.choice([4, 5, 6, 8] if small else [4, 6, 8, 12, 16]),
            "sources": sources, "corr": [], "corr_pos": corr_pos, "corr_kind": kind,
            "defs": mc.gen_defs(rng, k, allow_div=allow_div, depth=2 if (small or k == 3) else 3, require_all=True),
            "method": rng.choice(["global", "own", "global-str", "own-str"]), "small": small,
            "pre_read": rng.random() < 0.4, "dirty": rng.random() < 0.25}
    if allow_div:
        case["okind"] = rng.choice(["coarse", "coarse", "uniform"])
    rv, re_, sa = ["read_value"], ["read_error"], ["samples"]
    ops = [["inspect"], rv, re_, sa]
    r = rng.random()
    sizes = [2, 3, 5, 8] if small else [2, 3, 5, 8, 13, 16]
    if r < 0.3:
        ops += [["set_size", ["int", rng.choice(sizes)]], rv, re_, sa, ["inspect"]]
    elif r < 0.5:
        ops += [["recalc"], rv, re_]
    elif r < 0.65:
        ops += [["set_gsize", rng.choice([4, 6, 8])], ["recalc"], rv, re_, ["inspect"]]
    elif r < 0.8:
        singles = [i for i, s in enumerate(sources) if s["kind"] == "single"]
        if singles:
            ops += [["set_src", rng.choice(singles), fx(rng.randint(-24, 24) / 8.0), fx(rng.choice([0.25, 0.5, 1.0, 2.0]))],
                    ["recalc"], rv, re_, sa]
    elif r < 0.9:
        ops = [["set_size", ["int", rng.choice(sizes)]]] + ops[1:] + [["reset_size"], rv, re_]
    if rng.random() < 0.3:      # another quantity over the same sources is simulated in between
        ops.insert(rng.randint(1, len(ops)), ["sibling"])
    case["ops"] = ops
    return case


def features(case, run):
    tags = {"corr:" + case["corr_kind"], "sources={}".format(len(run["order"]))}
    if case.get("zero_pos") and any(float.fromhex(e) == 0.0 for _, e, _ in run["srcs"]):
        tags.add("zero-uncertainty-source-next-to-correlated-pair")
    if any(mc.tree_has(d, "div", case["defs"]) for d in case["defs"]):
        tags.add("division")
    if any(s["kind"] == "repeated" for s in case["sources"]):
        tags.add("readings-source")
    if case.get("pre_read") and len(case["defs"]) > 1:
        tags.add("intermediate-read-before-use")
    if case.get("dirty"):
        tags.add("session-after-other-simulation")
    big = max([abs(float.fromhex(v)) for v, _, _ in run["srcs"]] + [0.0])
    if big and (big < 1e-6 or big > 1e6):
        tags.add("scaled-data")
    vals = [s["value"] for s in case["sources"] if s["kind"] == "single"]
    if len(set(vals)) < len(vals):
        tags.add("equal-central-values")
    size = None
    for o, (ob, w1, w2) in zip(case["ops"], run["obs"]):
        if ob[0] == "info":
            size = ob[1]
        if o[0] == "samples" and size is not None and len(ob[1]) < size:
            tags.add("undefined-draws-discarded")
        if w1:
            tags.add("fallback-warning")
        if w2:
            tags.add("warn10")
        if ob[0] == "exn":
            tags.add("exn:" + o[0])
    return tags


def correspondence(ctx):
    res = CorrResult()
    rng = ctx.rng
    cases_runs = []
    for c in load_corpus():
        if c.get("kind") == "history":
            cases_runs.append((c["case"], mc.run_case(c["case"])))
    seedbase = rng.getrandbits(48)
    n = ctx.n(400, 4000)
    i = 0
    while len(cases_runs) < n and i < 3 * n:
        i += 1
        case = gen_case(rng, "c02-{}-{}".format(seedbase, i))
        run = mc.run_case(case)
        if mc.ill_conditioned(case, run):
            res.count("dropped:ill-conditioned")
            continue
        cases_runs.append((case, run))
    for case, run in cases_runs:
        res.evaluations += 1
        res.traces += 1
        tags = features(case, run)
        for t in tags:
            res.count(t)
        if len(run["order"]) >= 2 and case["corr_kind"] != "none":
            res.nontrivial.add(core.canonical_key("c", case))
    shards, index = mc.history_shards(cases_runs, per=25)
    bads, logs = coq.run_case_files(ID, shards, keep=getattr(ctx, "keep_cases", False))
    total_bad = 0
    for base, bad, log in zip(index, bads, logs):
        if bad is None:
            res.disagreements.append({"name": "case file did not evaluate (shard at {}): {}".format(
                base, log.strip().split("\n")[-1][:200]), "case": None})
            continue
        total_bad += len(bad[0])
        for j in bad[0]:
            if len(res.disagreements) < 8:
                res.disagreements.append({"name": "Model.MC.compute_samples/step vs MonteCarloEvaluator", "kind": "history",
                                          "case": cases_runs[base + j][0]})
    res.extra["disagreeing_cases_total"] = total_bad
    res.rule = ("formula over 1-3 source measurements (all used; + - * / neg, constants, shared intermediate results; with a division whose "
                "denominator hits 0 on some draws where no correlation is applied), uncertainties > 0, 20% sources given by readings (error != "
                "std); correlations assigned by position in the implementation's own source order: none / rational Cholesky "
                "factor built from Pythagorean pairs and rational points of the unit sphere / one pair only / jointly not "
                "positive definite (triples, rho = +-1); numpy.random.normal replaced by recorded dyadic offsets, N = 4..16 "
                "global or per quantity; observed: sample_size, value, error, samples(), both warnings, after the first draw "
                "and after a size change / recalculate / source edit. non-trivial = at least two sources with a correlation "
                "assignment")
    res.samples = [{k: cases_runs[-1][0][k] for k in ("sources", "corr_pos", "defs", "g", "ops")}]
    return res


# =====================================================================================================
# property-level oracle (independent of the Coq model)
# =====================================================================================================
def close_var(err, var, sc):
    """is err^2 the variance [var] of samples of magnitude [sc]?  Conditioning-aware: a two-pass standard deviation is
    accurate to a RELATIVE 1e-12 or so whatever |mean|/std is, apart from the second-order effect of the rounded mean
    (about (1e-16 |mean|)^2); a one-pass sum-of-squares formula is off by about 1e-16 mean^2, i.e. by the whole variance
    once |mean|/std reaches 1e8"""
    return abs(Fraction(err) ** 2 - var) <= var / 10 ** 7 + (sc / 10 ** 13) ** 2


class DesignScript:
    """offsets with exactly zero mean and identity second moments: call j of a draw returns the j-th
    sign pattern over 8 draws (row_j[n] = +1 if bit j of n is set else -1), scaled by nothing"""

    def __init__(self, k):
        self.k, self.calls = max(1, k), []

    def __call__(self, loc=0.0, scale=1.0, size=None):
        n = int(size)
        if n != 8:          # a draw with another size (before the quantity got its own size): not part of the design
            return np.zeros(n)
        j = len(self.calls) % self.k
        arr = [1.0 if (i >> j) & 1 else -1.0 for i in range(8)]
        self.calls.append(arr)
        return np.array(arr)


class SameRowScript:
    """every call of one simulation returns the same dyadic offsets (so that the assignment of rows to sources is
    immaterial); the harness names the simulation that is about to run ([current]), different simulations get
    different offsets"""

    def __init__(self, seed, kind):
        self.seed, self.kind, self.calls, self.current = seed, kind, [], "start"

    def row(self, draw, n):
        return mc.gen_offsets(self.kind, random.Random("{}:{}".format(self.seed, draw)), n)

    def __call__(self, loc=0.0, scale=1.0, size=None):
        n = int(size)
        arr = self.row(self.current, n)
        self.calls.append(arr)
        return np.array(arr, dtype=float)


def close(a, b, tol=Fraction(1, 10 ** 8), scale=Fraction(1)):
    """relative comparison; the absolute slack is tied to the size of the data ([scale]), never a fixed number"""
    return abs(a - b) <= tol * (abs(a) + abs(b)) + tol * scale / 1000


HOWS = ["func", "func-swapped", "method", "method-swapped", "cov-func", "cov-func-swapped", "cov-method", "cov-method-swapped"]


def assign_correlation(q, meas, i, j, r, how):
    """every public way of declaring the correlation r between measurements i and j"""
    a, b = meas[i], meas[j]
    if how.endswith("swapped"):
        a, b = b, a
    if how.startswith("cov"):
        c = r * float(a.std) * float(b.std)
        if "func" in how:
            q.set_covariance(a, b, c)
        else:
            a.set_covariance(b, c)
    elif how.startswith("func"):
        q.set_correlation(a, b, r)
    else:
        a.set_correlation(b, r)


def check_design(case):
    """linear formula sum a_i x_i + c under the whitened design: mean and variance are exact consequences of
    'normal with its central value and uncertainty, carrying the correlations set between them'.  The correlations may be
    changed between simulations of the SAME quantity ("rounds": through the function or the method form, either argument
    order, as a correlation or as a covariance, after reset_correlations): every simulation must follow the assignment
    in force when it is made"""
    q = mc._q()
    k = len(case["sources"])
    script = DesignScript(k)
    coef = [fr(a) for a in case["coef"]]
    rounds = [{"reset": False, "set": [[i, j, num, den, "func"] for i, j, num, den in case["corr"]]}] + case.get("rounds", [])
    with mc.patched_normal(script):
        try:
            mc.reset_globals()
            q.set_error_method(q.ErrorMethod.MONTE_CARLO)
            if case["size_mode"] == "global":
                q.set_monte_carlo_sample_size(8)
            meas = [mc.make_measurement(s) for s in case["sources"]]
            v = [Fraction(float(m.value)) for m in meas]
            e = [Fraction(float(m.error)) for m in meas]
            res = None
            rho = {}
            for rno, rnd in enumerate(rounds):
                where = "" if rno == 0 else "simulation {} (after {}): ".format(
                    rno + 1, ("reset_correlations, " if rnd.get("reset") else "") +
                    ", ".join("{} of ({},{}) = {}/{}".format(h, i, j, n_, d_) for i, j, n_, d_, h in rnd["set"]))
                if rnd.get("reset"):
                    q.reset_correlations()
                    rho = {}
                for i, j, num, den, how in rnd["set"]:
                    assign_correlation(q, meas, i, j, num / den, how)
                    rho[(i, j)] = rho[(j, i)] = Fraction(num, den)
                with warnings.catch_warnings(record=True) as w:
                    warnings.simplefilter("always")
                    if res is None:
                        for a, m in zip(coef, meas):
                            term = float(a) * m
                            res = term if res is None else res + term
                        res = res + float(fr(case["const"]))
                        if case["size_mode"] == "own":
                            res.mc.sample_size = 8
                    else:
                        res.recalculate()
                    try:
                        value, error = float(res.value), float(res.error)
                        S = res.mc.samples()
                    except Exception as ex:  # noqa
                        return where + "reading the result raises {}: {}".format(type(ex).__name__, str(ex)[:80])
                msgs = [str(x.message) for x in w]
                warned = any(m.startswith("Fail to generate a physical") for m in msgs)
                if len(S) != 8:
                    return where + "{} samples for a configured size of 8".format(len(S))
                pd = minors_pd(k, rho)
                if not pd and not warned:
                    return where + "correlations that are jointly not positive definite: no warning was raised"
                if pd and warned:
                    return where + "positive-definite correlations: the fallback warning was raised"
                mean = sum(a * x for a, x in zip(coef, v)) + fr(case["const"])
                var = Fraction(0)
                for i in range(k):
                    for j in range(k):
                        r = Fraction(1) if i == j else (rho.get((i, j), Fraction(0)) if pd else Fraction(0))
                        var += coef[i] * coef[j] * r * e[i] * e[j]
                sc = sum(abs(a) * (abs(x) + abs(u)) for a, x, u in zip(coef, v, e)) + abs(fr(case["const"])) or Fraction(1)
                if not close(Fraction(value), mean, scale=sc):
                    return where + "value {} differs from the mean {} of the draws centred at the central values".format(
                        value, float(mean))
                got = Fraction(error) ** 2 * 7 / 8
                if not close(got, var, Fraction(1, 10 ** 7), sc * sc):
                    return where + ("offsets with identity second moments: the draws have variance {} (ddof=0) but the stated "
                                    "model gives a' D C D a = {} ({})".format(
                                        float(got), float(var), "correlations as set" if pd else "uncorrelated fallback"))
        finally:
            mc.reset_globals()
    return None


NEAR_ONE = [(19999, 20000), (999999, 1000000), (9999, 10000), (99999999, 100000000)]     # 0.99995, 0.999999, 0.9999, 1 - 1e-8


def near_singular(rng, k):
    """valid, NEARLY singular but positive-definite assignments (PD decided by exact minors): |rho| just below 1 for a
    pair; triples whose smallest eigenvalue is 1e-4 ... 1e-8.  No fallback is due: the draws must carry them"""
    n, d = rng.choice(NEAR_ONE)
    s = rng.choice([1, -1])
    if k == 2:
        return [[0, 1, s * n, d]]
    shape = rng.randrange(4)
    if shape == 0:          # all three pairs almost fully correlated
        return [[0, 1, n, d], [0, 2, n, d], [1, 2, n, d]]
    if shape == 1:          # the same with one variable mirrored
        return [[0, 1, -n, d], [0, 2, -n, d], [1, 2, n, d]]
    if shape == 2:          # one pair only
        pa, pb = rng.choice([(0, 1), (0, 2), (1, 2)])
        return [[pa, pb, s * n, d]]
    # rho12 close to the value rho01*rho02 + sqrt((1-rho01^2)(1-rho02^2)) that makes the matrix singular: 0.6, 0.8 -> 0.96
    eps_n, eps_d = rng.choice([(1, 10000), (1, 1000000)])
    f = Fraction(24, 25) - Fraction(eps_n, eps_d)
    return [[0, 1, 3, 5], [0, 2, 4, 5], [1, 2, f.numerator, f.denominator]]


def gen_design_case(rng):
    k = rng.choice([1, 2, 2, 3, 3, 3])
    kind, corr_pos = gen_corr(rng, k)
    near = k >= 2 and rng.random() < 0.25
    if near:
        corr_pos = near_singular(rng, k)
    if k == 3 and rng.random() < 0.3:
        t = rng.choice(CANCEL3_DYADIC)
        corr_pos = [[i, j] + frac(*v) for (i, j), v in zip(((0, 1), (0, 2), (1, 2)), t) if v[0] != 0]
    rho = {}
    for i, j, num, den in corr_pos:
        rho[(i, j)] = rho[(j, i)] = Fraction(num, den)
    # the covariance of the draws does not depend on the order of the sources: positions are used as creation indices
    sources, _ = mc.gen_sources(rng, k, repeated_ok=True, positive_error=True)
    if near:        # ordinary magnitudes: the small variance of a - b must stay visible next to the central values
        sources = [mc.gen_source(rng, repeated_ok=False, positive_error=True) for _ in range(k)]
    equalize(rng, sources)
    rounds = []
    if k >= 2 and rng.random() < 0.6:
        for _ in range(rng.randint(1, 3)):
            kind2, cp2 = gen_corr(rng, k)
            if near and rng.random() < 0.6:
                cp2 = near_singular(rng, k)
            if k == 3 and rng.random() < 0.3:
                t2 = rng.choice(CANCEL3_DYADIC)
                cp2 = [[i, j] + frac(*v_) for (i, j), v_ in zip(((0, 1), (0, 2), (1, 2)), t2) if v_[0] != 0]
            reset = rng.random() < 0.25
            if not reset:       # pairs that are not mentioned keep their factor: set them explicitly (possibly to another value)
                pass
            rounds.append({"reset": reset, "set": [c[:4] + [rng.choice(HOWS)] for c in cp2]})
    if any(s["kind"] != "single" for s in sources) and rounds:
        for rnd in rounds:      # covariance forms use std, which differs from the uncertainty for readings: keep to correlations
            for c in rnd["set"]:
                c[4] = c[4].replace("cov-", "")
    coef = [fx(rng.choice([1.0, -1.0, 2.0, 0.5, -1.5, 3.0])) for _ in range(k)]
    if near and rng.random() < 0.6:     # the difference of the almost fully correlated pair: variance nearly cancels
        i_, j_, n_, _d = corr_pos[0]
        e_i, e_j = float.fromhex(sources[i_]["error"]), float.fromhex(sources[j_]["error"])
        coef = [fx(0.0)] * k
        coef[i_], coef[j_] = fx(1.0 / e_i if e_i else 1.0), fx((-1.0 if n_ > 0 else 1.0) / e_j if e_j else 1.0)
    return {"sources": sources, "corr": corr_pos, "pd": minors_pd(k, rho), "rounds": rounds,
            "coef": coef,
            "const": fx(rng.choice([0.0, 1.0, -2.5])), "size_mode": rng.choice(["global", "own"])}


def check_samerow(case):
    """uncorrelated sources, every source receives the same offsets: samples must be f(v_i + error_i * z_n), undefined
    outcomes dropped, value / error their mean and ddof-1 standard deviation"""
    q = mc._q()
    script = SameRowScript(case["seed"], case["okind"])
    with warnings.catch_warnings():
        warnings.simplefilter("ignore")
        with mc.patched_normal(script):
            try:
                mc.reset_globals()
                q.set_error_method(q.ErrorMethod.MONTE_CARLO)
                q.set_monte_carlo_sample_size(case["g"])
                meas = [mc.make_measurement(s) for s in case["sources"]]
                objs = []
                for d in case["defs"]:
                    objs.append(mc.build_value(d, meas, objs))
                res = objs[-1]
                N = case["own"] if case.get("own") else case["g"]
                if case.get("pre_read"):
                    # intermediate results are read (simulated, with the same sample size) BEFORE the final formula:
                    # the final simulation must evaluate them on ITS joint draws, not reuse their buffered samples
                    import qexpy.data.data as dt
                    for j, o_ in enumerate(objs[:-1]):
                        if isinstance(o_, dt.DerivedValue):
                            script.current = "intermediate{}".format(j)
                            if case.get("own"):
                                o_.mc.sample_size = case["own"]
                            _ = o_.value, o_.error
                script.current = "warm-up"
                if case.get("own"):
                    res.mc.sample_size = case["own"]
                script.current = "final"
                try:
                    value, error = res.value, res.error
                    S = [float(x) for x in res.mc.samples()]
                except Exception as e:  # noqa
                    return "reading the result raises {}: {}".format(type(e).__name__, str(e)[:80])
                v = [Fraction(float(m.value)) for m in meas]
                e = [Fraction(float(m.error)) for m in meas]
                sd = [Fraction(float(m.std)) for m in meas]
            finally:
                mc.reset_globals()
    row = [Fraction(z) for z in script.row("final", N)]
    if len(script.calls[-1]) != N:
        return "the last simulation drew {} offsets per source, configured size is {}".format(len(script.calls[-1]), N)
    want = []
    for z in row:
        y = mc.eval_exact(case["defs"][-1], case["defs"], [vi + ei * z for vi, ei in zip(v, e)])
        if y is not None:
            want.append(y)
    if any(not math.isfinite(x) for x in S):
        return "the retrievable samples contain a non-finite outcome"
    if len(S) != len(want):
        return "{} samples retrieved, {} of the {} draws are defined".format(len(S), len(want), N)
    sc = max([abs(y) for y in want] + [Fraction(0)]) or Fraction(1)
    E = mc.rounding_units(case)
    if math.isfinite(E):
        sc = max(sc, Fraction(E) * 10)      # ill-conditioned formulas: the slack follows the magnitudes inside the formula
    for a, b in zip(S, want):
        if not close(Fraction(a), b, scale=sc):
            alt = None
            if any(s != ee for s, ee in zip(sd, e)):
                alt = "the spread of the readings instead of the uncertainty?"
            return "sample {} differs from the formula at central value + uncertainty * offset = {}{}".format(
                a, float(b), " (" + alt + ")" if alt else "")
    if len(want) >= 2:
        m = sum(want) / len(want)
        var = sum((y - m) ** 2 for y in want) / (len(want) - 1)
        vo, eo = mc.num_obs(value), mc.num_obs(error)
        if vo is None or not close(fr(vo), m, scale=sc):
            return "value {} is not the mean {} of the {} finite outcomes".format(value, float(m), len(want))
        if eo is None or not close_var(fr(eo), var, sc):
            return "uncertainty {} is not the sample standard deviation (ddof=1) {} of the {} finite outcomes".format(
                error, math.sqrt(var), len(want))
    return None


def gen_samerow_case(rng, seed):
    k = rng.choice([1, 2, 2, 3])
    allow_div = rng.random() < 0.4
    case = {"seed": seed, "okind": "coarse" if allow_div else rng.choice(["uniform", "two", "peak"]),
            "g": rng.choice([6, 10, 16, 40]),
            "sources": mc.gen_sources(rng, k, repeated_ok=True, positive_error=True)[0],
            "defs": mc.gen_defs(rng, k, allow_div=allow_div, depth=3, require_all=False),
            "own": rng.choice([None, None, 7, 25]), "pre_read": rng.random() < 0.5}
    if case["pre_read"] and len(case["defs"]) == 1 and rng.random() < 0.7:
        # make sure there IS an intermediate result that shares a source with the final formula
        inner = case["defs"][0]
        case["defs"] = [inner, [rng.choice(["sub", "add", "mul"]), ["ref", 0], ["var", rng.randrange(k)]]]
    return case


# ---- exact Gaussian moments (thorough tier: a statistical test, not a proof) -----------------------------
def poly_mul(p, q_):
    out = {}
    for ma, ca in p.items():
        for mb, cb in q_.items():
            m = tuple(a + b for a, b in zip(ma, mb))
            out[m] = out.get(m, 0) + ca * cb
    return out


def poly_add(p, q_, s=1):
    out = dict(p)
    for m, c in q_.items():
        out[m] = out.get(m, 0) + s * c
    return out


def poly_of(tree, defs, k, v):
    """polynomial in the centred variables y_i = x_i - v_i (dict exponent tuple -> Fraction)"""
    t = tree[0]
    zero = tuple([0] * k)
    if t == "var":
        m = list(zero)
        m[tree[1]] = 1
        return {tuple(m): Fraction(1), zero: v[tree[1]]}
    if t == "cst":
        return {zero: fr(tree[1])}
    if t == "ref":
        return poly_of(defs[tree[1]], defs, k, v)
    if t == "neg":
        return {m: -c for m, c in poly_of(tree[1], defs, k, v).items()}
    a, b = poly_of(tree[1], defs, k, v), poly_of(tree[2], defs, k, v)
    if t == "add":
        return poly_add(a, b)
    if t == "sub":
        return poly_add(a, b, -1)
    if t == "mul":
        return poly_mul(a, b)
    raise ValueError("not a polynomial")


def gauss_moment(alpha, cov, memo):
    """E[prod y_i^alpha_i] for a centred Gaussian vector with covariance cov (Isserlis, by Stein's recursion)"""
    if alpha in memo:
        return memo[alpha]
    if all(a == 0 for a in alpha):
        return Fraction(1)
    if sum(alpha) % 2:
        return Fraction(0)
    i = next(j for j, a in enumerate(alpha) if a)
    rest = list(alpha)
    rest[i] -= 1
    total = Fraction(0)
    for j, a in enumerate(rest):
        if a:
            nxt = list(rest)
            nxt[j] -= 1
            total += cov[i][j] * a * gauss_moment(tuple(nxt), cov, memo)
    memo[alpha] = total
    return total


def expect(poly, cov, memo):
    return sum(c * gauss_moment(m, cov, memo) for m, c in poly.items())


def check_statistical(case):
    q = mc._q()
    k = len(case["sources"])
    N = case["N"]
    with warnings.catch_warnings():
        warnings.simplefilter("ignore")
        try:
            mc.reset_globals()
            np.random.seed(case["np_seed"])
            q.set_error_method(q.ErrorMethod.MONTE_CARLO)
            q.set_monte_carlo_sample_size(N)
            meas = [mc.make_measurement(s) for s in case["sources"]]
            rho = {}
            for i, j, num, den in case["corr"]:
                q.set_correlation(meas[i], meas[j], num / den)
                rho[(i, j)] = rho[(j, i)] = Fraction(num, den)
            objs = []
            for d in case["defs"]:
                objs.append(mc.build_value(d, meas, objs))
            res = objs[-1]
            value, error = float(res.value), float(res.error)
            n = len(res.mc.samples())
            v = [Fraction(float(m.value)) for m in meas]
            e = [Fraction(float(m.error)) for m in meas]
        finally:
            mc.reset_globals()
    if n != N:
        return "{} samples for a configured size of {}".format(n, N)
    cov = [[(Fraction(1) if i == j else rho.get((i, j), Fraction(0))) * e[i] * e[j] for j in range(k)] for i in range(k)]
    p = poly_of(case["defs"][-1], case["defs"], k, v)
    memo = {}
    m1 = expect(p, cov, memo)
    p2 = poly_mul(p, p)
    m2 = expect(p2, cov, memo)
    var = m2 - m1 * m1
    if var <= 0:
        return None
    pc = poly_add(p, {tuple([0] * k): m1}, -1)
    pc2 = poly_mul(pc, pc)
    mu4 = expect(poly_mul(pc2, pc2), cov, memo)
    se_mean = math.sqrt(var / N)
    se_var = math.sqrt(max(mu4 - var * var, 0) / N)
    if abs(value - float(m1)) > 6 * se_mean:
        return ("N = {}: value {} is {:.1f} standard errors away from the exact mean {} of the formula under the stated "
                "normal model".format(N, value, abs(value - float(m1)) / se_mean, float(m1)))
    if abs(error * error - float(var)) > 6 * se_var + 1e-12:
        return ("N = {}: uncertainty {} (variance {}) is {:.1f} standard errors away from the exact standard deviation {} "
                "(variance {}) under the stated normal model".format(
                    N, error, error * error, abs(error * error - float(var)) / max(se_var, 1e-300), math.sqrt(var), float(var)))
    return None


def gen_stat_case(rng):
    k = rng.choice([1, 2, 3, 3])
    def pd_(cp):
        rho = {}
        for i, j, num, den in cp:
            rho[(i, j)] = rho[(j, i)] = Fraction(num, den)
        return minors_pd(k, rho)
    kind, corr_pos = gen_corr(rng, k)
    while not pd_(corr_pos):
        kind, corr_pos = gen_corr(rng, k)
    for _ in range(30):
        defs = mc.gen_defs(rng, k, allow_div=False, depth=2, require_all=True)
        if not any(mc.tree_has(d, "div", defs) for d in defs):
            break
    return {"sources": [mc.gen_source(rng, repeated_ok=True, positive_error=True) for _ in range(k)], "corr": corr_pos,
            "defs": defs, "N": 200000, "np_seed": rng.getrandbits(31)}


def check_sizes(case):
    """N is the configured sample size, per quantity if one was assigned, global otherwise -- whatever the history of
    assignments (pin to a size equal to the global one of the moment, change the global size, recalculate ...).
    Sizes are checked right after a recalculation / assignment (a later change of the global size alone leaves an
    already drawn set, by design)."""
    q = mc._q()
    script = mc.Script(case["seed"], "uniform")
    with warnings.catch_warnings():
        warnings.simplefilter("ignore")
        with mc.patched_normal(script):
            try:
                mc.reset_globals()
                q.set_error_method(q.ErrorMethod.MONTE_CARLO)
                glob = case["g"]
                q.set_monte_carlo_sample_size(glob)
                meas = [mc.make_measurement(s) for s in case["sources"]]
                objs = []
                for d in case["defs"]:
                    objs.append(mc.build_value(d, meas, objs))
                res = objs[-1]
                own = 0
                for idx, st in enumerate(case["steps"]):
                    if st[0] == "global":
                        glob = st[1]
                        q.set_monte_carlo_sample_size(glob)
                        continue
                    if st[0] == "pin":
                        own = st[1]
                        res.mc.sample_size = own
                    elif st[0] == "reset":
                        own = 0
                        res.mc.reset_sample_size()
                    elif st[0] == "recalc":
                        res.recalculate()
                    want = own if own else glob
                    got_cfg = res.mc.sample_size
                    S = [float(x) for x in res.mc.samples()]
                    value, error = float(res.value), float(res.error)
                    how = "own size {}".format(own) if own else "no own size"
                    if got_cfg != want:
                        return "step {} {}: the configured sample size reads {}, expected {} ({}, global size {})".format(
                            idx, st, got_cfg, want, how, glob)
                    if len(S) != want:
                        return "step {} {}: the result is built from {} draws, expected N = {} ({}, global size {})".format(
                            idx, st, len(S), want, how, glob)
                    if len(S) >= 2:
                        xs = [Fraction(x) for x in S]
                        m = sum(xs) / len(xs)
                        var = sum((x - m) ** 2 for x in xs) / (len(xs) - 1)
                        sc = max(abs(x) for x in xs) or Fraction(1)
                        if not close(Fraction(value), m, scale=sc) or not close_var(Fraction(error), var, sc):
                            return "step {} {}: value / uncertainty are not the mean / ddof-1 deviation of the {} draws".format(
                                idx, st, len(S))
            finally:
                mc.reset_globals()
    return None


def gen_sizes_case(rng, seed):
    k = rng.choice([1, 2])
    sizes = [5, 8, 12, 20, 33]
    g0 = rng.choice(sizes)
    other = lambda x: rng.choice([s for s in sizes if s != x])
    g1 = other(g0)
    shape = rng.randrange(6)
    if shape == 0:      # pin to the global size of the moment, change the global size, recalculate
        steps = [["pin", g0], ["global", g1], ["recalc"]]
    elif shape == 1:    # the other order: change the global size first, then pin to the NEW global size, change it back
        steps = [["global", g1], ["pin", g1], ["global", g0], ["recalc"]]
    elif shape == 2:    # pinned, then un-pinned: follows the global size again
        steps = [["pin", g0], ["global", g1], ["recalc"], ["reset"], ["global", other(g1)], ["recalc"]]
    elif shape == 3:    # pin to a different size, then re-pin to the current global one
        steps = [["pin", g1], ["pin", g0], ["global", g1], ["recalc"]]
    elif shape == 4:    # never pinned
        steps = [["recalc"], ["global", g1], ["recalc"]]
    else:
        steps = []
        for _ in range(rng.randint(3, 7)):
            r = rng.random()
            if r < 0.35:
                steps.append(["pin", rng.choice(sizes + [0])])
            elif r < 0.65:
                steps += [["global", rng.choice(sizes)], ["recalc"]]
            elif r < 0.8:
                steps.append(["reset"])
            else:
                steps.append(["recalc"])
    return {"seed": seed, "g": g0, "sources": mc.gen_sources(rng, k, repeated_ok=False, positive_error=True)[0],
            "defs": mc.gen_defs(rng, k, allow_div=False, depth=2, require_all=False), "steps": steps}


def check_precision(case):
    """large central values with tiny uncertainties (|mean| / std up to 1e10): value and uncertainty must still be the mean
    and the ddof-1 standard deviation of the retrievable samples, to a conditioning-aware RELATIVE tolerance"""
    q = mc._q()
    script = mc.Script(case["seed"], "real")
    with warnings.catch_warnings():
        warnings.simplefilter("ignore")
        with mc.patched_normal(script):
            try:
                mc.reset_globals()
                q.set_error_method(q.ErrorMethod.MONTE_CARLO)
                q.set_monte_carlo_sample_size(case["g"])
                meas = [mc.make_measurement(s) for s in case["sources"]]
                for i, j, num, den in case.get("corr", []):
                    q.set_correlation(meas[i], meas[j], num / den)
                objs = []
                for d in case["defs"]:
                    objs.append(mc.build_value(d, meas, objs))
                res = objs[-1]
                if case.get("range"):
                    res.mc.set_xrange(*[float.fromhex(x) for x in case["range"]])
                value, error = res.value, res.error
                S = [Fraction(float(x)) for x in res.mc.samples()]
            finally:
                mc.reset_globals()
    if case.get("range"):
        lo, hi = [fr(x) for x in case["range"]]
        S = [x for x in S if lo <= x <= hi]
    if len(S) < 2:
        return None
    m = sum(S) / len(S)
    var = sum((x - m) ** 2 for x in S) / (len(S) - 1)
    sc = max(abs(x) for x in S) or Fraction(1)
    vo, eo = mc.num_obs(value), mc.num_obs(error)
    std = math.sqrt(var)
    ratio = float(abs(m)) / std if std > 0 else float("inf")
    if vo is None or abs(fr(vo) - m) > sc / 10 ** 13 + Fraction(std) / 10 ** 9:
        return "value {} is not the mean {!r} of the {} retrievable samples (|mean|/std = {:.1e})".format(
            value, float(m), len(S), ratio)
    if eo is None or not close_var(fr(eo), var, sc):
        return ("uncertainty {} is not the sample standard deviation {!r} (ddof=1) of the {} retrievable samples, whose mean "
                "is {!r} (|mean|/std = {:.1e})".format(error, std, len(S), float(m), ratio))
    return None


def gen_precision_case(rng, seed):
    v0 = rng.choice([1e9, 4e7, 2.0 ** 30 + 0.75, 1.0, 1e3, -2.5e8])
    rel = rng.choice([2e-9, 1e-7, 2.5e-10, 1e-8, 1e-6])
    e0 = abs(v0) * rel
    src = lambda v, e: {"kind": "single", "value": fx(v), "error": fx(e)}
    shape = rng.choice(["x", "x+y", "x-y corr", "2x", "x*c"])
    corr = []
    if shape == "x":
        sources, defs = [src(v0, e0)], [["mul", ["var", 0], ["cst", fx(1.0)]]]
    elif shape == "2x":
        sources, defs = [src(v0, e0)], [["add", ["var", 0], ["var", 0]]]
    elif shape == "x*c":
        sources, defs = [src(v0, e0)], [["mul", ["cst", fx(0.5)], ["var", 0]]]
    elif shape == "x+y":
        sources, defs = [src(v0, e0), src(v0 / 4, e0 * 2)], [["add", ["var", 0], ["var", 1]]]
    else:       # strongly correlated difference on top of a large offset
        sources = [src(v0, e0), src(v0 / 2, e0)]
        defs = [["sub", ["var", 0], ["var", 1]]]
        corr = [[0, 1] + rng.choice([[4, 5], [24, 25], [12, 13]])]
    case = {"seed": seed, "g": rng.choice([16, 64, 400, 2000]), "sources": sources, "defs": defs, "corr": corr}
    if rng.random() < 0.25:
        c = v0 if shape in ("x",) else None
        if c is not None:
            case["range"] = [fx(c - 1.5 * e0), fx(c + 1.0 * e0)]
    return case


CHECKS = {"precision": check_precision, "design": check_design, "samerow": check_samerow, "statistical": check_statistical, "sizes": check_sizes}


def search(ctx, suspects, budget):
    t0 = time.time()
    rng = ctx.rng
    out, seen = [], set()
    counts = {"design": 0, "samerow": 0, "statistical": 0, "sizes": 0, "precision": 0}

    def report(kind, case, why):
        key = kind + ":" + why.split(" ")[0] + why[-30:] if kind != "statistical" else kind
        key = kind + ":" + "".join(ch for ch in why if not ch.isdigit())[:60]
        if key in seen:
            return
        seen.add(key)
        out.append(Violation(ID, kind, case, why))

    for c in load_corpus():
        if c.get("kind") in CHECKS:
            why = CHECKS[c["kind"]](c["case"])
            if why:
                report(c["kind"], c["case"], why)
    seedbase = rng.getrandbits(48)
    while len(out) < 4 and (counts["design"] < ctx.n(120, 1500)) and time.time() - t0 < budget * 0.45:
        c = gen_design_case(rng)
        counts["design"] += 1
        why = check_design(c)
        if why:
            # shrink: drop sources that are not needed
            report("design", c, why)
    while len(out) < 4 and (counts["samerow"] < ctx.n(120, 1500)) and time.time() - t0 < budget * 0.9:
        c = gen_samerow_case(rng, "s{}-{}".format(seedbase, counts["samerow"]))
        counts["samerow"] += 1
        why = check_samerow(c)
        if why:
            small = dict(c)
            for g in (6, 4, 3, 2):
                cand = dict(small, g=g, own=None)
                try:
                    if check_samerow(cand):
                        small = cand
                except Exception:  # noqa
                    pass
            report("samerow", small, check_samerow(small) or why)
    while len(out) < 5 and counts["precision"] < ctx.n(40, 600):
        c = gen_precision_case(rng, "p{}-{}".format(seedbase, counts["precision"]))
        counts["precision"] += 1
        why = check_precision(c)
        if why:
            small = dict(c)
            for g_ in (16, 8, 4):
                cand = dict(small, g=g_)
                try:
                    if check_precision(cand):
                        small = cand
                except Exception:  # noqa
                    pass
            report("precision", small, check_precision(small) or why)
    while len(out) < 5 and counts["sizes"] < ctx.n(90, 900):
        c = gen_sizes_case(rng, "z{}-{}".format(seedbase, counts["sizes"]))
        counts["sizes"] += 1
        why = check_sizes(c)
        if why:
            def fails(steps, c=c):
                return check_sizes(dict(c, steps=steps)) is not None
            small = dict(c, steps=shrink_list(c["steps"], fails))
            report("sizes", small, check_sizes(small) or why)
    if not ctx.quick:
        n_stat = 3 if not suspects else 6
        for _ in range(n_stat):
            c = gen_stat_case(rng)
            counts["statistical"] += 1
            why = check_statistical(c)
            if why:
                report("statistical", c, why)
    ctx.notes.append("oracle: {} whitened-design cases, {} exact-sample cases, {} size histories, {} precision cases, {} statistical "
                     "cases (N = 200000, 6 sigma)".format(counts["design"], counts["samerow"], counts["sizes"],
                                                          counts["precision"], counts["statistical"]))
    return out


def load_corpus():
    d = os.path.join(core.VERIF, "corpus", ID)
    out = []
    if os.path.isdir(d):
        for f in sorted(os.listdir(d)):
            if f.endswith(".json"):
                out.append(json.load(open(os.path.join(d, f))))
    return out


def replay(ctx, v):
    why = CHECKS[v["kind"]](v["case"]) if v["kind"] in CHECKS else None
    return Violation(ID, v["kind"], v["case"], why) if why else None
