"""C03 -- derivative() returns the true partial derivative of the composed formula."""
import json
import os
import time

from vlib import core, coq
from vlib.core import CorrResult, Violation
from props import corelib as CL
from props import c01

ID = "C03"
MANIFEST = {
    "technique": "Rocq proof: one Coquelicot is_derive lemma per operator rule GENERATED from DIFFERENTIATORS (all 14 unary, 6 binary in "
                 "both operand positions, integer constant powers), chain rule by induction over the object DAG; vm_compute "
                 "correspondence of derivative() on the rational fragment; Ridders finite-difference oracle",
    "level_text": "C03_is_derive is a machine-checked theorem over the reals: for every well-formed object DAG inside the operators' domains, "
                  "every object k and measurement m, the model's derivative (the recursion of derivative()/differentiate with the rule table "
                  "that tools/gens/opstable.py regenerates from operations.py on every run) is the derivative of k's value as a function of "
                  "m's central value; C03_unrelated (0) and C03_self (1) complete the statement. A changed rule breaks its rule lemma. The "
                  "hand-written recursion is tied to the code by executing it in Q against r.derivative(m) for every measurement of random "
                  "DAGs; an independent finite-difference oracle finds the failing formula.",
    "level_note": "Trusted: Coq kernel + stdlib real-number axioms (sig_forall_dec, sig_not_dec, functional_extensionality_dep, classic via "
                  "Coquelicot) as listed by Print Assumptions; translator vocabulary map; Base/RealOps.v Rpow as the meaning of ** on reals; "
                  "float rounding modelled (1e-9); transcendental rules are tied by translation + proof + oracle, not executed in Q.",
    "design_ref": "DESIGN.md section 4 C03",
}
GEN = ["OpsTable"]
PROPS_FILE = "Props/C03.v"
MODEL_TARGETS = ["Model/CoreQ.v"]
EXTRA_TARGETS = ["Model/CoreQ.v"]
TRUSTED = c01.TRUSTED
ASSUMPTIONS = c01.ASSUMPTIONS


def correspondence(ctx):
    cases, res = c01.run_cases(ctx, ctx.n(160, 3500), rational_share=0.8, with_sources=False)
    # for C03 only derivatives are compared (value/error/sources are C01's): drop sources, keep numbers
    res.rule = ("random expression DAGs as in C01 (80% in the rational fragment); observed r.derivative(m) for EVERY measurement m "
                "of the session (sources and unrelated ones) and every derived object r; compared in Q with Model.Core.deriv; central "
                "values include 0, 1, -1, 2, 10, 100 and equal values in distinct measurements, constants arrive as numpy scalars / "
                "Fraction / bool, results are sometimes read before they are used; second phase: a value, an uncertainty or the "
                "central value of an INTERMEDIATE result is changed, everything recalculated and observed again. "
                "non-trivial = at least two derived objects, distinct by content")
    res.samples = [{"steps": c["steps"][:8]} for c in cases[:2] if "steps" in c]
    for c in cases:
        if "error" in c:
            res.disagreements.append({"name": "implementation raised on an in-domain program: " + c["error"][:120],
                                      "kind": "program", "case": {"steps": c["steps"], "corr": c["corr"]}})
        else:
            for o in c["obs"]:
                o["sources"] = None
    shards, index = [], []
    good = [(i, c) for i, c in enumerate(cases) if "model" in c and c["obs"]]
    from vlib.coqfmt import Interner, coq_list
    for k in range(0, len(good), 40):
        chunk = good[k:k + 40]
        I = Interner()
        body = coq_list([CL.coq_case(c["model"], c["corr"], c["obs"], I) for _, c in chunk])
        text = CL.HEADER + I.text() + "Definition cases : list case := {}.\n".format(body) + \
            "Eval vm_compute in (bad_indices check_case_derivs cases).\n" + \
            "Eval vm_compute in ([fold_right Nat.add 0%nat (map compared cases)]).\n"
        shards.append(text)
        index.append([i for i, _ in chunk])
    bads, logs = coq.run_case_files(ID, shards, keep=getattr(ctx, "keep_cases", False))
    compared = 0
    for idx, bad, log in zip(index, bads, logs):
        if bad is None:
            res.disagreements.append({"name": "case file did not evaluate: " + log.strip().split("\n")[-1][:200], "case": None})
            continue
        for i in bad[0]:
            c = cases[idx[i]]
            res.disagreements.append({"name": "Model.Core.deriv vs DerivedValue.derivative", "kind": "program",
                                      "case": {"steps": c["steps"], "corr": c["corr"], "change": c.get("change")}})
        if len(bad) > 1 and bad[1]:
            compared += bad[1][0]
    res.extra["numbers_compared_in_Q"] = compared
    return res


def oracle_program(steps, corr, change=None):
    """with [change] = (measurement, new value): after a first round of reads the central value is changed, every
    result recalculated and all derivatives checked again at the NEW central values"""
    try:
        w = CL.execute(steps, corr)
    except Exception as e:
        return "the implementation raised {}: {}".format(type(e).__name__, str(e)[:100])
    ms = w.measurement_ids()
    for a in ms:
        for b in ms:
            d = w.objs[a].derivative(w.objs[b])
            if d != (1 if a == b else 0):
                return "measurement {} .derivative(measurement {}) = {}".format(a, b, d)
    model = list(w.model)
    for phase in (1, 2):
        for k in (w.derived_ids() if phase == 1 else reversed(w.derived_ids())):
            try:
                obs = w.observe(k, with_sources=False)
            except Exception as e:
                return "reading object {} raised {}: {}".format(k, type(e).__name__, str(e)[:100])
            srcs = CL.reachable_measurements(model, k)
            pre = "" if phase == 1 else "after {} of object {} := {} and recalculate(): ".format(*CL.norm_change(change)[:3])
            for m, d in obs["derivs"]:
                if m not in srcs and d != 0:
                    return pre + "object {} does not depend on measurement {} but derivative = {}".format(k, m, d)
            why = CL.oracle_object(model, corr, dict(obs, error=None), derivs_only=True)
            if why:
                return pre + "object {} ({}): {}".format(k, model[k], why)
        if not change or phase == 2:
            break
        CL.apply_change_impl(w, change)
        for k in w.derived_ids():
            w.objs[k].recalculate()
        model = CL.apply_change_model(w.model, change)
    return None


def search(ctx, suspects, budget):
    t0 = time.time()
    out = []
    todo = [s["case"] for s in suspects if s.get("case")]
    d = os.path.join(core.VERIF, "corpus", ID)
    if os.path.isdir(d):
        for f in sorted(os.listdir(d)):
            if f.endswith(".json"):
                todo.append(json.load(open(os.path.join(d, f)))["case"])
    todo += [{"steps": st, "corr": co} for st, co in CL.typed_family()]
    n = 0
    prev = None
    core.fresh_impl()
    while len(out) < 3:
        change = None
        if todo:
            c = todo.pop(0)
            steps, corr, change = c["steps"], c["corr"], c.get("change")
        elif time.time() - t0 > budget:
            break
        else:
            steps, corr = CL.gen_program(ctx.rng, rational_only=ctx.rng.random() < 0.25)
            if ctx.rng.random() < 0.5:
                change = c01.change_for(steps, corr, ctx.rng)
        n += 1
        why = oracle_program(steps, corr, change)
        if why and not c01.alone_fails(oracle_program, steps, corr, change):
            # fine on its own from a fresh library state: it failed because of what an earlier program left behind
            sess = {"session": [prev, {"steps": steps, "corr": corr, "change": change}]} if prev else None
            if sess and c01.session_why(oracle_program, sess):
                out.append(Violation(ID, "program", sess, c01.session_why(oracle_program, sess)))
            else:
                out.append(Violation(ID, "program", {"steps": steps, "corr": corr, "change": change},
                                     why + " (only after the programs of this run, not reproduced from a fresh library state)"))
            core.fresh_impl()
            prev = None
            continue
        prev = {"steps": steps, "corr": corr, "change": change}
        if why:
            if change is None or c01.alone_fails(oracle_program, steps, corr, None):
                change = None
                # (every candidate is judged from a fresh library state: the shrunk program fails on its own)
                steps, corr = c01.shrink_program(steps, corr, lambda s, c: c01.alone_fails(oracle_program, s, c, None))
            core.fresh_impl()
            why = oracle_program(steps, corr, change) or why
            out.append(Violation(ID, "program", {"steps": steps, "corr": corr, "change": change}, why))
    ctx.notes.append("oracle: {} programs, every (object, measurement) derivative against finite differences".format(n))
    CL.reset_world()
    return out


def replay(ctx, v):
    if "session" in v["case"]:
        why = c01.session_why(oracle_program, v["case"])
        CL.reset_world()
        return Violation(ID, v["kind"], v["case"], why) if why else None
    why = None
    for _ in range(6):      # (the library orders sources by random ids: an order-dependent failure shows in some runs only)
        why = oracle_program(v["case"]["steps"], v["case"]["corr"], v["case"].get("change"))
        if why:
            break
    CL.reset_world()
    return Violation(ID, v["kind"], v["case"], why) if why else None
