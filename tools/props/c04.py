"""C04 -- Correlation/covariance records are symmetric, consistent, bounded, isolated."""
import json
import math
import os
import time
import warnings
from fractions import Fraction

from vlib import core, coq
from vlib.core import CorrResult, Violation, shrink_list
from vlib.coqfmt import qlit, coq_list, coq_bool, Interner
from props import statlib as sl
from props.statlib import fx, hx, fr

ID = "C04"
MANIFEST = {
    "technique": "Rocq proof over a hand-written state-machine model of the correlation store (invariants by induction over all "
                 "operation histories, per-step consistency / isolation / rejection lemmas) + vm_compute correspondence of the model "
                 "with the implementation on random and exhaustive call histories + independent Fraction reference search",
    "level_text": "Machine-checked theorems (C04_symmetric, C04_getters, C04_set_corr_ok, C04_set_cov_ok, C04_consistent, "
                  "C04_accept_iff_corr/_cov, C04_reject_corr/_cov/_notq, C04_reject_untouched, C04_inferred_ok, C04_bounded, "
                  "C04_isolated, C04_default, C04_reset, C04_self, C04_record_persists; closed under the global "
                  "context, exact rational arithmetic) about Model/Corr.v, a Gallina transcription of data.set_/get_ correlation and "
                  "covariance in function and method form, the guards of MeasuredValue / RepeatedlyMeasuredValue in source order, "
                  "the clamped inferred covariance, reset_correlations and the attribute writes that change a standard deviation. "
                  "The quantification of the property (all finite call sequences, all requested numbers) is covered by induction over "
                  "fold_left step. The model is run against the implementation on every check: random histories over 2-5 quantities of "
                  "every class with exact boundary requests (|rho| = 1 exactly in doubles, one ulp inside / outside), inferred requests "
                  "incl. exactly collinear arrays, and exhaustive short histories over a two-quantity universe; the whole matrix of "
                  "get_correlation / get_covariance is compared after every call.",
    "level_note": "Trusted: Coq kernel; the hand transcription Model/Corr.v (tied by the correspondence, not by translation); floats "
                  "are taken as the rationals they denote and double rounding inside one multiplication / division is absorbed by a "
                  "1e-9 relative tolerance (decisions at the bound are generated so that they are exact in doubles); NaN / infinite "
                  "requests and reading arrays with fewer than two readings are outside the model; inferring a covariance between "
                  "arrays that carry individual uncertainties ends in AttributeError in the code and is modelled as such.",
    "design_ref": "DESIGN.md section 4 C04",
}
GEN = []
PROPS_FILE = "Props/C04.v"
MODEL_TARGETS = ["Model/CorrCases.v"]
EXTRA_TARGETS = ["Model/CorrCases.v"]
TRUSTED = [
    "Model/Corr.v: hand-written transcription of the correlation API of qexpy/data/data.py (tied by correspondence)",
    "Model/Stats.v: c_cov, the model of utils.calculate_covariance (tied by correspondence, proved equal to the textbook sample covariance)",
]
ASSUMPTIONS = [
    "doubles are taken as the exact rationals they denote; rounding inside cov = corr*std*std and corr = cov/(std*std) is "
    "absorbed by a 1e-9 relative tolerance; requests at the bound are built so that the double computation is exact",
    "requested numbers are finite (NaN is accepted by the code: neither nan > 1 nor nan < -1); Python and numpy scalar types "
    "are modelled by their numeric value (np.float32 requests are generated only where single-precision arithmetic is exact "
    "or the request is rejected whatever the rounding)",
    "reading arrays have at least two readings; quantity ids are distinct (UUIDs in the code, indices in the model)",
    "the std of a repeated measurement is an input of the model (the double the constructor computed; C10 ties it to the readings)",
]

NOTQ = 3.5          # a Python number where a quantity is expected
JUNK = "0.5"        # a string where a number is expected


# ---- running the implementation ---------------------------------------------------------------------
def exn_name(e):
    from qexpy.utils.exceptions import IllegalArgumentError, UndefinedActionError
    for cls, name in ((IllegalArgumentError, "EIllegalArg"), (UndefinedActionError, "EUndefinedAction"),
                      (ArithmeticError, "EArithmetic"), (ValueError, "EValue"), (TypeError, "EType"),
                      (AttributeError, "EAttribute")):
        if isinstance(e, cls):
            return name
    return "Other:" + type(e).__name__


def operand(objs, a):
    return NOTQ if a == "notq" else objs[a]


def argval(arg):
    if arg is None:
        return ()
    if arg[0] == "num":
        return (typed_number(fx(arg[1]), arg[2] if len(arg) > 2 else "float"),)
    if arg[0] == "none":
        return (None,)
    return (JUNK,)


def typed_number(v, tag):
    return sl.typed_number(v, tag)


def touch(q, obj):
    """read the object through every public attribute (evaluate, print) before it is used again"""
    str(obj), repr(obj)
    for attr in ("value", "error", "std", "relative_error", "name", "unit"):
        getattr(obj, attr, None)


def run_op(q, objs, op):
    """one call on the implementation -> ["done"] | ["ret", hex] | ["raised", name]"""
    kind = op[0]
    try:
        with warnings.catch_warnings():
            warnings.simplefilter("ignore")
            if kind in ("set_corr", "set_cov", "get_corr", "get_cov"):
                name = {"set_corr": "set_correlation", "set_cov": "set_covariance",
                        "get_corr": "get_correlation", "get_cov": "get_covariance"}[kind]
                a, b = operand(objs, op[2]), operand(objs, op[3])
                extra = argval(op[4]) if kind.startswith("set") else ()
                if op[1] == "fn":
                    r = getattr(q, name)(a, b, *extra)
                else:
                    r = getattr(a, name)(b, *extra)
                if kind.startswith("get"):
                    return ["ret", hx(r)] if sl.finite(r) else ["raised", "Other:nonfinite"]
                return ["done"]
            if kind == "reset":
                q.reset_correlations()
                return ["done"]
            if kind == "set_err":
                objs[op[1]].error = typed_number(fx(op[2]), op[3] if len(op) > 3 else "float")
                return ["done"]
            if kind == "touch":
                touch(q, objs[op[1]])
                r = q.get_correlation(objs[op[1]], objs[op[1]])
                return ["ret", hx(r)] if sl.finite(r) else ["raised", "Other:nonfinite"]
            if kind == "set_value":
                objs[op[1]].value = fx(op[2])
                return ["done"]
    except Exception as e:  # noqa
        return ["raised", exn_name(e)]
    raise ValueError(op)


def read_matrix(q, objs):
    out = []
    for a in objs:
        for b in objs:
            try:
                c, v = q.get_correlation(a, b), q.get_covariance(a, b)
                out.append([hx(c), hx(v)] if sl.finite(c) and sl.finite(v) else None)
            except Exception:  # noqa
                out.append(None)
    return out


def describe(objs, table):
    """what the model is told about each quantity: class, error, std, readings, plain"""
    out = []
    for o, qj in zip(objs, table):
        if qj[0] == "repeated":
            errs = qj[2]
            plain = errs is None or (isinstance(errs, list) and all(fx(h) == 0 for h in errs)) or \
                (isinstance(errs, str) and fx(errs) == 0)
            out.append(["repeated", hx(o.error), hx(o.std), qj[1], plain])
        elif qj[0] == "constant":
            out.append(["constant"])
        else:
            out.append([qj[0], hx(o.error)])
    return out


def run_prelude(q, case):
    """an earlier session in the same interpreter: other quantities (possibly with the same values, uncertainties,
    readings and names as those of the case) and their records; nothing is reset afterwards"""
    pre = case.get("prelude")
    if not pre:
        return None
    objs = [sl.build(qj) for qj in pre["table"]]
    for op in pre["ops"]:
        if op[0] != "reset":
            run_op(q, objs, op)
    return objs


def run_case(case):
    """-> (description of the quantities, initial matrix, [(op, outcome, matrix)])"""
    import qexpy as q
    q.reset_correlations()
    keep = run_prelude(q, case)             # an earlier session whose objects and records stay alive  # noqa: F841
    objs = sl.build_table(case["table"], case.get("aliasing"))
    desc = describe(objs, case["table"])
    m0 = read_matrix(q, objs)
    hist = []
    for op in case["ops"]:
        r = run_op(q, objs, op)
        hist.append((op, r, read_matrix(q, objs)))
    q.reset_correlations()
    return desc, m0, hist


# ---- generators ----------------------------------------------------------------------------------------
def gen_error(rng):
    return sl.dyadic(rng, 4, 4, positive=True, nonzero=True)


# the property is scale-free: every quantity has its own magnitude (powers of two keep the requests exact in doubles)
POW2_SCALES = [2.0 ** -30, 2.0 ** -40, 2.0 ** -50, 2.0 ** 20]


def gen_table(rng, scales=None):
    tab = _gen_table(rng)
    mode = rng.random()
    common = rng.choice(POW2_SCALES)
    out = []
    for qj in tab:
        f = 1.0 if mode < 0.6 else (common if mode < 0.75 else rng.choice(POW2_SCALES + [1.0, 1.0]))
        if scales is not None:
            scales.append(f)
        if f != 1.0:
            if qj[0] in ("single", "derived"):
                qj = [qj[0], hx(fx(qj[1]) * f), None if qj[2] is None else hx(fx(qj[2]) * f)]
            elif qj[0] == "repeated":
                xs = [fx(h) * f for h in qj[1]]
                e = qj[2]
                e = None if e is None else ([hx(fx(h) * f) for h in e] if isinstance(e, list) else hx(fx(e) * f))
                ok = qj[3] in ("list", "ndarray", "mixed", "npscalars") or all(sl.representable(x, sl.DTYPES[qj[3]]) for x in xs)
                qj = ["repeated", [hx(x) for x in xs], e, qj[3] if ok else "ndarray"]
        out.append(qj)
    return out


def _gen_table(rng):
    n = rng.choice([2, 3, 3, 4, 4, 5])
    common_len = rng.choice([2, 3, 3, 4, 5, 6, 8])
    table, plain_arrays = [], []
    heavy = rng.random() < 0.3                      # two or more plain repeated measurements of one length
    for i in range(n):
        r = rng.random()
        if heavy and i < 2 + (n > 3):
            r = 0.43 + 0.28 * r
        force_measured = i < 2 and rng.random() < 0.85
        if r < 0.36 or (force_measured and r >= 0.84):
            table.append(["single", hx(sl.dyadic(rng, 6, 2)), hx(gen_error(rng))])
        elif r < 0.42:
            table.append(["single", hx(sl.dyadic(rng, 6, 2)), rng.choice([None, hx(0.0)])])
        elif r < 0.72:
            ln = common_len if rng.random() < 0.8 else rng.choice([2, 3, 4, 5, 7])
            same = [xs for xs in plain_arrays if len(xs) == ln]
            u = rng.random()
            if same and u < 0.35:
                _, _, xs = sl.collinear(rng, rng.choice(same))
            elif ln == 3 and u < 0.75:
                xs = sl.gen_readings(rng, kind="exactstd")
            else:
                xs = sl.gen_readings(rng, n=ln, kind=rng.choice(["small", "small", "offset", "fine", "wide"]))
            plain_arrays.append(xs)
            errs = rng.choice([None, None, None, hx(0.0)])
            table.append(["repeated", [hx(x) for x in xs], errs, sl.pick_container(rng, xs, 0.3)])
        elif r < 0.78:
            ln = common_len if rng.random() < 0.8 else rng.choice([2, 3, 4])
            xs = sl.gen_readings(rng, n=ln, kind="small")
            errs = rng.choice([hx(gen_error(rng)), [hx(gen_error(rng)) for _ in xs]])
            table.append(["repeated", [hx(x) for x in xs], errs, "list"])
        elif r < 0.82:
            v = sl.dyadic(rng, 5, 1)
            table.append(["repeated", [hx(v)] * common_len, None, "list"])          # zero spread
        elif r < 0.92:
            table.append(["derived", hx(sl.dyadic(rng, 6, 2)), hx(rng.choice([gen_error(rng), 0.0]))])
        else:
            table.append(["constant", hx(sl.dyadic(rng, 6, 2))])
    return table


class Mirror:
    """what the generator needs to know about the quantities to aim its requests (never used for checking)"""

    def __init__(self, table):
        import qexpy as q  # noqa
        objs = [sl.build(qj) for qj in table]
        self.kind = [qj[0] for qj in table]
        self.err = [float(o.error) for o in objs]
        self.rstd = [float(o.std) if qj[0] == "repeated" else None for o, qj in zip(objs, table)]
        self.n = len(table)

    def std(self, i):
        return self.rstd[i] if self.kind[i] == "repeated" else self.err[i]

    def measured(self, i):
        return self.kind[i] in ("single", "repeated")

    def good(self):
        return [i for i in range(self.n) if self.measured(i) and self.std(i) != 0]

    def apply(self, op):
        if op[0] == "set_err" and self.measured(op[1]) and fx(op[2]) >= 0:
            self.err[op[1]] = fx(op[2])
        if op[0] == "set_value" and self.kind[op[1]] == "repeated":
            self.kind[op[1]] = "single"


def decidable(sa, sb, c):
    """the double decision |c / (sa*sb)| <= 1 equals the exact one"""
    if sa == 0 or sb == 0:
        return True
    ratio = abs(Fraction(c) / (Fraction(sa) * Fraction(sb)))
    d = abs(ratio - 1)
    if d > Fraction(1, 10 ** 9):
        return True
    return sl.exact_product(sa, sb)         # then fl(sa*sb) is exact and one correctly rounded division decides


DY_CORR = [0.0, 0.5, -0.5, 0.25, -0.75, 0.875, 1.0, -1.0, 0.125, -0.25, 0.9375, -0.984375]


def gen_number(rng, m, setter, a, b, mode):
    """an explicit number for set_<setter>(a, b, .) ; mode in 'in' | 'bound' | 'out'"""
    sa, sb = m.std(a), m.std(b)
    p = sa * sb
    if mode == "in":
        r = rng.choice(DY_CORR) if rng.random() < 0.6 else sl.dyadic(rng, 6, 6) / 1.0
        r = max(-1.0, min(1.0, r))
    elif mode == "bound":
        r = rng.choice([1.0, -1.0])
    else:
        r = rng.choice([1.5, -1.5, 2.0, -1.0625, 1.0 + 2.0 ** -30, -(1.0 + 2.0 ** -40), 1.0 + 2.0 ** -52, 64.0, -3.0])
    if setter == "set_corr":
        if mode == "bound" and rng.random() < 0.3:
            r = math.nextafter(r, 0.0)
        return r
    c = r * p
    if mode == "bound" and sl.exact_product(sa, sb) and p != 0:
        u = rng.random()
        if u < 0.3:
            c = math.nextafter(c, 0.0)            # one ulp inside
    if mode == "out" and sl.exact_product(sa, sb) and p != 0 and rng.random() < 0.35:
        c = math.nextafter(math.copysign(p, r), math.copysign(math.inf, r))       # one ulp outside
    if not decidable(sa, sb, c):
        c = 0.5 * p
    return c


def f32_exact(x):
    """the rational x is a float32 number"""
    import numpy as np
    f = float(x)
    return Fraction(f) == Fraction(x) and float(np.float32(f)) == f


def number_arg(rng, m, setter, a, b, v):
    """["num", hex, type tag]: the number v as a Python float / int / bool or as a numpy scalar.
    np.float32 makes the arithmetic of the request single precision, so it is only used when the request is
    rejected whatever the rounding or when every intermediate result is a float32 number."""
    u = rng.random()
    integral = float(v).is_integer() and abs(v) < 2 ** 31
    tag = "float"
    if u < 0.5:
        tag = "float"
    elif u < 0.72:
        tag = "float64"
    elif u < 0.84:
        tag = rng.choice(["int64", "int64", "int32", "int", "bool" if v in (0.0, 1.0) else "int"]) if integral else \
            rng.choice(["float64", "fraction"])
    else:
        tag = "float32"
    if tag == "float32":
        live = isinstance(a, int) and isinstance(b, int) and m.measured(a) and m.measured(b) and m.std(a) != 0 and m.std(b) != 0
        ok = f32_exact(Fraction(v))
        if ok and live:
            sa, sb = m.std(a), m.std(b)
            pr = Fraction(sa) * Fraction(sb)
            if not sl.exact_product(sa, sb) or not f32_exact(pr):
                ok = False
            elif setter == "set_corr":
                ok = abs(v) > 1 or f32_exact(Fraction(v) * pr)
            else:
                ratio = Fraction(v) / pr
                ok = abs(ratio) - 1 > Fraction(1, 10 ** 5) or f32_exact(ratio)
        if not ok:
            tag = "float64"
    return ["num", hx(v), tag]


def pick_pair(rng, m, want_good=True):
    good = m.good()
    if want_good and len(good) >= 2:
        a, b = rng.sample(good, 2)
        return a, b
    if want_good and len(good) == 1 and rng.random() < 0.5:
        return good[0], good[0]
    return rng.randrange(m.n), rng.randrange(m.n)


def gen_op(rng, m):
    r = rng.random()
    if r < 0.05:
        return ["reset"]
    if r < 0.12:
        meas = [i for i in range(m.n) if m.measured(i)] or [0]
        a = rng.choice(meas)
        if not m.measured(a):
            return ["reset"]
        u = rng.random()
        f = getattr(m, "scales", None)
        f = f[a] if f else 1.0
        e = 0.0 if u < 0.12 else (-gen_error(rng) * f if u < 0.22 else gen_error(rng) * f)
        tag = "float"
        if rng.random() < 0.35:
            tag = rng.choice(["float64", "fraction", "int" if float(e).is_integer() else "float64",
                              "float32" if sl.representable(e, "float32") else "float64"])
        return ["set_err", a, hx(e), tag]
    if r < 0.145:
        meas = [i for i in range(m.n) if m.measured(i)]
        if not meas:
            return ["reset"]
        return ["set_value", rng.choice(meas), hx(sl.dyadic(rng, 6, 2))]
    form = rng.choice(["fn", "fn", "meth"])
    if r < 0.27:
        a, b = pick_pair(rng, m, rng.random() < 0.6)
        u = rng.random()
        if u < 0.1:
            b = "notq"
        elif u < 0.15 and form == "fn":
            a = "notq"
        elif u < 0.17:
            a = "notq"
        return [rng.choice(["get_corr", "get_cov"]), form, a, b]
    setter = rng.choice(["set_corr", "set_cov"])
    if rng.random() < 0.7:                          # requests meant to be accepted
        a, b = pick_pair(rng, m)
        u = rng.random()
        both_rep = isinstance(a, int) and m.kind[a] == "repeated" and m.kind[b] == "repeated"
        if both_rep and u < 0.55:
            return [setter, form, a, b, None if rng.random() < 0.8 else ["none"]]
        mode = "bound" if u > 0.75 else "in"
        return [setter, form, a, b, number_arg(rng, m, setter, a, b, gen_number(rng, m, setter, a, b, mode))]
    u = rng.random()                               # requests meant to be rejected
    if u < 0.4:
        a, b = pick_pair(rng, m)
        return [setter, form, a, b, number_arg(rng, m, setter, a, b, gen_number(rng, m, setter, a, b, "out"))]
    if u < 0.6:                                     # a zero-uncertainty, calculated or constant operand
        a, b = rng.randrange(m.n), rng.randrange(m.n)
        bad = [i for i in range(m.n) if not m.measured(i) or m.std(i) == 0]
        if bad:
            if rng.random() < 0.5:
                a = rng.choice(bad)
            else:
                b = rng.choice(bad)
        sa, sb = m.std(a), m.std(b)
        v = rng.choice([0.0, 0.0, 0.0, -0.0, 0.25, -0.25, 1.0, -1.0, 2.0, 0.0078125,
                        0.25 * (sa * sb if setter == "set_cov" and sa * sb != 0 else 1.0)])
        return [setter, form, a, b, number_arg(rng, m, setter, a, b, v)]
    a, b = pick_pair(rng, m, rng.random() < 0.7)
    if u < 0.72:
        if rng.random() < 0.5:
            b = "notq"
        else:
            a = "notq"
        return [setter, form, a, b, number_arg(rng, m, setter, a, b, rng.choice([0.25, 0.0, 1.0]))]
    if u < 0.86:
        return [setter, form, a, b, rng.choice([None, ["none"]])]
    return [setter, form, a, b, ["junk"]]


def gen_case(rng):
    scales = []
    table = gen_table(rng, scales)
    case = {}
    if rng.random() < 0.3:                          # an earlier session in the same interpreter, not reset
        ptable = gen_table(rng)
        pm = Mirror(ptable)
        pops = []
        for _ in range(rng.randrange(2, 10)):
            op = gen_op(rng, pm)
            if op[0] in ("set_corr", "set_cov", "set_err"):
                pm.apply(op)
                pops.append(op)
        case["prelude"] = {"table": ptable, "ops": pops}
        for j, qj in enumerate(ptable):             # the case's quantities repeat values / readings of the earlier ones
            if j < len(table) and qj[0] == table[j][0] and qj[0] in ("single", "repeated") and rng.random() < 0.6 \
                    and scales[j] == 1.0:
                table[j] = [x for x in qj]
    make_twins(rng, table, scales)
    m = Mirror(table)
    m.scales = scales
    ops = []
    for _ in range(rng.randrange(6, 30)):
        u = rng.random()
        if u > 0.93:
            pat = same_number_after_change(rng, m)
            if pat:
                for op in pat:
                    m.apply(op)
                    ops.append(op)
                continue
        if ops and u < 0.1:
            op = ops[-1]                            # the same call (valid or not) offered twice
        elif u < 0.16:
            op = ["touch", rng.randrange(m.n)]      # read / print a quantity before it is used again
        else:
            op = gen_op(rng, m)
        m.apply(op)
        ops.append(op)
    case.update({"table": table, "ops": ops})
    if any(qj[0] == "repeated" for qj in table) and rng.random() < 0.35:
        case["aliasing"] = rng.choice(["mutate", "buffer"])      # the caller's arrays are re-used / modified after recording
    return case


def same_number_after_change(rng, m):
    """set_covariance(a, b, c) -> a.error changed -> set_covariance with the IDENTICAL number c (either order, either
    form) -> reads: the same covariance now means another correlation (0.5 / f), possibly out of range or exactly 1"""
    singles = [i for i in m.good() if m.kind[i] == "single"]
    if not singles:
        return None
    a = rng.choice(singles)
    others = [i for i in m.good() if i != a]
    if not others:
        return None
    b = rng.choice(others)
    sa, sb = m.std(a), m.std(b)
    c = 0.5 * (sa * sb)
    fs = [2.0, 4.0, 0.25, 0.25] + ([0.5] if sl.exact_product(sa, sb) else [])
    f = rng.choice(fs)
    def setc():
        x, y = (a, b) if rng.random() < 0.5 else (b, a)
        return ["set_cov", rng.choice(["fn", "meth"]), x, y, ["num", hx(c), "float"]]
    ops = [setc()]
    if rng.random() < 0.5:
        ops.append([rng.choice(["get_corr", "get_cov"]), "fn", a, b])
    ops.append(["set_err", a, hx(sa * f), "float"])
    ops.append(setc())
    if rng.random() < 0.4:
        ops.append(setc())
    ops.append(["get_corr", rng.choice(["fn", "meth"]), b, a])
    return ops


def make_twins(rng, table, scales):
    """distinct objects with equal central values, uncertainties, readings and names; quantities that are elements
    of a MeasurementArray; uncertainties given as int / numpy / Fraction numbers"""
    n = len(table)
    if n >= 2 and rng.random() < 0.3:
        i, j = rng.sample(range(n), 2)
        if table[i][0] == table[j][0] and table[i][0] in ("single", "repeated", "derived"):
            table[j] = [x for x in table[i]]
            scales[j] = scales[i]
    mode = rng.random()
    for i, qj in enumerate(table):
        opts = {}
        if qj[0] in ("single", "repeated", "derived"):
            if mode < 0.2:
                opts["name"] = "x"                  # every quantity under the same name
            elif mode < 0.3:
                opts["name"] = "x" if i % 2 else "y"
        if qj[0] == "single" and rng.random() < 0.15:
            opts["via"] = "array"
        if qj[0] == "single" and qj[2] is not None and rng.random() < 0.2:
            e = fx(qj[2])
            opts["etype"] = rng.choice(["float64", "fraction", "int" if e.is_integer() else "float64",
                                        "float32" if sl.representable(e, "float32") else "float64"])
        if opts:
            table[i] = [x for x in qj if not isinstance(x, dict)] + [opts]


def exhaustive_cases(depth):
    """every history of length <= depth over a two-quantity universe and a small call alphabet"""
    table = [["single", hx(3.0), hx(0.5)], ["single", hx(-2.0), hx(0.25)]]
    alpha = [
        ["set_corr", "fn", 0, 1, ["num", hx(0.5)]], ["set_corr", "meth", 1, 0, ["num", hx(-1.0)]],
        ["set_corr", "fn", 1, 0, ["num", hx(1.5)]], ["set_cov", "fn", 1, 0, ["num", hx(0.0625)]],
        ["set_cov", "meth", 0, 1, ["num", hx(0.125)]], ["set_cov", "fn", 0, 1, ["num", hx(-0.25)]],
        ["set_corr", "fn", 0, 0, ["num", hx(0.5)]], ["reset"], ["set_err", 0, hx(0.0)], ["set_err", 0, hx(2.0)],
        ["set_corr", "fn", 0, 1, None],
        ["set_cov", "meth", 1, 0, ["num", hx(0.0), "float64"]], ["set_corr", "fn", 0, 1, ["num", hx(0.0), "int64"]],
    ]
    out = []

    def rec(prefix, d):
        if prefix:
            out.append({"table": table, "ops": list(prefix)})
        if d == 0:
            return
        for a in alpha:
            rec(prefix + [a], d - 1)
    rec([], depth)
    return out


# ---- Coq encoding -----------------------------------------------------------------------------------------
def q_(h):
    return qlit(fx(h))


def coq_quantity(d):
    if d[0] == "single":
        return "(single {})".format(q_(d[1]))
    if d[0] == "derived":
        return "(derived {})".format(q_(d[1]))
    if d[0] == "constant":
        return "constant"
    return "(repeated {} {} {} {})".format(q_(d[1]), q_(d[2]), coq_list([q_(h) for h in d[3]]), coq_bool(d[4]))


def coq_operand(a):
    return "NotQ" if a == "notq" else "(Ref {})".format(a)


def coq_arg(arg):
    if arg is None or arg[0] == "none":
        return "ANone"
    if arg[0] == "num":
        return "(ANum {})".format(q_(arg[1]))
    return "AJunk"


def coq_op(op):
    k = op[0]
    if k in ("set_corr", "set_cov"):
        return "({} {} {} {} {})".format("SetCorr" if k == "set_corr" else "SetCov", "Fn" if op[1] == "fn" else "Meth",
                                         coq_operand(op[2]), coq_operand(op[3]), coq_arg(op[4]))
    if k in ("get_corr", "get_cov"):
        return "({} {} {} {})".format("GetCorr" if k == "get_corr" else "GetCov", "Fn" if op[1] == "fn" else "Meth",
                                      coq_operand(op[2]), coq_operand(op[3]))
    if k == "reset":
        return "Reset"
    if k == "touch":
        return "(GetCorr Fn (Ref {0}) (Ref {0}))".format(op[1])
    if k == "set_err":
        return "(SetErr {} {})".format(op[1], q_(op[2]))
    return "(SetValue {})".format(op[1])


COQ_EXN = {"EIllegalArg", "EUndefinedAction", "EArithmetic", "EValue", "EType", "EAttribute"}


def coq_out(r):
    if r[0] == "done":
        return "Done"
    if r[0] == "ret":
        return "(Ret {})".format(q_(r[1]))
    return "(Raised {})".format(r[1])


def encodable(desc, m0, hist):
    if any(x is None for x in m0):
        return False
    for _, r, mat in hist:
        if any(x is None for x in mat) or (r[0] == "raised" and r[1] not in COQ_EXN):
            return False
    return True


def coq_case(intern, desc, m0, hist):
    def mat(m):
        return intern("(mk_mat {})".format(coq_list(["({}, {})".format(q_(c), q_(v)) for c, v in m])))
    return "({}, {}, {})".format(
        coq_list([coq_quantity(d) for d in desc]), mat(m0),
        coq_list(["({}, {}, {})".format(coq_op(op), coq_out(r), mat(m)) for op, r, m in hist]))


HEADER = ("From Coq Require Import List ZArith QArith Bool.\nImport ListNotations.\n"
          "From QV Require Import Base.CaseLib Model.Stats Model.Corr Model.CorrCases.\nOpen Scope Q_scope.\n")


def nontrivial(hist):
    acc = any(op[0].startswith("set_c") and r[0] == "done" for op, r, _ in hist)
    rej = any(op[0].startswith("set_c") and r[0] == "raised" for op, r, _ in hist)
    return acc and rej


def classify(op, r):
    k = op[0]
    if k.startswith("set_c"):
        arg = op[4]
        how = "inferred" if arg is None or arg[0] == "none" else ("junk" if arg[0] == "junk" else "explicit")
        return "{}:{}:{}:{}".format(k, op[1], how, "accepted" if r[0] == "done" else r[1])
    if k.startswith("get"):
        return "{}:{}:{}".format(k, op[1], "value" if r[0] == "ret" else r[1])
    return "{}:{}".format(k, "ok" if r[0] in ("done", "ret") else r[1])


def correspondence(ctx):
    res = CorrResult()
    rng = ctx.rng
    cases = [c["case"] for c in load_corpus() if c.get("kind") == "history"]
    n_corpus = len(cases)
    cases += [gen_case(rng) for _ in range(ctx.n(300, 4000))]
    n_random = len(cases)
    cases += exhaustive_cases(ctx.n(2, 3))
    runs = []
    for i, case in enumerate(cases):
        desc, m0, hist = run_case(case)
        runs.append((case, desc, m0, hist))
        res.evaluations += 1
        res.traces += 1
        if i < n_random:
            for op, r, _ in hist:
                res.count(classify(op, r))
                if op[0].startswith("set_c") and op[4] is not None and op[4][0] == "num":
                    res.count("number-type:" + (op[4][2] if len(op[4]) > 2 else "float"))
                    if isinstance(op[2], int) and isinstance(op[3], int) and len(op[4]) > 2 and op[4][2] != "float" and \
                            any(d[0] in ("single", "repeated") and fx(d[2] if d[0] == "repeated" else d[1]) == 0
                                for d in (desc[op[2]], desc[op[3]])):
                        res.count("numpy-or-int number with a zero-uncertainty operand")
            for d in desc:
                sd = fx(d[2]) if d[0] == "repeated" else (fx(d[1]) if d[0] in ("single", "derived") else 0.0)
                if 0 < sd <= 1e-8:
                    res.count("quantity:std in (0, 1e-8]")
                elif sd >= 1e5:
                    res.count("quantity:std >= 1e5")
                res.count("quantity:" + d[0] + (":zero-std" if (d[0] == "repeated" and fx(d[2]) == 0) or
                                                 (d[0] == "single" and fx(d[1]) == 0) else ""))
        if i < n_random:
            if case.get("prelude"):
                res.count("session:after an earlier session that was not reset")
            if case.get("aliasing"):
                res.count("session:caller-side containers " + ("re-used as one buffer and modified" if case["aliasing"] == "buffer"
                                                                else "modified after recording"))
            for qj in case["table"]:
                o = qj[-1] if isinstance(qj[-1], dict) else {}
                for key in ("name", "via", "etype"):
                    if o.get(key):
                        res.count("quantity-option:{}={}".format(key, o[key] if key != "name" else "shared"))
            tabs = [json.dumps([x for x in qj if not isinstance(x, dict)]) for qj in case["table"] if qj[0] != "constant"]
            if len(set(tabs)) < len(tabs):
                res.count("table:distinct objects with equal values / readings")
        if nontrivial(hist):
            res.nontrivial.add(core.canonical_key("h", case))
    res.exhaustive = True
    res.extra["exhaustive_scope"] = ("all call histories of length <= {} over two single measurements and an alphabet of 13 "
                                     "calls ({} histories)".format(ctx.n(2, 3), len(cases) - n_random))
    res.extra["corpus_cases"] = n_corpus
    res.rule = ("random call histories (6-29 calls; set_correlation / set_covariance in function and method form, both argument "
                "orders, explicit / omitted / non-numeric number, the number as Python float / int / bool or numpy float64 / float32 / "
                "int64 / int32 scalar of either sign and zero, getters, reset_correlations, .error (float / numpy / Fraction / int) and .value writes, reading / printing a quantity, the same "
                "call offered twice; the identical covariance requested again after an uncertainty was changed; 30% of the sessions follow an earlier, not reset session whose quantities share values, readings "
                "and names with those of the case; twins (distinct objects with equal value / uncertainty / readings / name), "
                "elements of a MeasurementArray; in 35% of the sessions with repeated measurements the caller's reading / uncertainty "
                "containers are modified in place after recording or one numpy buffer is re-used for several recordings) over 2-5 "
                "quantities of individual magnitudes (x 2^-50 ... 2^20; single with / without error, repeated plain / collinear / with uncertainties / zero spread, calculated, "
                "constant); ~70% of set requests aimed at acceptance, boundary requests exact in doubles, one ulp inside / outside; "
                "after every call the outcome and the full matrix of q.get_correlation / q.get_covariance are compared with "
                "Model.Corr.step (1e-9 relative). non-trivial = a history with at least one accepted and one rejected set request "
                "(distinct by content); plus exhaustive short histories")
    res.samples = [{"table": runs[n_corpus][0]["table"], "ops": runs[n_corpus][0]["ops"][:5]}]
    shards, index = [], []
    per = 40
    for k in range(0, len(runs), per):
        chunk = runs[k:k + per]
        intern = Interner("m")
        bodies, idx = [], []
        for j, (case, desc, m0, hist) in enumerate(chunk):
            if not encodable(desc, m0, hist):
                res.disagreements.append({"name": "implementation left the modelled outcomes (unexpected exception or non-finite read)",
                                          "kind": "history", "case": case})
                continue
            bodies.append(coq_case(intern, desc, m0, hist))
            idx.append(k + j)
        if not bodies:
            continue
        text = HEADER + intern.text() + "Definition cases := {}.\nEval vm_compute in (bad_indices check_case cases).\n".format(
            coq_list(bodies))
        shards.append(text)
        index.append(idx)
    bads, logs = coq.run_case_files(ID, shards, keep=getattr(ctx, "keep_cases", False))
    for idx, bad, log in zip(index, bads, logs):
        if bad is None:
            res.disagreements.append({"name": "case file did not evaluate: " + log.strip().split("\n")[-1][:200], "case": None})
            continue
        for i in bad[0]:
            res.disagreements.append({"name": "Model.Corr.step vs qexpy.data correlation API", "kind": "history",
                                      "case": runs[idx[i]][0]})
    return res


# ---- the property-level oracle (independent of the Coq model) --------------------------------------------------
# Reference: a dictionary over exact rationals written from the property text.  Doubles are taken as the
# rationals they denote; a request is decided on the exact ratio; a ratio within 1e-12 of the bound that is not
# exactly on it may be decided either way (double rounding), a ratio exactly on the bound must be accepted.
GREY = Fraction(1, 10 ** 12)


class Ref:
    def __init__(self, q, objs, table):
        self.q, self.objs, self.table = q, objs, table
        self.rec = {}                       # frozenset({i, j}) -> (corr, cov)
        self.kind = [qj[0] for qj in table]

    def measured(self, i):
        return isinstance(i, int) and self.kind[i] in ("single", "repeated")

    def std(self, i):
        return fr(float(self.objs[i].std))     # the public attribute at the time of the request

    def plain_readings(self, i):
        qj = self.table[i]
        if self.kind[i] != "repeated":
            return None
        e = qj[2]
        if e is None or (isinstance(e, str) and fx(e) == 0) or (isinstance(e, list) and all(fx(h) == 0 for h in e)):
            return [fr(h) for h in qj[1]]
        return "uncertain"

    def expected_matrix(self):
        n = len(self.objs)
        out = {}
        for i in range(n):
            for j in range(n):
                if not (self.measured(i) and self.measured(j)) or self.std(i) == 0 or self.std(j) == 0:
                    out[i, j] = (Fraction(0), Fraction(0))
                elif i == j:
                    out[i, j] = (Fraction(1), self.std(i) ** 2)
                else:
                    out[i, j] = self.rec.get(frozenset((i, j)), (Fraction(0), Fraction(0)))
        return out


def check_case_oracle(case, attempts=1):
    """None, or a description of the first step at which the implementation contradicts the property.
    The ids of the quantities are fresh random UUIDs on every attempt (their order is not controllable
    through the public API), so a failure that depends on it may need several attempts."""
    import qexpy as q
    for _ in range(attempts):
        q.reset_correlations()
        try:
            why = _check_case_oracle(q, case)
        finally:
            q.reset_correlations()
        if why:
            return why
    return None


def _matrix(q, objs):
    out = {}
    for i, a in enumerate(objs):
        for j, b in enumerate(objs):
            c, v = q.get_correlation(a, b), q.get_covariance(a, b)
            if not (sl.finite(c) and sl.finite(v)):
                return None, "get_correlation / get_covariance({}, {}) returned {} / {}".format(i, j, c, v)
            out[i, j] = (fr(float(c)), fr(float(v)))
    return out, None


def _compare(got, exp, ref, what):
    for (i, j), (c, v) in sorted(exp.items()):
        gc, gv = got[i, j]
        if abs(gc) > 1:
            return "{}: correlation({}, {}) = {} lies outside [-1, 1]".format(what, i, j, float(gc))
        if got[i, j] != got[j, i]:
            return "{}: reads of ({}, {}) and ({}, {}) differ: {} vs {}".format(
                what, i, j, j, i, tuple(map(float, got[i, j])), tuple(map(float, got[j, i])))
        scale = 0
        if ref.kind[i] == "repeated" and ref.kind[j] == "repeated":
            scale = abs(fr(float(ref.objs[i].std)) * fr(float(ref.objs[j].std)))
        if not sl.close(gc, c, 1e-9, 1e-9 if scale else 0) or not sl.close(gv, v, 1e-9, Fraction(1, 10 ** 9) * scale):
            return "{}: ({}, {}) reads correlation {} covariance {}, expected {} and {}".format(
                what, i, j, float(gc), float(gv), float(c), float(v))
    return None


def _check_case_oracle(q, case):
    keep = run_prelude(q, case)             # noqa: F841  (earlier session, kept alive, not reset)
    objs = sl.build_table(case["table"], case.get("aliasing"))
    ref = Ref(q, objs, case["table"])
    got, err = _matrix(q, objs)
    if err:
        return "before any call: " + err
    why = _compare(got, ref.expected_matrix(), ref, "before any call")
    if why:
        return why
    for n, op in enumerate(case["ops"]):
        what = "call {} {}".format(n, op)
        k = op[0]
        before = got
        verdict = None                   # True must accept, False must reject, None either
        new = None
        if k in ("set_corr", "set_cov"):
            a, b, arg = op[2], op[3], op[4]
            if not (ref.measured(a) and ref.measured(b)) or ref.std(a) == 0 or ref.std(b) == 0:
                verdict = False
            elif arg is not None and arg[0] == "junk":
                verdict = False
            elif arg is None or arg[0] == "none":
                xs, ys = ref.plain_readings(a), ref.plain_readings(b)
                if xs is None or ys is None or xs == "uncertain" or ys == "uncertain" or len(xs) != len(ys):
                    verdict = False
                else:
                    verdict = True
                    cv = sl.cov(xs, ys)
                    new = (cv / (ref.std(a) * ref.std(b)), cv)
                    new = (max(Fraction(-1), min(Fraction(1), new[0])), new[1])
            else:
                x = fr(arg[1])
                p = ref.std(a) * ref.std(b)
                ratio = x if k == "set_corr" else x / p
                if abs(ratio) <= 1:
                    verdict, new = True, ((x, x * p) if k == "set_corr" else (x / p, x))
                elif abs(ratio) - 1 < GREY and k == "set_cov":
                    verdict, new = None, (x / p, x)
                else:
                    verdict = False
        r = run_op(q, objs, op)
        if r[0] == "raised" and r[1].startswith("Other"):
            return "{}: unexpected outcome {}".format(what, r[1])
        got, err = _matrix(q, objs)
        if err:
            return what + ": " + err
        if k in ("set_corr", "set_cov"):
            accepted = r[0] == "done"
            if verdict is True and not accepted:
                return "{}: a physical request on two measurements with non-zero uncertainty was rejected ({})".format(what, r[1])
            if verdict is False and accepted:
                return "{}: a request that must be rejected was accepted".format(what)
            if accepted:
                if a != b:
                    ref.rec[frozenset((a, b))] = new
            elif got != before:
                return "{}: a rejected request changed what is read".format(what)
        elif k == "reset":
            ref.rec = {}
        elif k == "set_value":
            if r[0] == "done" and ref.kind[op[1]] == "repeated":
                ref.kind[op[1]] = "single"      # documented: the value is now considered a single Measurement
            if got != before and ref.kind[op[1]] not in ("single",):
                pass
        elif k == "touch":
            if r[0] != "ret" or got != before:
                return "{}: reading / printing a quantity changed what is read".format(what)
        elif k in ("get_corr", "get_cov"):
            a, b = op[2], op[3]
            if isinstance(a, int) and isinstance(b, int):
                if r[0] != "ret":
                    return "{}: reading raised {}".format(what, r[1])
                want = before[a, b][0 if k == "get_corr" else 1]
                if fr(r[1]) != want:
                    return "{}: returned {} but q.{} reads {}".format(what, fx(r[1]), k, float(want))
            if got != before:
                return "{}: a read changed what is read".format(what)
        why = _compare(got, ref.expected_matrix(), ref, what)
        if why:
            return why
    return None


def load_corpus():
    d = os.path.join(core.VERIF, "corpus", ID)
    out = []
    if os.path.isdir(d):
        for f in sorted(os.listdir(d)):
            if f.endswith(".json"):
                out.append(json.load(open(os.path.join(d, f))))
    return out


def shrink_case(case):
    cur = dict(case)
    if "prelude" in cur:
        cand = {k: v for k, v in cur.items() if k != "prelude"}
        if check_case_oracle(cand, 6) is not None:
            cur = cand
        else:
            pops = shrink_list(cur["prelude"]["ops"], lambda o: check_case_oracle(
                dict(cur, prelude={"table": cur["prelude"]["table"], "ops": o}), 6) is not None)
            cur["prelude"] = {"table": cur["prelude"]["table"], "ops": pops}
    ops = shrink_list(cur["ops"], lambda o: check_case_oracle(dict(cur, ops=o), 6) is not None)
    cur["ops"] = ops
    return cur


def search(ctx, suspects, budget):
    t0 = time.time()
    out = []
    todo = [s["case"] for s in suspects if s.get("kind") == "history" and s.get("case")]
    todo += [c["case"] for c in load_corpus() if c.get("kind") == "history"]
    todo += exhaustive_cases(2)
    rng = ctx.rng
    n = 0
    while len(out) < 3:
        if todo:
            case = todo.pop(0)
        elif time.time() - t0 > budget or n > ctx.n(1500, 40000):
            break
        else:
            case = gen_case(rng)
        n += 1
        why = check_case_oracle(case)
        if why:
            small = shrink_case(case)
            why = check_case_oracle(small, 6) or why
            v = Violation(ID, "history", small, why)
            if all(v.key != o.key for o in out):
                out.append(v)
    ctx.notes.append("oracle: {} histories against the Fraction reference".format(n))
    return out


def replay(ctx, v):
    why = check_case_oracle(v["case"], 8)
    return Violation(ID, v["kind"], v["case"], why) if why else None
