"""C05 -- recalculate() brings a result fully up to date; reads are otherwise stable."""
import json
import os
import time

from vlib import core, coq
from vlib.core import CorrResult, Violation, shrink_list
from props import statelib as SL
from props import corelib as CL

ID = "C05"
MANIFEST = {
    "technique": "Rocq proof of an invariant over ALL operation histories of the evaluator state machine (buffered result not stale => "
                 "equals fresh evaluation), recalculate/read/sample-retention corollaries; vm_compute correspondence of histories in Q; "
                 "rebuild-afresh oracle",
    "level_text": "Theorems C05_invariant (by induction over every finite sequence of set value / set uncertainty / set or reset correlation / "
                  "create / read / recalculate / method switches / Monte Carlo operations), C05_recalc, C05_stable, C05_mc_kept, "
                  "C05_derivative_current are machine-checked for any number type and any operator tables, closed under the global context. "
                  "The hand-written state machine (Model/CoreState.v) is tied to DerivedValue / DerivativeEvaluator / MonteCarloEvaluator "
                  "by running random histories on both (values and variances in Q for the derivative method, the identity of the stored "
                  "sample set for Monte Carlo); the oracle rebuilds the same formula afresh through the public API after every recalculate().",
    "level_note": "Trusted: Coq kernel; the hand-written state machine is validated, not derived, from data.py/operations.py; Monte Carlo "
                  "numbers are abstracted to the generation of the stored sample set (their values are C02/C16); unit refresh on recalculate "
                  "is outside this model (units are C08); float rounding modelled (1e-9).",
    "design_ref": "DESIGN.md section 4 C05",
}
GEN = ["OpsTable"]
PROPS_FILE = "Props/C05.v"
MODEL_TARGETS = ["Model/CoreStateQ.v"]
EXTRA_TARGETS = ["Model/CoreStateQ.v"]
TRUSTED = ["Model/CoreState.v hand-written evaluator state machine, tied by correspondence",
           "sample-set identity observed through the private raw_samples buffer (fingerprint), values not compared"]
ASSUMPTIONS = ["formulas over {+,-,*,/,neg,** integer} on positive measurements (always defined under any value change)",
               "single measurements (repeated measurements are C10), explicit valid correlations (validation is C04)"]
MC_SHARE = 0.25


def correspondence(ctx, mc_share=None):
    res = CorrResult()
    rng = ctx.rng
    n = ctx.n(160, 3000)
    cases = []
    for _ in range(n):
        ops = SL.gen_history(rng, rng.randrange(8, 36), mc_share=MC_SHARE if mc_share is None else mc_share)
        s, outs = SL.run_history(ops)
        cases.append((ops, outs))
        res.evaluations += 1
        res.traces += 1
        kinds = set()
        for op, o in zip(ops, outs):
            res.count(op[0] + ":" + o[0])
            kinds.add(op[0])
        if {"recalc", "set_value"} <= kinds and ("read_value" in kinds or "read_error" in kinds):
            res.nontrivial.add(core.canonical_key("h", ops))
    res.rule = ("random histories (8-35 operations) over 2-3 measurements and up to 6 calculated quantities built on each other: "
                "create, set value, set uncertainty (incl. negative = rejected), set/reset correlation, read value/error/derivative, "
                "recalculate, global and per-quantity method (enum or string, invalid selections), reset method, mc access, sample size, "
                "Monte Carlo settings (custom pair, mode, confidence, range); numbers also arrive as numpy scalars / Fraction / bool; "
                "powers with a measurement (often an exact one) as exponent, sqrt(a - b) at equal central values (non-finite "
                "uncertainty: compared as such, skipped by the model), read-switch-away-and-back-read macros; observed after each "
                "operation: number read (derivative method) or identity of the stored sample set (Monte Carlo). non-trivial = contains a "
                "value change, a recalculate and a read; distinct by content")
    res.samples = [{"history": cases[0][0][:10], "observed": cases[0][1][:10]}]
    shards, index = SL.shards_for(cases)
    bads, logs = coq.run_case_files(ID, shards, keep=getattr(ctx, "keep_cases", False))
    for idx, bad, log in zip(index, bads, logs):
        if bad is None:
            res.disagreements.append({"name": "case file did not evaluate: " + log.strip().split("\n")[-1][:200], "case": None})
            continue
        for i in bad[0]:
            res.disagreements.append({"name": "Model.CoreState.step vs DerivedValue reads / recalculate / methods",
                                      "kind": "history", "case": cases[idx[i]][0]})
    CL.reset_world()
    return res


def oracle(ops):
    try:
        return SL.oracle_history(ops, check_recalc=True, check_methods=False)
    except Exception as e:
        return "the implementation raised {}: {}".format(type(e).__name__, str(e)[:120])


def search(ctx, suspects, budget):
    t0 = time.time()
    out = []
    todo = [s["case"] for s in suspects if s.get("case")]
    d = os.path.join(core.VERIF, "corpus", ID)
    if os.path.isdir(d):
        for f in sorted(os.listdir(d)):
            if f.endswith(".json"):
                todo.append(json.load(open(os.path.join(d, f)))["case"])
    n = 0
    why = SL.mc_correlation_follows()
    if why:
        out.append(Violation(ID, "mc-correlation", {"scenario": "mc_correlation_follows"}, why))
    while len(out) < 3:
        if todo:
            ops = todo.pop(0)
        elif time.time() - t0 > budget:
            break
        else:
            ops = SL.gen_history(ctx.rng, ctx.rng.randrange(8, 30), mc_share=0.1)
        n += 1
        why = oracle(ops)
        if why:
            n_meas = len([o for o in ops if o[0] == "meas"])
            small = ops[:n_meas] + shrink_list(ops[n_meas:], lambda rest: safe_fails(ops[:n_meas] + rest))
            why = oracle(small) or why
            out.append(Violation(ID, "history", small, why))
    ctx.notes.append("oracle: {} histories; after every recalculate() the same formula is built afresh and compared".format(n))
    CL.reset_world()
    return out


def safe_fails(ops):
    try:
        return SL.oracle_history(ops, check_recalc=True, check_methods=False) is not None
    except Exception:
        return False          # removing an operation made the history ill-formed


def replay(ctx, v):
    if v["kind"] == "mc-correlation":
        why = SL.mc_correlation_follows()
        return Violation(ID, v["kind"], v["case"], why) if why else None
    why = oracle(v["case"])
    CL.reset_world()
    return Violation(ID, v["kind"], v["case"], why) if why else None
