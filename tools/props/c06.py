"""C06 -- Fit parameters are the weighted least-squares optimum."""
import math
import time
from fractions import Fraction as F

from vlib import core, coq
from vlib.core import CorrResult, Violation
from props import fit_common as fc

ID = "C06"
MANIFEST = {
    "technique": "Rocq proof (optimality of any solution of the weighted normal equations among all real coefficient vectors, "
                 "any degree / number of points; Horner order; x-range filter; residual-scaled covariance via a certificate-checked "
                 "exact solver) over model lambdas and arithmetic glue translated from the source on every run + vm_compute "
                 "correspondence with numpy.polyfit / scipy.curve_fit arguments recorded in-process + exact-Fraction oracle",
    "level_text": "Machine-checked theorems: C06_normal_eqs_optimal (completing the square, by induction over the coefficient list, "
                  "over R), C06_weights / C06_order / C06_xrange about text GENERATED from fitting.py and fitting/utils.py on every run "
                  "(FITTERS lambdas, `1 / yerr`, the boolean mask, the effective variance and where its slope is evaluated), "
                  "C06_model_optimal and C06_cov_poly about an executable exact solver in Q whose answer is checked against the normal "
                  "equations before it is returned. numpy.polyfit itself is validated against that solver on every run (parameters, "
                  "uncertainties, full covariance, the recorded x / y / w handed to polyfit); for curve_fit models the optimiser is an "
                  "oracle and only the glue (sigma of each pass, slope at x_i) is proved and tied: those theorems are named _partial.",
    "level_note": "Trusted: Coq kernel; the generators' expression printer (validated on 64 random points per lambda) and the recognised "
                  "statement shapes of fitting.py; numpy.polyfit / scipy.optimize.curve_fit as numerical oracles compared at 1e-7 "
                  "(parameters, relative to their uncertainty) and 1e-6 (covariance); float rounding is modelled, not verified. (b) is "
                  "partial: stationarity of curve_fit's answer is checked by the finite-difference oracle, not proved.",
    "design_ref": "DESIGN.md section 4 C06",
}
GEN = ["Fitters", "FitGlue"]
PROPS_FILE = "Props/C06.v"
MODEL_TARGETS = ["Model/FitCases.v"]
EXTRA_TARGETS = ["Model/FitCases.v"]
TRUSTED = [
    "tools/gens/fitters_gen.py: arithmetic-expression printer (R and Q), recognised shapes of __polynomial_fit, the x-range block, "
    "__curve_fit, XYFitResult.__init__, __correlate_fit_params, cov2corr, numerical_derivative (anything else fails closed)",
    "numpy.polyfit (SVD least squares) and scipy.optimize.curve_fit as oracles; recorded by wrapping the names fitting.py looks up",
    "Model/Fit.v: hand-written pipeline around the generated pieces (selection -> yerr choice -> weights -> polyfit -> covariance scaling)",
]
ASSUMPTIONS = [
    "distinct x values, more selected points than parameters; y-uncertainties none, common or all positive per point "
    "(a mix of zero and positive y-uncertainties inside the fitted range is outside the domain: polyfit receives infinite weights)",
    "data sets that a polynomial fits exactly (chi2_min < 1e-3 of sum (w y)^2) are not generated for the covariance comparison",
    "for curve_fit models the starting guess is within 5 % of the generating parameters (basin of the optimum)",
]


# ---- correspondence ---------------------------------------------------------------------------------------------
def _poly_stream(ctx, n):
    rng = ctx.rng
    out = []
    # exhaustive small scope: every way of passing x every uncertainty pattern x every model designator
    k = 0
    for mode in fc.MODES:
        for ypat in ("none", "common", "perpoint"):
            for model in fc.POLY_MODELS:
                for _ in range(50):
                    c = fc.gen_poly_case(rng)
                    if c["model"] != model:
                        continue
                    nn = len(c["xs"])
                    c["mode"] = mode
                    c.pop("repeat", None)
                    if mode == "plot_fit":
                        c["xrange"] = None          # Plot.fit forwards `xrange` to the drawn curve too and fails (reported)
                    c["yerr"] = None if ypat == "none" else (rng.randrange(1, 17) / 8.0 if ypat == "common"
                                                                else [rng.randrange(1, 25) / 8.0 for _ in range(nn)])
                    if fc.well_posed_poly(c):
                        out.append(c)
                        k += 1
                        break
    while len(out) < n:
        malformed = rng.random() < 0.15
        c = fc.gen_poly_case(rng, malformed=malformed)
        if malformed or fc.well_posed_poly(c):
            out.append(c)
    return out


def _curve_stream(ctx, n):
    rng = ctx.rng
    out = []
    while len(out) < n:
        out.append(fc.gen_curve_case(rng, noise_free=rng.random() < 0.2))
    return out


def _nonfinite(obs):
    return not fc.finite([obs.get("params", []), obs.get("errs", []),
                          [[c.get("popt"), c.get("pcov"), c.get("sigma"), c.get("w")] for c in
                           obs["rec"]["polyfit"] + obs["rec"]["curve_fit"]],
                          [[d["x0"], d["out"]] for d in obs["rec"]["deriv"]]])


def correspondence(ctx):
    res = CorrResult()
    corpus = [c["case"] for c in fc.load_corpus(ID)]
    corpus = corpus + fc.minimal_family()
    polys = [c for c in corpus if c["kind"] == "poly"] + _poly_stream(ctx, ctx.n(95, 1000))
    curves = [c for c in corpus if c["kind"] == "curve"] + _curve_stream(ctx, ctx.n(40, 500))
    pterms, cterms, pidx, cidx = [], [], [], []
    # large |x| and repeated-measurement points (53-bit uncertainties): oracle only, the exact solver on such rationals
    # is slow in vm_compute
    polys = [c for c in polys if not c.get("large_x") and not c.get("repeat")]
    for c0 in polys:
        obs = fc.run_case(c0)
        c = obs.get("eff_case", c0)
        if c0.get("repeat"):
            res.count("repeated-measurement points")
        res.evaluations += 1
        res.count("poly:{}:deg{}".format(c["model"], c["deg"]))
        res.count("mode:" + c["mode"])
        res.count("yerr:" + ("none" if c["yerr"] is None else "per-point" if isinstance(c["yerr"], list) else "common"))
        res.count("xrange:" + ("none" if c["xrange"] is None else c["xrange"] if isinstance(c["xrange"], str) else "pair"))
        res.count("outcome:" + (obs["exn"] or "ok"))
        if c.get("malformed"):
            res.count("malformed:" + c["malformed"])
        if _nonfinite(obs):
            res.disagreements.append({"name": "non-finite number in a polynomial fit result", "kind": "poly", "case": c})
            continue
        if obs["exn"] is None and (c["xrange"] is not None or c["yerr"] is not None):
            res.nontrivial.add(core.canonical_key("p", c))
        pterms.append(fc.coq_poly_case(c, obs))
        pidx.append(c)
    skipped = 0
    for c0 in curves:
        obs = fc.run_case(c0)
        c = obs.get("eff_case", c0)
        if c0.get("repeat"):
            res.count("repeated-measurement points" + (" (x too)" if c0["repeat"].get("x") else ""))
        if obs.get("exn_type") == "RuntimeError":
            skipped += 1          # the optimiser (an oracle) did not converge
            continue
        res.evaluations += 1
        res.count("curve:" + c["model"])
        res.count("xerr:" + ("none" if c["xerr"] is None else "per-point" if isinstance(c["xerr"], list) else "common"))
        res.count("passes:{}".format(len(obs["rec"]["curve_fit"])))
        if _nonfinite(obs):
            res.disagreements.append({"name": "non-finite number in a curve_fit result", "kind": "curve", "case": c})
            continue
        if len(obs["rec"]["curve_fit"]) == 2:
            res.nontrivial.add(core.canonical_key("c", c))
        cterms.append(fc.coq_curve_case(c, obs))
        cidx.append(c)
    # histories on one data-set object: every fit is compared with the (stateless) model on the data as they are then
    hists = [c for c in corpus if c["kind"] == "history"]
    while len(hists) < ctx.n(25, 300):
        h = fc.gen_history(ctx.rng)
        if h:
            hists.append(h)
    nhist = 0
    for h in hists:
        if not fc.history_in_domain(h):
            continue
        runs = fc.run_history(h)
        if any(o.get("exn_type") == "RuntimeError" for _, _, o in runs):
            skipped += 1
            continue
        nhist += 1
        res.count("history:holder:" + h["holder"])
        res.count("history:requests:{}".format(len(h["requests"])))
        for st in h["steps"]:
            res.count("history:step:" + st[0])
        for k, cur, obs in runs:
            res.evaluations += 1
            if _nonfinite(obs):
                res.disagreements.append({"name": "non-finite number in a fit result (history)", "kind": "history", "case": h})
                break
            if k > 0:
                res.nontrivial.add(core.canonical_key("h", [h, k]))
            if cur.get("large_x"):
                continue
            if cur["kind"] == "poly":
                pterms.append(fc.coq_poly_case(cur, obs))
                pidx.append(h)
            else:
                cterms.append(fc.coq_curve_case(cur, obs))
                cidx.append(h)
    res.traces = res.evaluations
    res.extra["histories"] = nhist
    ctx.notes.append("curve fits skipped because scipy did not converge: {}".format(skipped))
    res.rule = ("polynomial stream: model in {linear, quadratic, polynomial deg 1-5} given as string or FitModel member, "
                "n = deg+2 .. deg+6 (+ extra when an x-range is used) distinct dyadic x in random order, y = polynomial + bounded "
                "noise on a 1/16 grid, y-uncertainty none / common / per point, optional (ignored) x-uncertainty, x-range none / () / [] / "
                "pair with bounds ON data values or between them, data passed as lists / arrays / MeasurementArrays / XYDataSet / "
                "XYDataSet.fit / keywords; first an exhaustive grid passing-mode x y-pattern x model; 15 % malformed (low > high, wrong "
                "length, non-real, too few selected points, empty selection, too few points). curve stream: user model a*x^2+b*x, "
                "exponential, gaussian with x-uncertainty none / common / per point, 20 % noise-free. Compared inside Coq: exception "
                "class, recorded polyfit x / y / deg / w, parameters, uncertainties, covariance vs the certified Q solver; recorded "
                "curve_fit sigma of each pass, numerical_derivative points and (user model) values. history stream: on ONE XYDataSet "
                "(q.fit(ds) / ds.fit) or one MeasurementArray pair: fit, edit in place (y-uncertainties common -> per point, rescaled, "
                "some changed; x-uncertainties; a y value), fit the same request again, optionally alternating with a second request "
                "(other x-range / degree / model); EVERY fit of the history is compared like a single fit on the data as they are at "
                "that call. non-trivial = accepted polynomial "
                "fit with an x-range or y-uncertainties, or a two-pass curve fit (distinct by content)")
    res.samples = [polys[0], curves[0]]
    shards, index = [], []
    per = 40
    for k in range(0, len(pterms), per):
        shards.append(fc.shard_text("check_poly", pterms[k:k + per]))
        index.append(("poly", k))
    for k in range(0, len(cterms), per):
        shards.append(fc.shard_text("check_curve", cterms[k:k + per]))
        index.append(("curve", k))
    bads, logs = coq.run_case_files(ID, shards, keep=getattr(ctx, "keep_cases", False))
    for (kind, base), bad, log in zip(index, bads, logs):
        if bad is None:
            res.disagreements.append({"name": "case file did not evaluate ({} shard at {}): {}".format(
                kind, base, log.strip().split("\n")[-1][:200]), "case": None})
            continue
        for i in bad[0]:
            case = (pidx if kind == "poly" else cidx)[base + i]
            res.disagreements.append({
                "name": "Model.Fit.fit_poly_raw vs q.fit (polynomial models)" if kind == "poly"
                else "Model.Fit.curve_fit_sigmas vs q.fit (curve_fit models)", "kind": case["kind"], "case": case})
    return res


# ---- the property-level oracle (independent of the Coq model) ---------------------------------------------------------
def check_poly_oracle(case, obs=None):
    """exact weighted least squares over the points with low <= x < high; parameters highest power first"""
    obs = obs or fc.run_case(case)
    case = obs.get("eff_case", case)
    if case.get("malformed") in ("lo>hi", "badlen", "nonreal"):
        return None if obs["exn"] is not None else "a fit request with an invalid x-range ({}) was accepted".format(case["malformed"])
    if fc.numerically_lost(case, obs):
        return None
    if obs["exn"] is not None:
        if case.get("malformed"):
            return None
        return "fit raised {}: {}".format(obs.get("exn_type"), obs.get("exn_text"))
    pts = [p for p in fc.points(case) if fc.in_range_ref(case, p[0])]
    d = case["deg"]
    if len(pts) <= d + 1:
        return None
    weighted = any(p[3] > 0 for p in pts)
    ws = [1 / F(p[3]) if weighted else F(1) for p in pts]
    ref = fc.exact_polyfit([p[0] for p in pts], [p[2] for p in pts], ws, d)
    if ref is None:
        return None
    p, inv, chi2 = ref
    fac = chi2 / (len(pts) - (d + 1))
    if len(obs["params"]) != d + 1:
        return "a degree-{} fit returned {} parameters".format(d, len(obs["params"]))
    if not fc.finite(obs["params"]) or not fc.finite(obs["errs"]):
        return "non-finite parameters {} +/- {}".format(obs["params"], obs["errs"])
    for k in range(d + 1):
        sig = math.sqrt(float(fac * inv[k][k]))
        want = float(p[k])
        if abs(obs["params"][k] - want) > 1e-6 * sig + 1e-9 * abs(want):
            return ("parameter {} (power {}) is {!r}, the weighted least-squares optimum over the {} points with "
                    "low <= x < high is {!r} (weights 1/sigma_y^2: {})".format(k, d - k, obs["params"][k], len(pts), want, weighted))
        if chi2 * 1000 >= sum((w * F(q[2])) ** 2 for w, q in zip(ws, pts)) and abs(obs["errs"][k] - sig) > 1e-5 * sig:
            return "uncertainty of parameter {} is {!r}, residual-scaled convention gives {!r}".format(k, obs["errs"][k], sig)
    return None


def chi2_ref(model, params, xs, ys, ss):
    return sum(((y - fc.ref_model(model, params, x)) / s) ** 2 for x, y, s in zip(xs, ys, ss))


def check_curve_oracle(case, obs=None):
    obs = obs or fc.run_case(case)
    case = obs.get("eff_case", case)
    if case.get("malformed") in ("lo>hi", "badlen", "nonreal"):
        return None if obs["exn"] is not None else "a fit request with an invalid x-range ({}) was accepted".format(case["malformed"])
    if obs.get("exn_type") == "RuntimeError":
        return None
    if obs["exn"] is not None:
        return "fit raised {}: {}".format(obs.get("exn_type"), obs.get("exn_text"))
    model = case["model"]
    pts = [p for p in fc.points(case) if fc.in_range_ref(case, p[0])]
    xs, xe, ys, ye = [list(t) for t in zip(*pts)]
    params = obs["params"]
    calls = obs["rec"]["curve_fit"]
    if not fc.finite(params) or not fc.finite(obs["errs"]):
        return "non-finite parameters {} +/- {}".format(params, obs["errs"])
    has_xerr = any(e > 0 for e in xe)
    has_yerr = any(e > 0 for e in ye)
    # the sigma that the property prescribes
    grad_tol = 1e-4      # above the convergence tolerance of the optimiser (ftol = xtol = 1e-8 on very uneven weights)
    late = None
    if has_xerr and len(calls) == 1:
        # the effective variance never reached the optimiser: say what that does to the result (not a stationary point
        # for the prescribed s_i, covariance for the wrong weights), with the slope of the returned curve
        ss = [math.sqrt(sy ** 2 + (fc.ref_slope(model, params, x) * sx) ** 2) for x, sx, sy in zip(xs, xe, ye)]
        grad_tol = 1e-3
        late = ("x-uncertainties {} are present but curve_fit was called once, with sigma={}: the effective variance "
                "sigma_y^2 + (f'(x_i) sigma_x)^2 never entered the fit".format(xe, calls[0]["sigma"]))
    elif not calls:
        # no optimiser call was observed for this fit (a remembered result?): judge the returned parameters
        # against the sigma of the CURRENT data, with the slope of the returned curve
        if has_xerr:
            ss = [math.sqrt(sy ** 2 + (fc.ref_slope(model, params, x) * sx) ** 2) for x, sx, sy in zip(xs, xe, ye)]
            grad_tol = 1e-3
        else:
            ss = ye if has_yerr else [1.0] * len(xs)
    elif has_xerr:
        if len(calls) != 2:
            return "x-uncertainties are present but curve_fit was called {} time(s)".format(len(calls))
        p1 = calls[0]["popt"]
        want = [math.sqrt(sy ** 2 + (fc.ref_slope(model, p1, x) * sx) ** 2) for x, sx, sy in zip(xs, xe, ye)]
        got = calls[1]["sigma"]
        if got is None or len(got) != len(want):
            return "second pass received sigma={}".format(got)
        for i, (g, w) in enumerate(zip(got, want)):
            if abs(g - w) > 1e-6 * abs(w):
                return ("effective uncertainty of point {} (x={}, sigma_x={}, sigma_y={}): second pass used {!r}, "
                        "sqrt(sigma_y^2 + (f'(x_i) sigma_x)^2) with the slope at x_i is {!r}".format(i, xs[i], xe[i], ye[i], g, w))
        ss = want
    else:
        if len(calls) != 1:
            return "no x-uncertainties but curve_fit was called {} times".format(len(calls))
        ss = ye if has_yerr else [1.0] * len(xs)
        got = calls[0]["sigma"]
        if has_yerr and (got is None or any(abs(g - w) > 1e-15 * abs(w) for g, w in zip(got, ye))):
            return "sigma handed to curve_fit is {} but the y-uncertainties are {}".format(got, ye)
        if not has_yerr and got is not None:
            return "no y-uncertainties but sigma={}".format(got)
    # stationarity: gradient of chi2 at the returned parameters
    ymag = max(abs(y) for y in ys) or 1.0
    for k in range(len(params)):
        gk = [fc.ref_grad(model, params, x)[k] for x in xs]
        # step relative to the parameter, or (a parameter that came out ~0) to the change of it that moves the curve by
        # a hundredth of the size of the data
        natural = ymag / (max(abs(g) for g in gk) or 1.0)
        h = 1e-5 * max(abs(params[k]), 1e-2 * natural)

        def at(t):
            p = list(params)
            p[k] += t
            return chi2_ref(model, p, xs, ys, ss)
        grad = (at(h) - at(-h)) / (2 * h)
        scale = sum(2 * (abs(y) + abs(fc.ref_model(model, params, x))) / s ** 2 * abs(g)
                    for x, y, s, g in zip(xs, ys, ss, gk)) or 1.0
        if abs(grad) > grad_tol * scale:
            return ("d chi2 / d parameter {} = {!r} at the returned parameters {} (scale {!r}): not a stationary point of "
                    "sum(((y - f(x; p)) / s)^2) for the {}".format(k, grad, params, scale, fc.describe_model(case)))
    if case.get("noise_free"):
        for k, (g, t) in enumerate(zip(params, case["truth"])):
            if abs(g - t) > 1e-6 * abs(t):
                return "noise-free data generated with {} gave parameter {} = {!r} ({})".format(
                    case["truth"], k, g, fc.describe_model(case))
    # covariance = inverse (J^T W J) at the optimum
    J = [fc.ref_grad(model, params, x) for x in xs]
    n = len(params)
    jtwj = [[sum(J[i][a] * J[i][b] / ss[i] ** 2 for i in range(len(xs))) for b in range(n)] for a in range(n)]
    inv = fc.mat_inv(jtwj)
    # only where the problem is well conditioned (variance inflation below 1e3): curve_fit's Jacobian is a finite difference
    dd = [math.sqrt(jtwj[k][k]) or 1.0 for k in range(n)]
    sinv = fc.mat_inv([[jtwj[a][b] / (dd[a] * dd[b]) for b in range(n)] for a in range(n)])
    if inv is not None and sinv is not None and all(0 < sinv[k][k] < 1e3 for k in range(n)) \
            and all(inv[k][k] > 0 for k in range(n)):
        for k in range(n):
            want = math.sqrt(inv[k][k])
            if abs(obs["errs"][k] - want) > 2e-3 * want:
                return ("uncertainty of parameter {} is {!r}; sqrt of the diagonal of inverse(J^T W J) at the optimum is {!r}"
                        .format(k, obs["errs"][k], want))
    return late


def check_history_oracle(case):
    """every fit of a history on one data-set object must be right for the data AS THEY ARE at that call"""
    if not fc.history_in_domain(case):
        return None
    nfit = 0
    for k, cur, obs in fc.run_history(case):
        nfit += 1
        why = check_poly_oracle(cur, obs) if cur["kind"] == "poly" else check_curve_oracle(cur, obs)
        if why:
            return "fit number {} on the same data-set object (step {}, after in-place edits {}): {}".format(
                nfit, k, [st[0] for st in case["steps"][:k] if st[0] != "fit"], why)
    return None


def check_oracle(case):
    if case["kind"] == "history":
        return check_history_oracle(case)
    if not fc.in_domain(case):
        return None
    return check_poly_oracle(case) if case["kind"] == "poly" else check_curve_oracle(case)


def _fresh_cases(ctx):
    rng = ctx.rng
    while True:
        r = rng.random()
        if r < 0.3:
            c = fc.gen_history(rng)
            if c:
                yield c
        elif r < 0.7:
            c = fc.gen_poly_case(rng)
            if fc.well_posed_poly(c):
                yield c
        else:
            yield fc.gen_curve_case(rng, noise_free=rng.random() < 0.3)


def search(ctx, suspects, budget):
    t0 = time.time()
    out, seen = [], set()
    todo = [s["case"] for s in suspects if s.get("case")] + [c["case"] for c in fc.load_corpus(ID)] + fc.minimal_family()
    fresh = _fresh_cases(ctx)
    n = 0
    cap = ctx.n(250, 6000)
    while len(out) < 3:
        if todo:
            case = todo.pop(0)
        elif time.time() - t0 > budget or n >= cap:
            break
        else:
            case = next(fresh)
        n += 1
        why = check_oracle(case)
        if why:
            first = fc.signature(why)
            shrink = fc.shrink_history if case["kind"] == "history" else fc.shrink_case
            small = shrink(case, lambda c: fc.signature(check_oracle(c)) == first)
            if small["kind"] == "history" and [st[0] for st in small["steps"]] == ["fit"]:
                # no history is needed: report the plain single fit
                single = dict(fc.history_states(small)[0][2])
                single.pop("history_step", None)
                if check_oracle(single):
                    small = fc.shrink_case(single, lambda c: check_oracle(c) is not None)
            why = check_oracle(small) or why
            kind = why.split(" ")[0] + ":" + small["kind"]
            sig = (small["kind"], fc.signature(why))
            if sig in seen:
                continue
            seen.add(sig)
            out.append(Violation(ID, small["kind"], small, why))
    ctx.notes.append("oracle: {} fits checked against the exact / finite-difference reference".format(n))
    return out


def replay(ctx, v):
    why = check_oracle(v["case"])
    return Violation(ID, v["kind"], v["case"], why) if why else None
