"""C07 -- A fit result is self-consistent: function, residuals, chi-squared, correlations."""
import math
import time

from vlib import core, coq
from vlib.core import CorrResult, Violation
from props import fit_common as fc

ID = "C07"
MANIFEST = {
    "technique": "Rocq proof (Horner's rule = sum c_i x^(d-i) for the polynomial lambda as written in the source today, by induction "
                 "over the coefficient list; residual / chi-squared identities; cov2corr, stored correlation and the registration loop "
                 "read one covariance matrix; quadratic-form identity g^T C g for any number of parameters) over text translated from "
                 "the source on every run + vm_compute correspondence on recorded fit outputs + numpy-free recomputation oracle",
    "level_text": "Machine-checked theorems C07_poly_function, C07_function_bound (all five pre-set models, generated from FITTERS), "
                  "C07_residuals, C07_chi2 (term and guard generated from XYFitResult.__init__), C07_one_covariance (cov2corr entry "
                  "generated from utils.cov2corr), C07_registered (index arithmetic generated from __correlate_fit_params: every pair "
                  "of distinct parameters gets the covariance entry of that pair), C07_band (first-order propagation with the registered "
                  "covariances equals g^T C g, any n). The executable model is run on the popt / pcov that numpy / scipy actually "
                  "returned (recorded in-process) and compared with fit_function at scalars / lists / arrays, residuals, chi-squared, "
                  "uncertainties, the reported matrix, get_correlation / get_covariance between parameter objects and the printed matrix.",
    "level_note": "Trusted: Coq kernel; the generators' expression printer and recognised statement shapes; the hand-written wiring of "
                  "Model/Fit.v around the generated pieces; float rounding modelled (1e-9 relative with a cancellation-aware absolute "
                  "term). exp / sqrt models are not executable in Q: their function values are tied by the translator plus the oracle's "
                  "math reference, and the correspondence uses the observed fit_function values at the data points for residuals and chi2. "
                  "The link from C07_band to the uncertainty of fit_function(x) also needs C01/C03 (derivative-method propagation).",
    "design_ref": "DESIGN.md section 4 C07",
}
GEN = ["Fitters", "FitGlue"]
PROPS_FILE = "Props/C07.v"
MODEL_TARGETS = ["Model/FitCases.v"]
EXTRA_TARGETS = ["Model/FitCases.v"]
TRUSTED = [
    "tools/gens/fitters_gen.py: arithmetic-expression printer (R and Q) and the recognised shapes of XYFitResult.__init__, "
    "__correlate_fit_params, cov2corr (anything else fails closed)",
    "recording wrappers around numpy.polyfit / scipy.optimize.curve_fit: popt and pcov handed to the model are what they returned",
    "result._result.pcorr (private attribute) is read for the full-precision reported correlation matrix; str(result) for the printed one",
]
ASSUMPTIONS = [
    "fits as in C06 (distinct x, more points than parameters, y-uncertainties non-negative)",
    "residuals and chi-squared cover the whole data set also when an x-range restricted the fit (the code's behaviour; the "
    "property quantifies over fits on the whole data set)",
    "parameter uncertainties are non-zero (exactly fitted data give a zero covariance and no registered correlations)",
]


def _zero_yerr_outside(rng):
    """y-uncertainty 0 on the points outside the fitted x-range: the fit is weighted, chi-squared must skip those points"""
    for _ in range(200):
        c = fc.gen_poly_case(rng)
        if c["xrange"] is None or isinstance(c["xrange"], str):
            continue
        n = len(c["xs"])
        ye = [rng.randrange(1, 25) / 8.0 for _ in range(n)]
        outside = [i for i, x in enumerate(c["xs"]) if not fc.in_range_ref(c, x)]
        if not outside:
            continue
        for i in outside:
            if rng.random() < 0.7:
                ye[i] = 0.0
        if all(ye[i] > 0 for i in outside):
            ye[outside[0]] = 0.0
        c["yerr"] = ye
        if fc.well_posed_poly(c):
            c["pattern"] = "zero-yerr-outside-range"
            return c
    return None


def _many_params(rng):
    """at least four parameters (the registration loop is only exercised non-trivially from four on):
    polynomial of degree 3-5 or a 4 / 5-parameter user model"""
    if rng.random() < 0.3:
        return fc.gen_curve_case(rng, model=rng.choice(["u_model4", "u_model5"]))
    for _ in range(100):
        c = fc.gen_poly_case(rng)
        if c["model"] == "polynomial" and c["deg"] >= 3 and fc.well_posed_poly(c):
            return c
    return None


def _cases(ctx, n):
    rng = ctx.rng
    out = []
    # every pre-set model and the user model at least once, every passing mode
    while len(out) < n:
        r = rng.random()
        if r < 0.12:
            c = _zero_yerr_outside(rng)
            if c:
                out.append(c)
        elif r < 0.32:
            c = _many_params(rng)
            if c:
                out.append(c)
        elif r < 0.67:
            c = fc.gen_poly_case(rng)
            if fc.well_posed_poly(c):
                out.append(c)
        else:
            out.append(fc.gen_curve_case(rng, noise_free=rng.random() < 0.1))
    return out


def _usable(obs):
    r = obs.get("result")
    if obs["exn"] is not None or r is None:
        return False
    return True


def correspondence(ctx):
    res = CorrResult()
    cases = [c["case"] for c in fc.load_corpus(ID)] + _cases(ctx, ctx.n(95, 1100))
    terms, idx = [], []
    skipped = 0
    def take(c, obs, origin):
        nonlocal skipped
        if c.get("repeat"):
            res.count("repeated-measurement points" + (" (x too)" if c["repeat"].get("x") else ""))
        single = origin is c
        c = obs.get("eff_case", c)
        if c.get("malformed") or c.get("large_x"):
            return
        if obs.get("exn_type") == "RuntimeError":
            skipped += 1
            return
        if obs["exn"] is not None:
            res.disagreements.append({"name": "fit raised {}: {}".format(obs.get("exn_type"), obs.get("exn_text")),
                                      "kind": origin["kind"] if origin["kind"] in ("history", "multi") else "fit", "case": origin})
            return
        if not (obs["rec"]["polyfit"] or obs["rec"]["curve_fit"]):
            res.disagreements.append({"name": "a fit returned without calling numpy.polyfit / scipy curve_fit",
                                      "kind": origin["kind"] if origin["kind"] in ("history", "multi") else "fit", "case": origin})
            return
        res.evaluations += 1
        res.count("model:" + c["model"] + (":deg{}".format(c["deg"]) if c["model"] == "polynomial" else ""))
        res.count("mode:" + (c["mode"] if single else "multi" if origin["kind"] == "multi" else "history:" + origin["holder"]))
        res.count("xrange:" + ("pair" if isinstance(c["xrange"], list) else "whole"))
        res.count("yerr:" + ("none" if c["yerr"] is None else "per-point" if isinstance(c["yerr"], list) else "common")
                  + (":zeros-outside-range" if c.get("pattern") else ""))
        r = obs["result"]
        if "eval_exn" in r:
            res.disagreements.append({"name": "evaluating fit_function / residuals raised " + r["eval_exn"],
                                      "kind": origin["kind"] if origin["kind"] in ("history", "multi") else "fit", "case": origin})
            return
        flat = [r["scalar"], r["list"], r["array"], r["table"], r["residuals"], r["chi2"], r["pcorr"], r["getcorr"],
                r["getcov"], r["printed"], obs["errs"], obs["params"]]
        kind = origin["kind"] if origin["kind"] in ("history", "multi") else "fit"
        if not fc.finite(flat):
            res.disagreements.append({"name": "non-finite number in a fit result", "kind": kind, "case": origin})
            return
        if r["list_type"] != "list" or r["array_type"] != "ndarray" or r["getitem"] != obs["params"]:
            res.disagreements.append({"name": "fit_function(list/array) container type or result[i]", "kind": kind, "case": origin})
            return
        if len(obs["params"]) >= 3 or c["yerr"] is not None:
            res.nontrivial.add(core.canonical_key("r", [c, origin.get("steps"), origin.get("fits") and len(origin["fits"])]))
        terms.append(fc.coq_res_case(c, obs))
        idx.append(origin)

    for c in cases:
        if c["kind"] in ("history", "multi"):
            continue
        if "plot" not in c and c.get("numtype") != "Fraction" and ctx.rng.random() < 0.12:
            c["plot"] = True          # also draw the result and evaluate the fitted function again afterwards
        take(c, fc.run_case(c, observe_result=True), c)
    multis = [c for c in cases if c["kind"] == "multi"]
    while len(multis) < ctx.n(8, 80):
        m = fc.gen_multi(ctx.rng)
        if m:
            multis.append(m)
    for m in multis:
        if not fc.multi_in_domain(m):
            continue
        res.count("multi:fits:{}".format(len(m["fits"])))
        for c, obs in fc.run_multi(m):
            take(c, obs, m)
    hists = [c for c in cases if c["kind"] == "history"]
    while len(hists) < ctx.n(10, 100):
        h = fc.gen_history(ctx.rng)
        if h:
            hists.append(h)
    for h in hists:
        if not fc.history_in_domain(h):
            continue
        for st in h["steps"]:
            res.count("history:step:" + st[0])
        for k, cur, obs in fc.run_history(h, observe_result=True):
            take(cur, obs, h)
    res.traces = res.evaluations
    ctx.notes.append("curve fits skipped because scipy did not converge: {}".format(skipped))
    res.rule = ("the fits of C06 (polynomial models deg 1-5, user model a*x^2+b*x, exponential, gaussian; every way of passing the "
                "data; y-uncertainty none / common / per point; x-ranges, including data sets whose points outside the range have "
                "y-uncertainty 0). For each result the popt / pcov returned by numpy / scipy are recorded and the Coq model recomputes "
                "from them: fit_function at 5 points (a data point, the middle, outside both ends, 0) called with a scalar, a list and an "
                "array, all residuals, chi-squared, ndof, uncertainties^2 = diagonal, reported correlation matrix, get_correlation and "
                "get_covariance for every ordered pair of parameter objects, the matrix printed by str(result). Plus histories on one "
                "XYDataSet / MeasurementArray pair (fit, edit uncertainties or a value in place, fit again, alternate two requests): every "
                "result of the history is checked against the data as they are at that call. Plus sessions of 2-4 fits whose parameters "
                "carry the same names (same model, other data; sometimes another model in between) where ALL results are observed only "
                "after the last fit. In every observation fit_function is evaluated a second time at each point after the value "
                "returned first was switched to Monte Carlo / recalculated / given other Monte Carlo settings / overridden, and for 12 % "
                "of the results after the result was drawn (Agg); the repeated value must be the very same number. non-trivial = at least 3 "
                "parameters or y-uncertainties present (distinct by content)")
    res.samples = cases[:2]
    shards, index = [], []
    per = 30
    for k in range(0, len(terms), per):
        shards.append(fc.shard_text("check_res", terms[k:k + per]))
        index.append(k)
    bads, logs = coq.run_case_files(ID, shards, keep=getattr(ctx, "keep_cases", False))
    for base, bad, log in zip(index, bads, logs):
        if bad is None:
            res.disagreements.append({"name": "case file did not evaluate (shard at {}): {}".format(
                base, log.strip().split("\n")[-1][:200]), "case": None})
            continue
        for i in bad[0]:
            res.disagreements.append({"name": "Model.FitCases.check_res vs XYFitResult / fit_function / get_correlation",
                                      "kind": idx[base + i]["kind"] if idx[base + i]["kind"] in ("history", "multi") else "fit", "case": idx[base + i]})
    return res


# ---- the property-level oracle: numpy-free recomputation from result.params ---------------------------------------------
def close(a, b, rel, atol=0.0):
    return abs(a - b) <= rel * (abs(a) + abs(b)) + atol


def check_history_oracle(case):
    """every result of a history on one data-set object is self-consistent for the data as they are at that call"""
    if not fc.history_in_domain(case):
        return None
    nfit = 0
    for k, cur, obs in fc.run_history(case, observe_result=True):
        nfit += 1
        why = check_oracle(cur, obs)
        if why:
            return "fit number {} on the same data-set object (step {}, after in-place edits {}): {}".format(
                nfit, k, [st[0] for st in case["steps"][:k] if st[0] != "fit"], why)
    return None


def check_one_covariance(params, errs, r, rec):
    """uncertainties, reported matrix, registered correlations / covariances: all from ONE covariance matrix.
    Returns (why or None, cov or None)"""
    n = len(params)
    raw = rec["polyfit"][-1] if rec["polyfit"] else rec["curve_fit"][-1] if rec["curve_fit"] else None
    if raw is None:
        # no fit routine was observed for this call: the one covariance matrix is read off the reported matrix
        if not fc.finite([errs, r["pcorr"]]) or any(e <= 0 for e in errs):
            return None, None
        raw = {"popt": params, "pcov": [[r["pcorr"][i][j] * errs[i] * errs[j] for j in range(n)] for i in range(n)]}
    cov = raw["pcov"]
    if not fc.finite(cov) or len(cov) != n or any(cov[i][i] <= 0 for i in range(n)):
        return None, None
    if raw["popt"] != params:
        return "result.params values {} differ from the fitted parameters {}".format(params, raw["popt"]), cov
    for i in range(n):
        if not close(errs[i], math.sqrt(cov[i][i]), 1e-12):
            return "uncertainty of parameter {} is {!r}; sqrt(Cov[{}][{}]) = {!r}".format(
                i, errs[i], i, i, math.sqrt(cov[i][i])), cov
    for i in range(n):
        for j in range(n):
            want = cov[i][j] / math.sqrt(cov[i][i] * cov[j][j])
            if not close(r["pcorr"][i][j], want, 1e-9, 1e-12):
                return "reported correlation [{}][{}] is {!r}; Cov_ij / (sigma_i sigma_j) = {!r}".format(
                    i, j, r["pcorr"][i][j], want), cov
            if i != j and not close(r["getcorr"][i][j], want, 1e-9, 1e-12):
                return ("get_correlation(param {}, param {}) of the {} fit parameters is {!r}; the reported correlation matrix has "
                        "{!r} there (Cov_ij / (sigma_i sigma_j) = {!r})".format(i, j, n, r["getcorr"][i][j], r["pcorr"][i][j], want)), cov
            if i != j and not close(r["getcov"][i][j], cov[i][j], 1e-9, 1e-12 * math.sqrt(cov[i][i] * cov[j][j])):
                return "get_covariance(param {}, param {}) is {!r}; Cov[{}][{}] = {!r}".format(
                    i, j, r["getcov"][i][j], i, j, cov[i][j]), cov
            if "printed" in r and abs(r["printed"][i][j] - want) > 6e-4:
                return "printed correlation [{}][{}] is {}; Cov_ij / (sigma_i sigma_j) = {!r}".format(
                    i, j, r["printed"][i][j], want), cov
    return None, cov


def check_multi_oracle(case):
    """several results alive at once: every one of them, looked at AFTER all the fits, is still self-consistent"""
    if not fc.multi_in_domain(case):
        return None
    runs = fc.run_multi(case)
    for i, (c, obs) in enumerate(runs):
        why = check_oracle(c, obs)
        if why:
            later = len(runs) - 1 - i
            return "result {} of {} fits ({}), looked at after {} later fit(s): {}".format(
                i + 1, len(runs), ", ".join(x["model"] for x in case["fits"]), later, why)
    return None


def check_oracle(case, obs=None):
    if case["kind"] == "history":
        return check_history_oracle(case)
    if case["kind"] == "multi":
        return check_multi_oracle(case)
    if not fc.in_domain(case):
        return None
    obs = obs or fc.run_case(case, observe_result=True)
    case = obs.get("eff_case", case)
    if case.get("malformed"):
        return None           # rejected requests are C06's business; here they only sit between the fits of a history
    if obs.get("exn_type") == "RuntimeError" or fc.numerically_lost(case, obs):
        return None
    if obs["exn"] is not None:
        part = obs.get("partial")
        if part and fc.finite([part["params"], part["errs"], part["pcorr"], part["getcorr"], part["getcov"]]):
            why, _ = check_one_covariance(part["params"], part["errs"], part, obs["rec"])
            if why:
                return why + " (building the result then raised {}: {})".format(obs.get("exn_type"), obs.get("exn_text"))
        return "fit raised {}: {}".format(obs.get("exn_type"), obs.get("exn_text"))
    r = obs["result"]
    model = case["model"]
    params, errs = obs["params"], obs["errs"]
    n = len(params)
    if not fc.finite([params, errs, r["pcorr"], r["getcorr"], r["getcov"]]):
        return "non-finite number in the fit result (parameters {} +/- {})".format(params, errs)
    # one covariance matrix (first: it does not need the fitted function to be evaluated)
    why, cov = check_one_covariance(params, errs, r, obs["rec"])
    if why:
        if "eval_exn" in r:
            why += " (evaluating fit_function / residuals then raised {})".format(r["eval_exn"])
        return why
    if "eval_exn" in r:
        return "evaluating fit_function / residuals / chi-squared of an in-domain fit raised {}".format(r["eval_exn"])
    if not fc.finite([r["scalar"], r["list"], r["array"], r["residuals"], r["chi2"], r["band"]]):
        return "non-finite number in the fit result (parameters {} +/- {}, chi2 {})".format(params, errs, r["chi2"])
    # fit_function(x) = model(x; params), whichever way x is passed
    ymag = max(abs(y) for y in case["ys"]) or 1.0          # the magnitude of the data (the numbers may be in any unit)
    for i, x in enumerate(r["eval"]):
        want = fc.ref_model(model, params, x)
        sc = sum(abs(p) * abs(x) ** (n - 1 - k) for k, p in enumerate(params)) + ymag if model in fc.POLY_MODELS else abs(want) + ymag
        for how in ("scalar", "list", "array"):
            if not close(r[how][i], want, 1e-9, 1e-9 * sc):
                return ("fit_function({}) called with a {} is {!r}; the {} model with the returned parameters {} gives {!r}"
                        .format(x, how, r[how][i], model, params, want))
    # residuals and chi-squared over the whole data set
    pts = fc.points(case)
    if len(r["residuals"]) != len(pts):
        return "{} residuals for {} data points".format(len(r["residuals"]), len(pts))
    chi2 = 0.0
    cscale = 0.0
    for i, (x, _, y, ye) in enumerate(pts):
        fx = fc.ref_model(model, params, x)
        sc = abs(y) + abs(fx) + ymag
        if not close(r["residuals"][i], y - fx, 1e-9, 1e-9 * sc):
            return "residual {} is {!r}; y_i - fit_function(x_i) = {!r} - {!r} = {!r}".format(i, r["residuals"][i], y, fx, y - fx)
        if ye > 0:
            chi2 += ((y - fx) / ye) ** 2
            cscale += (sc / ye) ** 2
    if not close(r["chi2"], chi2, 1e-9, 1e-9 * cscale):
        return ("chi-squared is {!r}; the sum of (residual/sigma_y)^2 over the {} points with sigma_y > 0 is {!r}"
                .format(r["chi2"], sum(1 for p in pts if p[3] > 0), chi2))
    if cov is None:
        return None
    # the band: uncertainty of fit_function(x) = sqrt(g^T Cov g), g by finite differences of the reference model
    for i, x in enumerate(r["eval"]):
        g = fc.ref_grad(model, params, x)
        var = sum(g[a] * cov[a][b] * g[b] for a in range(n) for b in range(n))
        terms = sum(abs(g[a] * cov[a][b] * g[b]) for a in range(n) for b in range(n))
        if var <= 1e-9 * terms:
            continue          # cancellation: the band is rounding noise here
        want = math.sqrt(var)
        if not close(r["band"][i], want, 5e-6 * max(1.0, terms / var)):
            return ("uncertainty of fit_function({}) is {!r}; sqrt(g^T Cov g) with the gradient of the {} model at the returned "
                    "parameters is {!r}".format(x, r["band"][i], model, want))
    # the residuals as quantities: the uncertainty of y_i - fit_function(x_i) carries sigma_y, the x-uncertainty along the
    # curve and the parameters' covariance: sigma_y^2 + (f'(x_i) sigma_x)^2 + g^T Cov g
    for i, (x, xe, y, ye) in enumerate(pts):
        if i >= len(r.get("residual_errors", [])):
            break
        g = fc.ref_grad(model, params, x)
        quad = sum(g[a] * cov[a][b] * g[b] for a in range(n) for b in range(n))
        terms = sum(abs(g[a] * cov[a][b] * g[b]) for a in range(n) for b in range(n))
        var = ye ** 2 + (fc.ref_slope(model, params, x) * xe) ** 2 + quad
        allterms = ye ** 2 + (fc.ref_slope(model, params, x) * xe) ** 2 + terms
        if var <= 1e-9 * allterms:
            continue
        if not close(r["residual_errors"][i], math.sqrt(var), 5e-6 * max(1.0, allterms / var)):
            return ("uncertainty of residual {} is {!r}; y_i - fit_function(x_i) with sigma_y = {}, sigma_x = {} and the "
                    "parameters' covariance has sqrt(sigma_y^2 + (f'(x_i) sigma_x)^2 + g^T Cov g) = {!r}"
                    .format(i, r["residual_errors"][i], ye, xe, math.sqrt(var)))
    # evaluating again at a point whose first returned value was modified by its owner / after the result was drawn
    again = [(x, how, v, e) for x, how, v, e in zip(r["eval"], r.get("again_edit", []), r.get("again", []), r.get("again_band", []))]
    again += [(x, "the result was plotted", v, e) for x, v, e in
              zip(r.get("plot_eval", []), r.get("plot_again", []), r.get("plot_again_band", []))]
    for x, how, v, e in again:
        want = fc.ref_model(model, params, x)
        sc = sum(abs(p) * abs(x) ** (n - 1 - k) for k, p in enumerate(params)) + ymag if model in fc.POLY_MODELS else abs(want) + ymag
        if not (fc.finite([v, e]) and close(v, want, 1e-9, 1e-9 * sc)):
            return ("fit_function({}) evaluated a second time, after the value returned the first time was modified ({}), is {!r}; "
                    "the {} model with the returned parameters {} gives {!r}".format(x, how, v, model, params, want))
        g = fc.ref_grad(model, params, x)
        var = sum(g[a] * cov[a][b] * g[b] for a in range(n) for b in range(n))
        terms = sum(abs(g[a] * cov[a][b] * g[b]) for a in range(n) for b in range(n))
        if var > 1e-9 * terms and not close(e, math.sqrt(var), 5e-6 * max(1.0, terms / var)):
            return ("uncertainty of fit_function({}) evaluated a second time, after the value returned the first time was modified "
                    "({}), is {!r}; sqrt(g^T Cov g) is {!r}".format(x, how, e, math.sqrt(var)))
    return None


def _fresh_cases(ctx):
    rng = ctx.rng
    while True:
        r = rng.random()
        if r < 0.1:
            c = _zero_yerr_outside(rng)
            if c:
                yield c
        elif r < 0.2:
            c = fc.gen_history(rng)
            if c:
                yield c
        elif r < 0.3:
            c = fc.gen_multi(rng)
            if c:
                yield c
        elif r < 0.45:
            c = _many_params(rng)
            if c:
                yield c
        elif r < 0.75:
            c = fc.gen_poly_case(rng)
            if fc.well_posed_poly(c):
                yield c
        else:
            yield fc.gen_curve_case(rng, noise_free=rng.random() < 0.1)


def search(ctx, suspects, budget):
    t0 = time.time()
    out, seen = [], set()
    todo = [s["case"] for s in suspects if s.get("case")] + [c["case"] for c in fc.load_corpus(ID)] + fc.minimal_family()
    fresh = _fresh_cases(ctx)
    n = 0
    cap = ctx.n(200, 5000)
    while len(out) < 3:
        if todo:
            case = todo.pop(0)
        elif time.time() - t0 > budget or n >= cap:
            break
        else:
            case = next(fresh)
        n += 1
        why = check_oracle(case)
        if why:
            first = fc.signature(why)
            shrink = {"history": fc.shrink_history, "multi": fc.shrink_multi}.get(case["kind"], fc.shrink_case)
            small = shrink(case, lambda c: fc.signature(check_oracle(c)) == first)
            if small["kind"] == "multi" and len(small["fits"]) == 1:
                single = small["fits"][0]
                if check_oracle(single):
                    small = fc.shrink_case(single, lambda c: check_oracle(c) is not None)
            if small["kind"] == "history" and [st[0] for st in small["steps"]] == ["fit"]:
                # no history is needed: report the plain single fit
                single = dict(fc.history_states(small)[0][2])
                single.pop("history_step", None)
                if check_oracle(single):
                    small = fc.shrink_case(single, lambda c: check_oracle(c) is not None)
            why = check_oracle(small) or why
            sig = fc.signature(why)
            if sig in seen:
                continue
            seen.add(sig)
            out.append(Violation(ID, small["kind"] if small["kind"] in ("history", "multi") else "fit", small, why))
    ctx.notes.append("oracle: {} fit results recomputed with numpy-free code".format(n))
    # a mismatch between registered and reported correlations explains a later exception: report it first
    out.sort(key=lambda v: 0 if v.what.startswith(("get_correlation", "get_covariance", "reported correlation")) else
             1 if "raised" not in v.what else 2)
    return out


def replay(ctx, v):
    why = check_oracle(v["case"])
    return Violation(ID, v["kind"], v["case"], why) if why else None
