"""C08 -- Units of results follow dimensional analysis, independent of factor order."""
import time
from fractions import Fraction

from vlib import core
from vlib.core import CorrResult, Violation
from vlib.coqfmt import coq_list, coq_bool
from props import units_lib as ul

ID = "C08"
MANIFEST = {
    "technique": "Rocq proof by induction over all expression trees about a model of operate_with_units / propagate_units whose "
                 "operator table and exponent arithmetic are regenerated from units.py on every run + vm_compute correspondence "
                 "(exhaustive small scope and random trees) + independent Fraction dimensional-analysis oracle",
    "level_text": "Machine-checked theorems (C08_dim — which includes 'a warning is issued exactly on a genuine mismatch' —, C08_order_insensitive, C08_cancel, C08_no_zero_exponents) "
                  "about the Gallina model of unit propagation: for every expression tree over {+,-,*,/,constant power,sqrt,neg} whose "
                  "non-constant operands carry a dimension, the propagated unit denotes the dimension given by dimensional analysis, a "
                  "warning is issued exactly on a genuine mismatch (then the result has no unit), and operand units that differ only in the "
                  "order of factors are not a mismatch. UNIT_OPERATIONS, __mul/__div/__sqrt/__neg/__add_and_sub and the exponent update "
                  "helper are translated from the source on every run; unpack/filter/pack and propagate_units are hand-modelled and run "
                  "against the implementation on the same inputs. Proof is the right level: the property quantifies over all trees and "
                  "all orderings, which the induction covers.",
    "level_note": "Trusted: Coq kernel; the dict-program translator (tools/gens/units_gen.py) and its vocabulary (u_get/u_set/u_mem/"
                  "dict_eqb/fold_left for loops); the hand model of operate_with_units, __unpack_unit, __try_pack and propagate_units "
                  "(tied by correspondence only); exponents are exact rationals (float exponent arithmetic is exact on the dyadic "
                  "exponents used in the cases; non-dyadic rational powers are subject to float rounding, not modelled).",
    "design_ref": "DESIGN.md section 4 C08",
}
GEN = ["UnitsGen"]
PROPS_FILE = "Props/C08.v"
MODEL_TARGETS = ["Model/UnitsCases.v"]
EXTRA_TARGETS = ["Model/UnitsCases.v"]
TRUSTED = [
    "tools/gens/units_gen.py: translation of UNIT_OPERATIONS and of the bodies of __neg/__add_and_sub/__mul/__div/__sqrt/"
    "__update_unit_exponent_count_in_dict into folds over Model/UnitsBase.v (u_get/u_set/u_mem/dict_eqb)",
    "Model/Units.v: hand-written model of operate_with_units (unpack, zero filters, packing), propagate_units (POW branch, guard) "
    "and of how DerivedValue.__init__/recalculate call it; tied by correspondence",
    "Model/Units.v: dspec (dimensional analysis) and the domain predicate in_domain are the hand-written specification",
]
ASSUMPTIONS = [
    "no compound-unit definitions active WHEN a tree is built (property text); definitions may have been active, used and "
    "cleared through clear_unit_definitions() earlier in the same interpreter (covered by the sessions); C18 covers definitions",
    "every non-constant operand of every operation carries a unit of non-zero dimension (property text: trees with a "
    "dimensionless or unit-less intermediate result are outside the domain)",
    "exponents are rationals; the implementation computes them in floats, exact for the dyadic exponents of the generated cases",
    "a unit is a dict: keys are unique (NoDup hypothesis on leaf units)",
]


# ---- case generation -------------------------------------------------------------------------------
def exhaustive_trees(ctx):
    pool = ul.orderings_pool()
    d1 = ul.depth1_trees(pool)
    small = [[], [ul.item("a", 1)], [ul.item("b", -1)], [ul.item("a", 1), ul.item("b", 1)], [ul.item("b", 1), ul.item("a", 1)],
             [ul.item("a", 2), ul.item("b", -1)], [ul.item("b", -1), ul.item("a", 2)]]
    inner = ul.depth1_trees(small[1:], powers=[Fraction(2), Fraction(1, 2), Fraction(0)])
    d2 = ul.depth2_trees(inner, small)
    return d1, d2


def leafgen(rng):
    return ul.rand_umap(rng, ["a", "b", "c", "d", "kg", "m", "s"], maxlen=3, allow_zero=rng.random() < 0.15,
                        allow_empty=rng.random() < 0.08)


def gen_operate_case(rng):
    op = rng.choice(["neg", "add", "sub", "mul", "div", "sqrt"] * 3 + ["pow", "exp", "sin", "log", "ln"])
    nargs = 1 if op in ("neg", "sqrt", "exp", "sin", "ln") else 2
    if rng.random() < 0.04:
        nargs = 3 - nargs if op in ("neg", "add", "sub", "mul", "div", "sqrt") else nargs   # wrong arity: TypeError
    syms = ["a", "b", "c", "m"]
    args = []
    first = ul.rand_umap(rng, syms, maxlen=3, allow_zero=True, allow_empty=True)
    args.append(first)
    if nargs == 2:
        k = rng.random()
        if k < 0.35:
            args.append(ul.permuted(rng, first))
        elif k < 0.5:
            args.append(ul.permuted(rng, first) + ([ul.item("d", 0)] if rng.random() < 0.5 else []))
        else:
            args.append(ul.rand_umap(rng, syms, maxlen=3, allow_zero=True, allow_empty=True))
    return [], op, args


def correspondence(ctx):
    res = CorrResult()
    rng = ctx.rng
    d1, d2 = exhaustive_trees(ctx)
    if ctx.quick:
        trees = rng.sample(d1, 500) + rng.sample(d2, 700)
    else:
        trees = d1 + d2
        res.exhaustive = True
    n_rand = ctx.n(600, 20000)
    for _ in range(n_rand):
        trees.append(ul.rand_tree(rng, rng.choice([2, 3, 3, 4, 5]), leafgen))
    # operand forms the grammar does not cover but propagate_units must survive (units stay unknown)
    x, y = ul.leaf([ul.item("m", 1)]), ul.leaf([ul.item("s", -1), ul.item("kg", 2)])
    trees += [["bin", "pow", ul.cst(2), x], ["bin", "pow", x, y], ["bin", "mul", ["bin", "pow", x, y], y],
              ["bin", "pow", ["bin", "pow", x, ul.cst(2)], ul.cst(Fraction(1, 2))], ["bin", "log", ul.cst(2), x],
              ["bin", "log", x, y], ["bin", "add", ["un", "sin", x], y], ["bin", "pow", ["bin", "mul", ul.cst(3), x], ul.cst(0)],
              ["bin", "add", ["bin", "pow", x, ul.cst(0)], y], ["un", "sqrt", ["bin", "pow", y, ul.cst(0)]]]
    entries, skipped = [], 0
    for t in trees:
        frac = rng.random() < 0.1
        style = ul.rand_style(rng, 0.6)
        try:
            obs = ul.run_tree([], t, frac, style=style)
        except ul.CaseInvalid:
            skipped += 1
            continue
        if obs.get("exc") == "crash":
            res.evaluations += 1
            res.disagreements.append({"name": "the implementation raised {} where the model returns".format(obs["what"]),
                                      "kind": "tree", "case": {"history": [], "tree": t, "frac": frac}})
            continue
        if not obs["exact"]:
            res.count("skipped:inexact-float-exponent")
            continue
        shown = ul.shown_items(obs, frac)
        res.evaluations += 1
        res.traces += 1
        for o in set(ul.tree_ops(t)):
            res.count("op:" + o)
        res.count("size:{}".format(min(ul.tree_size(t), 12)))
        res.count("result:" + ("RecursionError" if obs.get("exc") else "warned" if obs["warned"] else
                                "unit" if obs["unit"] else "no-unit"))
        if not obs.get("exc") and (obs["unit"] or obs["warned"]) and any(o in ul.BIN_OPS for o in ul.tree_ops(t)):
            res.nontrivial.add(core.canonical_key("t", t))

        def mk(enc, t=t, obs=obs, shown=shown, frac=frac):
            return "((@nil event), {}, {}, {}, {})".format(enc.tree(t), enc.obs(obs), enc.opt_umap(shown), coq_bool(frac))
        entries.append((mk, {"kind": "tree", "case": {"history": [], "tree": t, "frac": frac, "style": style}}))
        for k_, v_ in (style or {"plain": 1}).items():
            res.count("style:{}={}".format(k_, v_))
    # read the result, change an operand's unit through the public setter (same object), recalculate, read again
    for _ in range(ctx.n(150, 2500)):
        t, idx, new = ul.gen_setunit(rng, [], leafgen)
        style = ul.rand_style(rng, 0.6)
        try:
            obs = ul.run_setunit([], t, idx, new, style=style)
        except ul.CaseInvalid:
            continue
        case = {"history": [], "tree": t, "idx": idx, "new": new, "style": style}
        if obs.get("exc") == "crash":
            res.evaluations += 1
            res.disagreements.append({"name": "the implementation raised {} where the model returns".format(obs["what"]),
                                      "kind": "tree", "case": case})
            continue
        if not obs["exact"]:
            res.count("skipped:inexact-float-exponent")
            continue
        res.evaluations += 1
        res.count("set-unit-then-recalculate")
        nt = ul.replace_leaf(t, idx, new)
        shown = ul.shown_items(obs, False)

        def mk(enc, nt=nt, obs=obs, shown=shown):
            return "((@nil event), {}, {}, {}, false)".format(enc.tree(nt), enc.obs(obs), enc.opt_umap(shown))
        entries.append((mk, {"kind": "tree", "case": case}))
    op_entries = []
    for _ in range(ctx.n(400, 4000)):
        h, op, args = gen_operate_case(rng)
        obs = ul.run_operate(h, op, args)
        if not obs["exact"]:
            res.count("skipped:inexact-float-exponent")
            continue
        res.evaluations += 1
        res.count("operate:" + op + (":" + obs["exc"] if obs.get("exc") else ""))
        if not obs.get("exc") and (obs["unit"] or obs["warned"]):
            res.nontrivial.add(core.canonical_key("o", [op, args]))

        def mk(enc, op=op, args=args, obs=obs):
            return "((@nil event), {}, {}, {})".format(enc.op(op), coq_list([enc.umap(a) for a in args]),
                                             "None" if obs.get("exc") else enc.obs(obs))
        op_entries.append((mk, {"kind": "operate", "case": {"history": [], "op": op, "args": args}}))
    res.rule = ("trees over {neg,sqrt,+,-,*,/,**const} built through the public API (q.Measurement(unit=...), arithmetic, q.sqrt): "
                "all depth-1 trees over leaf units in every ordering of <=3 symbols plus depth-2 trees over a 7-unit pool (exhaustive in "
                "thorough, sampled in quick), random trees of depth <=5 (operands of +/- biased to equal dimension written/built in a "
                "different order; 12% constants; 3% operators without unit rule; zero exponents and unit-less leaves in the malformed "
                "share); observed: ordered items of ._unit at the root, mismatch warning as boolean, .unit re-read (10% in fraction "
                "style). Plus direct operate_with_units calls on random exponent maps (zeros, empties, permutations, operators outside "
                "UNIT_OPERATIONS, wrong arity). Plus sessions from a fresh library state: definitions made and USED, then "
                "clear_unit_definitions(), then trees over the formerly defined names as plain symbols (every use compared with the "
                "model under the definitions in force at that step). non-trivial = a tree with a binary operator whose result has a unit or a warning / an "
                "operate call with a non-empty result or warning (distinct by content)")
    res.samples = [e[1]["case"] for e in entries[:2]] + [e[1]["case"] for e in op_entries[:2]]
    if skipped:
        res.count("skipped:unit-string-not-parsed-as-intended", skipped)
    # definitions WERE active earlier in the same interpreter and have been cleared through the public API: the model of the
    # uses after the clear is the one without definitions (every use is compared, the ones before the clear under d_run)
    sessions = (ul.aftermath_templates() if not ctx.quick else rng.sample(ul.aftermath_templates(), 4)) + \
        [ul.gen_aftermath_session(rng) for _ in range(ctx.n(60, 1200))]
    se_entries = []
    for steps in sessions:
        style = ul.rand_style(rng, 0.6)
        try:
            sobs = ul.run_session(steps, style)
        except ul.CaseInvalid:
            continue
        case = {"steps": steps, "style": style}
        if any(o.get("exc") == "crash" for o in sobs):
            res.evaluations += len(sobs)
            res.disagreements.append({"name": "the implementation raised {} where the model returns".format(
                [o["what"] for o in sobs if o.get("exc") == "crash"][0]), "kind": "session", "case": case})
            continue
        if not all(o["exact"] for o in sobs):
            res.count("skipped:inexact-float-exponent")
            continue
        showns = [ul.shown_items(o, False) for o in sobs]
        res.evaluations += len(sobs)
        res.traces += 1
        res.count("session:define-use-clear-use")
        res.nontrivial.add(core.canonical_key("s", steps))

        def mk(enc, steps=steps, sobs=sobs, showns=showns):
            return enc.session(steps, sobs, showns)
        se_entries.append((mk, {"kind": "session", "case": case}))
    dis2, failures2 = ul.eval_shards(ID + "s", [("check_session", se_entries)], keep=getattr(ctx, "keep_cases", False), per=60)
    dis, failures = ul.eval_shards(ID, [("check_tree", entries), ("check_operate", op_entries)],
                                   keep=getattr(ctx, "keep_cases", False))
    for f in failures + failures2:
        res.disagreements.append({"name": f, "case": None})
    for fn, payload in dis2:
        res.disagreements.append({"name": "Model.Units.unit_of under d_run of the events so far (session) vs implementation",
                                  "kind": "session", "case": payload["case"]})
    for fn, payload in dis:
        res.disagreements.append({"name": "Model.Units.{} vs implementation".format(
            "unit_of" if fn == "check_tree" else "operate_with_units"), "kind": payload["kind"], "case": payload["case"]})
    return res


# ---- oracle ----------------------------------------------------------------------------------------
def check_case(case):
    if "steps" in case:
        # define / use / clear_unit_definitions() / use in ONE fresh library state: only the uses made while no definition
        # is active are judged (every symbol is then a base unit), the earlier ones only have to have been computed
        return ul.oracle_session(case["steps"], case.get("style"), only_undefined=True)
    if "session" in case:
        # several trees evaluated one after the other in ONE fresh library state; the last one is judged (the earlier ones
        # only have to have been computed: this is how state the library keeps between operations becomes part of the input)
        core.fresh_impl()
        why = None
        for c in case["session"]:
            why = ul.check_one(c)
        return "after {} earlier operation(s) in the same interpreter: {}".format(len(case["session"]) - 1, why) if why else None
    return ul.check_one(case)


def fails_alone(case):
    core.fresh_impl()
    return check_case(case) is not None


def report(case, why, journal=()):
    if "steps" in case:
        small = dict(case, steps=ul.shrink_session(case["steps"], case.get("style"), only_undefined=True))
        return Violation(ID, "session", small, check_case(small) or why)
    if not fails_alone(case):
        # the tree is fine on its own: it fails because of what was computed before it in this process
        if check_case({"session": list(journal) + [case]}) is None:
            return Violation(ID, "tree", case, why + " (only after the cases of this run, not reproduced from a fresh library state)")
        prefix = core.minimize_session(list(journal), lambda p: check_case({"session": p + [case]}) is not None)
        sess = {"session": prefix + [case]}
        return Violation(ID, "tree", sess, check_case(sess) or why)
    if "idx" in case:
        return Violation(ID, "tree", case, why)
    # every candidate is judged from a fresh library state, so the shrunk tree fails on its own
    small_t = ul.shrink_tree(case["tree"], lambda t: fails_alone(dict(case, tree=t)))
    small = dict(case, tree=small_t)
    core.fresh_impl()
    return Violation(ID, "tree", small, check_case(small) or why)


def oracle_leafgen(rng):
    # "any integer exponents": an explicitly written zero exponent now and then
    return ul.rand_umap(rng, ["a", "b", "c", "kg", "m", "s"], maxlen=3, allow_zero=rng.random() < 0.06)


def search(ctx, suspects, budget):
    t0 = time.time()
    rng = ctx.rng
    out, seen = [], set()
    todo = [s["case"] for s in suspects if s.get("kind") in ("tree", "session") and s.get("case")]
    todo += [c["case"] for c in ul.load_corpus(ID) if c.get("kind") in ("tree", "session")]
    todo += [{"steps": st, "style": None} for st in ul.aftermath_templates()]
    # deterministic part: a sample of the small-scope family (all orderings) first
    d1, d2 = exhaustive_trees(ctx)
    fam = d1 + d2
    stride = max(1, len(fam) // ctx.n(1500, 12000))
    todo += [{"history": [], "tree": t, "frac": False, "style": ul.rand_style(rng, 0.7)} for t in fam[::stride]]
    n = 0
    n_sessions = 0
    core.fresh_impl()
    journal = []
    while len(out) < 3:
        if todo:
            case = todo.pop(0)
        elif time.time() - t0 > budget:
            break
        elif rng.random() < 0.04:
            case = {"steps": ul.gen_aftermath_session(rng), "style": ul.rand_style(rng, 0.6)}
        elif rng.random() < 0.08:
            t, idx, new = ul.gen_setunit(rng, [], oracle_leafgen)
            case = {"history": [], "tree": t, "idx": idx, "new": new, "style": ul.rand_style(rng, 0.6)}
        else:
            case = {"history": [], "tree": ul.rand_tree(rng, rng.choice([1, 2, 2, 3, 4]), oracle_leafgen, p_other=0.0),
                    "frac": rng.random() < 0.1, "style": ul.rand_style(rng, 0.5)}
        n += 1
        if case.get("history"):
            continue
        if "steps" in case:        # define / use / clear / use: starts from a fresh library state by itself
            n_sessions += 1
            why = check_case(case)
            if why:
                v = report(case, why)
                if v.key not in seen:
                    seen.add(v.key)
                    out.append(v)
            core.fresh_impl()
            journal = []
            continue
        if "session" in case:      # a recorded session (corpus / replayed suspect): judged on its own
            why = check_case(case)
            if why:
                out.append(Violation(ID, "tree", case, why))
            core.fresh_impl()
            journal = []
            continue
        why = check_case(case)
        if why:
            v = report(case, why, journal)
            if v.key not in seen:
                seen.add(v.key)
                out.append(v)
            core.fresh_impl()     # report() restarted the library: the journal starts again
            journal = []
        else:
            journal.append(case)
    ul.reset_state()
    ctx.notes.append("oracle: {} cases checked against Fraction dimensional analysis, of which {} sessions in which definitions "
                     "were active, used and cleared through the public API before the judged trees".format(n, n_sessions))
    return out


def replay(ctx, v):
    why = check_case(v["case"])
    ul.reset_state()
    return Violation(ID, v["kind"], v["case"], why) if why else None
