"""C09 -- Printed value and uncertainty are the correctly rounded pair in every style."""
import hashlib
import json
import os
import re
import time
from decimal import Decimal
from fractions import Fraction as F

from vlib import core, coq
from vlib.core import CorrResult, Violation

ID = "C09"
MANIFEST = {
    "technique": "Rocq proof over an exact-rational model of printing.py (the two rounding stages and floor(log10) are "
                 "parameters: theorems hold for every rounding function within half a unit; the exponent / decimals / "
                 "tolerance arithmetic is regenerated from the source text on every run) + vm_compute correspondence of "
                 "the parsed printed text against the model run with round-half-even (set of admissible outputs at float "
                 "near-ties) + independent exact-decimal oracle search",
    "level_text": "Machine-checked theorems (C09_auto_error, C09_value_mode, C09_zero_error, C09_zero_value; C09_history: along every history of "
                  "printing and changing one object the printed text is the printer's text for the pair held at that moment; closed under the "
                  "global context) about a Gallina model of get_printer/__default_printer/__scientific_printer/"
                  "__round_values_to_sig_figs/__find_number_of_decimals over exact rationals, for all rational inputs, all three "
                  "styles, all three modes and n in 1..13: formatting succeeds, value and uncertainty carry one number of "
                  "decimals, that number ends at the n-th significant figure of the printed (rounded, possibly carried) "
                  "uncertainty or value, and both numbers are within (1/2 + 1/20) units of that place. The model is run against "
                  "the implementation's printed strings on every check; an exact-decimal oracle searches the implementation "
                  "for a failing input. Proof is the right level because the property quantifies over every float pair and "
                  "configuration and the carry / two-stage-rounding cases need a case analysis no sample covers.",
    "level_note": "Binary floating point is modelled, not verified: the model computes in exact rationals from the decimal "
                  "reading of the inputs; where a rounding argument is within 2^-47 relative of a tie the correspondence admits "
                  "both roundings (counted as near_ties). Control flow hand-modelled and tied by correspondence; the arithmetic "
                  "expressions (back-off exponent, number of decimals, clamp, order_of tolerance) translated by tools/gens/printing.py; trusted: the parser of the "
                  "printed text in the harness, and the reading of '{:.Nf}'.format / round() as roundings to within half a unit.",
    "design_ref": "DESIGN.md section 4 C09",
}
GEN = ["PrintingGen"]
PROPS_FILE = "Props/C09.v"
MODEL_TARGETS = ["Model/PrintingCases.v"]
EXTRA_TARGETS = ["Model/PrintingCases.v"]
TRUSTED = [
    "Model/Printing.v: hand-written model of the control flow of qexpy/utils/printing.py over exact rationals (tied by correspondence)",
    "tools/gens/printing.py: fail-closed extraction of the integer/rational expressions of printing.py into Gen/PrintingGen.v",
    "tools/props/c09.py: parser of the printed text (regular expressions for 'V +/- E' and '(V +/- E) * 10^k', \\pm in LaTeX)",
    "reading of Python's round(x) and '{:.Nf}'.format(x) as functions that return a nearest integer / decimal (|r(x) - x| <= 1/2 unit)",
]
ASSUMPTIONS = [
    "inputs are finite floats that are the nearest doubles of decimals with at most 12 significant digits, magnitudes in "
    "[1e-12, 1e12] or zero, uncertainty >= 0, and configurations whose correctly rounded text has at most 12 digits per number "
    "(property text); the model and the oracle read the inputs as those decimals",
    "float rounding inside printing.py is modelled: exact rationals in the model, a noise allowance of 8 ulp of the larger "
    "input in the oracle's tolerance, both roundings admitted within 2^-47 relative of a tie in the correspondence",
    "the significant-figure setting n is a positive int (1..6 in the property; the theorems cover 1..13)",
]

STYLES = ["default", "scientific", "latex"]
MODES = ["auto", "value", "error"]
COQ_STYLE = {"default": "Default", "scientific": "Scientific", "latex": "Latex"}
COQ_MODE = {"auto": "Auto", "value": "ValueMode", "error": "ErrorMode"}


def _q():
    import qexpy as q
    return q


# ---- running the implementation ------------------------------------------------------------------
ENUM_STYLE = {"default": "DEFAULT", "scientific": "SCIENTIFIC", "latex": "LATEX"}


def configure(style, mode, n, how="reset"):
    """how: "reset" (reset, then the q.set_* functions with the string spelling), "noreset" (the same calls on top of
    whatever configuration is in force), "enum" (PrintStyle member, sig figs before the style), "settings" (the methods and
    properties of the settings object)"""
    q = _q()
    if how in ("reset", "enum"):
        q.reset_default_configuration()
    st = q.get_settings()

    def figures():
        if mode == "value":
            (st.set_sig_figs_for_value if how == "settings" else q.set_sig_figs_for_value)(n)
        elif mode == "error":
            (st.set_sig_figs_for_error if how == "settings" else q.set_sig_figs_for_error)(n)
        else:
            # automatic mode has no setter of its own: it is the mode after a reset, the number of figures is a property
            if st.sig_fig_mode != q.SigFigMode.AUTOMATIC:
                keep = (st.error_method, st.unit_style, st.monte_carlo_sample_size, st.plot_dimensions)
                q.reset_default_configuration()
                st.error_method, st.unit_style, st.monte_carlo_sample_size, st.plot_dimensions = keep
            st.sig_fig_value = n

    def the_style():
        if how == "enum":
            q.set_print_style(getattr(q.PrintStyle, ENUM_STYLE[style]))
        elif how == "settings":
            st.print_style = style
        else:
            q.set_print_style(style)
    if how == "enum":
        figures()
        the_style()
    else:
        the_style()
        figures()          # (an automatic-mode request may reset: the style is set again below)
        if mode == "auto":
            the_style()


ROUTES = ["measurement", "array", "printer", "printer_arg", "typed_int", "typed_bool", "typed_np64", "typed_np32",
          "typed_frac", "twins"]
HOWS = ["reset", "noreset", "enum", "settings"]


def typed(kind, x):
    """x as another numeric type of EQUAL value, or None when that type cannot hold it"""
    import numpy as np
    from fractions import Fraction
    if kind == "typed_int":
        return int(x) if x == int(x) and abs(x) < 2 ** 53 else None
    if kind == "typed_bool":
        return bool(x) if x in (0.0, 1.0) else None
    if kind == "typed_np64":
        return np.float64(x)
    if kind == "typed_np32":
        y = np.float32(x)
        return y if float(y) == x else None
    if kind == "typed_frac":
        return Fraction(x)
    return x


def applicable(via, v, e):
    if via.startswith("typed_"):
        return e >= 0 and typed(via, v) is not None and typed(via, e) is not None
    return e >= 0 or via in ("printer", "printer_arg")


def run_impl(style, mode, n, v, e, via="measurement", how="reset"):
    """the printed text, or ('raised', class name).  Routes: str/repr of a Measurement; an element of a MeasurementArray;
    get_printer() with the global style; get_printer(style) with an explicit style while another one is the global one;
    a Measurement built from ints / numpy scalars / Fractions of equal value; "twins": a second, distinct object with the
    SAME central value and another uncertainty is created and printed first"""
    q = _q()
    configure(style, mode, n, how)
    try:
        if via == "measurement" and e >= 0:
            m = q.Measurement(v, e)
            s = str(m)
            r = repr(m)
            if r != "MeasuredValue({})".format(s):
                return ("inconsistent", "str {!r} repr {!r}".format(s, r))
            return s
        if via == "twins" and e >= 0:
            other = q.Measurement(v, e * 3 + abs(v) * 0.01 + 1e-9)
            str(other)
            m = q.Measurement(v, e)
            s = str(m)
            str(other)
            return s if str(m) == s else ("inconsistent", "the same object printed twice: {!r} then {!r}".format(s, str(m)))
        if via.startswith("typed_") and e >= 0:
            tv, te = typed(via, v), typed(via, e)
            if tv is None or te is None:
                return ("not-applicable", via)
            return str(q.Measurement(tv, te))
        if via == "array" and e >= 0:
            a = q.MeasurementArray([v, 1.0], error=[e, 0.1])
            s = str(a)
            if not (s.startswith("[ ") and s.endswith(" ]") and s.count(", ") == 1):
                return ("inconsistent", "array text {!r}".format(s))
            return s[2:-2].split(", ")[0]
        from qexpy.utils.printing import get_printer
        if via == "printer_arg":
            want = getattr(q.PrintStyle, ENUM_STYLE[style])
            q.set_print_style([x for x in STYLES if x != style][n % 2])   # the global style is another one
            return get_printer(want)(v, e)
        return get_printer()(v, e)
    except Exception as ex:  # noqa
        return ("raised", "{}: {}".format(type(ex).__name__, str(ex)[:80]))
    finally:
        q.reset_default_configuration()


NUM = r"(-?\d+(?:\.\d+)?)"
RE_PLAIN = re.compile(r"^%s (\+/-|\\pm) %s$" % (NUM, NUM))
RE_SCI = re.compile(r"^\(%s (\+/-|\\pm) %s\) \* 10\^(-?\d+)$" % (NUM, NUM))


def parse(s):
    """text -> dict(sci, latex, vs, es, ex) or None"""
    if not isinstance(s, str):
        return None
    m = RE_SCI.match(s)
    if m:
        return {"sci": True, "latex": m.group(2) == "\\pm", "vs": m.group(1), "es": m.group(3), "ex": int(m.group(4))}
    m = RE_PLAIN.match(s)
    if m:
        return {"sci": False, "latex": m.group(2) == "\\pm", "vs": m.group(1), "es": m.group(3), "ex": 0}
    return None


def decs(s):
    return len(s.split(".")[1]) if "." in s else 0


def mant(s):
    return int(s.replace(".", ""))


# ---- exact helpers (shared by generator and oracle; no model involved) ----------------------------------
def dec(x):
    """the decimal a float was written as (shortest repr), exactly"""
    return F(Decimal(repr(float(x)))) if x else F(0)


def order(x):
    """floor(log10 |x|) of a non-zero Fraction, exactly"""
    x = abs(x)
    k = len(str(x.numerator)) - len(str(x.denominator))
    while F(10) ** k > x:
        k -= 1
    while F(10) ** (k + 1) <= x:
        k += 1
    return k


def ideal_digits(style, mode, n, fv, fe):
    """significant digits per number in the correctly rounded text of the property (from the inputs alone): from the
    leading digit of the number to the last printed place; leading zeros of a small number in default style cost no
    precision and do not count (0.0000000000322 +/- 0.0000000000012 has 3 and 2 digits)"""
    ex = 0
    if style != "default":
        ex = order(fv) if fv else (order(fe) if fe else 0)
    ref = (fv if fv else fe) if mode == "value" else (fe if fe else fv)
    if not ref:
        return 1
    p = order(ref) - n + 1
    last = ex - max(0, ex - p)          # exponent of the last printed place
    out = 1
    for x in (fv, fe):
        if x:
            out = max(out, order(x) - last + 1)
    return out


# ---- generators -----------------------------------------------------------------------------------
HEADS = ["95", "996", "9996", "995", "949", "9949", "99", "999", "9999", "99999", "999999", "94999", "9951", "5", "25",
         "15", "45", "9995", "99995", "999995", "105", "1005", "4999", "5001", "85", "35"]


SPECIALS = ["1", "2", "10", "100", "1000", "0.1", "0.5", "5", "9", "9.5", "99", "999", "0.01", "0.001", "1e12", "1e-12",
            "999999999999", "1.5", "2.5", "0.25", "12"]


def gen_number(rng, positive=False):
    """decimal mantissa of <= 12 digits times 10^k, k in [-12, 12]; biased to carries, ties, powers of ten, zero"""
    r = rng.random()
    k = rng.randint(-12, 12)
    if r < 0.05:
        x = F(0)
    elif r < 0.10:
        x = F(rng.choice(SPECIALS))
    elif r < 0.18:
        x = F(10) ** k
    elif r < 0.5:
        head = rng.choice(HEADS)
        tail = "".join(rng.choice("0123456789") for _ in range(rng.randint(0, 12 - len(head))))
        digits = head + tail
        x = F(int(digits), 10 ** (len(digits) - 1)) * F(10) ** k
    else:
        nd = rng.randint(1, 12)
        m = rng.randint(1, 10 ** nd - 1)
        x = F(m, 10 ** (len(str(m)) - 1)) * F(10) ** k
    if x and not (F(1, 10 ** 12) <= x <= F(10 ** 12)):
        x = x / F(10) ** (order(x) - rng.randint(-11, 11))
    if not positive and rng.random() < 0.3:
        x = -x
    return float(x)


def gen_pair(rng):
    v, e = gen_number(rng), gen_number(rng, True)
    if v and e and rng.random() < 0.7:
        # the usual situation: the uncertainty a few decades below (sometimes above) the value
        fe = dec(e) * F(10) ** (order(dec(v)) - order(dec(e)) - rng.randint(-2, 9))
        if F(1, 10 ** 12) <= fe <= F(10 ** 12):
            e = float(fe)
    return v, e


def all_configs():
    return [(s, m, n) for s in STYLES for m in MODES for n in range(1, 7)]


def gen_wild(rng):
    """outside the property's domain but inside the model's: negative uncertainty handed to the printer directly,
    magnitudes up to 1e+-15, n up to 9, up to 14 printed digits"""
    k = rng.randint(-15, 15)
    nd = rng.randint(1, 12)
    m = rng.randint(1, 10 ** nd - 1)
    v = float(F(m, 10 ** (len(str(m)) - 1)) * F(10) ** k) * rng.choice([1, -1])
    k2 = rng.randint(-15, 15)
    m2 = rng.randint(1, 10 ** rng.randint(1, 6) - 1)
    e = float(F(m2, 10 ** (len(str(m2)) - 1)) * F(10) ** k2) * rng.choice([1, 1, -1])
    if rng.random() < 0.1:
        v = 0.0
    return v, e, (rng.choice(STYLES), rng.choice(MODES), rng.randint(1, 9))


def small_scope(step):
    """every v = m/100 for m in [-50, 1100] (stride [step]) against uncertainties around the carries"""
    es = [0.0, 0.05, 0.094, 0.095, 0.096, 0.1, 0.5, 0.95, 0.96, 1.0, 9.5, 9.96]
    for m in range(-50, 1101, step):
        for e in es:
            yield m / 100.0, e


def powers_of_ten():
    """deterministic sub-stream, always run: for EVERY exponent k in [-12, 12] the reference number (uncertainty in
    automatic / error mode, value in value mode) is exactly 10^k (+-10^k for the value), the partner number has non-zero
    digits just below the correct rounding place; all three styles, n in 1..6.  Yields (style, mode, n, v, e) inside the
    property's domain (an order of magnitude computed one too low or too high for an exact power of ten -- log(x, 10),
    log10 noise, ceil -- shows here and nowhere else)"""
    for k in range(-12, 13):
        p10 = F(10) ** k
        pairs = []
        for mant in (F(12345, 1000), F(98765, 100000), F(-76543, 10000), F(54321, 100), F(5, 1)):
            pairs.append((("auto", "error"), mant * p10, p10))           # uncertainty = 10^k
        for sign in (1, -1):
            for mant in (F(56, 1000), F(1234, 10000), F(567, 100000), F(45, 100)):
                pairs.append((("value",), sign * p10, mant * p10))        # value = +-10^k
        for modes, fv, fe in pairs:
            v, e = float(fv), float(fe)
            for mode in modes:
                for style in STYLES:
                    for n in range(1, 7):
                        if in_domain(style, mode, n, v, e):
                            yield style, mode, n, v, e


def extremes():
    """deterministic sub-stream, always run: the ends of the property's range of magnitudes.  Small numbers in DEFAULT
    style need many decimals (up to 17 for 1e-12 with n = 6), large ones many integer digits; a cap or a precision
    limit on either shows only here"""
    for k in list(range(-12, -5)) + list(range(6, 12)):
        p10 = F(10) ** k
        for me, mv in ((F(1234, 1000), F(32178, 1000)), (F(9961, 1000), F(-4567, 1000)), (F(5, 1), F(123456, 1000)),
                       (F(321987, 100000), F(123456789, 100000)), (F(25, 10), F(0))):
            v, e = float(mv * p10), float(me * p10)
            if not all(x == 0 or 1e-12 <= abs(x) <= 1e12 for x in (v, e)):
                continue
            for mode in MODES:
                for style in STYLES:
                    for n in range(1, 7):
                        if in_domain(style, mode, n, v, e):
                            yield style, mode, n, v, e


def fixed_substream():
    for c in powers_of_ten():
        yield c
    for c in extremes():
        yield c


# ---- Coq encoding ---------------------------------------------------------------------------------
def qlit(fr):
    return "({} # {})".format(fr.numerator, fr.denominator)


def coq_bool(b):
    return "true" if b else "false"


def coq_obs(out):
    p = parse(out)
    if p is None:       # raised, or text that is not of the two printed forms: nothing the model can produce as Some
        return "None"
    return "(Some (mko {} {} ({}) ({}) {} ({}) ({}), ({})%Z))".format(
        coq_bool(p["sci"]), coq_bool(p["latex"]), mant(p["vs"]), mant(p["es"]), coq_bool(p["es"] == "0"),
        decs(p["vs"]), p["ex"], decs(p["es"]))


HEADER = (coq.HEADER + "From QV Require Import Base.CaseLib Model.Printing Model.PrintingCases.\n"
          "Open Scope Z_scope.\n"
          "Definition mko (a b : bool) (v e : Z) (c : bool) (d x : Z) : output :=\n"
          "  {| o_sci := a; o_latex := b; o_val := v; o_err := e; o_bare := c; o_dec := d; o_exp := x |}.\n")


def shard_text(pairs):
    """pairs: list of (v, e, [(style, mode, n, out)])"""
    lines = []
    for v, e, ks in pairs:
        items = []
        for s, m, n, out in ks:
            items.append("({}, {}, {}, {})".format(COQ_STYLE[s], COQ_MODE[m], n, coq_obs(out)))
        lines.append("({}, {}, [{}])".format(qlit(dec(v)), qlit(dec(e)), "; ".join(items)))
    return (HEADER + "Definition cases : list pcase := [\n" + ";\n".join(lines) + "].\n"
            "Definition rep_any := Eval vm_compute in (report bad_any cases).\n"
            "Definition rep_exact := Eval vm_compute in (report bad_exact cases).\n"
            "Eval vm_compute in (map fst rep_any).\nEval vm_compute in (map snd rep_any).\n"
            "Eval vm_compute in (map fst rep_exact).\nEval vm_compute in (map snd rep_exact).\n")


# ---- Coq encoding of object histories ---------------------------------------------------------------
def coq_optq(x):
    return "None" if x is None else "(Some {})".format(qlit(dec(x)))


def coq_history(h, recs):
    """the session projected onto each of its objects (the model has no interaction between objects): a list of
    (text of (ostate, [(oop, obs)]), kept records) ; None if it cannot be encoded"""
    if "exn" in recs[0]:
        return None
    news = [r for r in recs if r["op"][0] == "new"]
    rest = recs[len(news):]
    objects = {r["obj"]: r for r in news}
    for r in rest:
        if "derived" in r:
            objects[r["derived"]] = dict(r, consts={}, kind="derived")
    out = []
    for i, new in sorted(objects.items()):
        c = new.get("consts") or {}
        if new.get("kind") == "repeated":
            stats = "(Some {{| st_std := {}; st_eom := {}; st_ewm := {}; st_prop := {} |}})".format(
                qlit(dec(c["std"])), qlit(dec(c["eom"])), coq_optq(c["ewm"]), coq_optq(c["prop"]))
        else:
            stats = "None"
        st = ("{{| s_value := {}; s_error := {}; s_stats := {}; s_style := Default; "
              "s_cfg := {{| c_mode := Auto; c_n := 1 |}} |}}").format(qlit(dec(new["value"])), qlit(dec(new["error"])), stats)
        items, kept = [], []
        started = new.get("kind") != "derived"
        for r in rest:
            op = r["op"]
            k = op[0]
            if r is new:
                started = True
                continue
            if k == "config":
                if "exn" in r:
                    return None
                items.append("(OConfig {} {} {}, None)".format(COQ_STYLE[op[1]], COQ_MODE[op[2]], op[3]))
                kept.append(r)
                continue
            if not started or r.get("obj") != i or k in ("bad", "derive") or "skipped" in r:
                continue                                  # another object's operation; a rejected / non-existent operation
            if k != "print" and "exn" in r:
                continue
            if new.get("kind") == "derived":
                if k != "print":
                    continue
                # a derived value follows its operands (that is C05's subject): the pair it holds now is an input here
                items.append("(OSetValue {}, None)".format(qlit(dec(r["value"]))))
                items.append("(OSetError {}, None)".format(qlit(dec(r["error"]))))
                kept += [r, r]
            if k == "print" and "cfg" in r and ideal_digits(r["cfg"][0], r["cfg"][1], r["cfg"][2], dec(r["value"]),
                                                            abs(dec(r["error"]))) > 12:
                if new.get("kind") == "derived":
                    items, kept = items[:-2], kept[:-2]
                continue                                  # beyond float precision of the exact model: not compared
            if k == "print":
                o = "OPrint"
            elif k in ("value", "error", "rel"):
                o = "({} {})".format({"value": "OSetValue", "error": "OSetError", "rel": "OSetRel"}[k], qlit(dec(float(op[1]))))
            else:
                o = {"use_std": "OUseStd", "use_eom": "OUseEom", "use_ewm": "OUseEwm", "use_prop": "OUseProp"}[k]
            obs = coq_obs(r["text"] if "text" in r else ("raised", r.get("exn", ""))) if k == "print" else "None"
            items.append("({}, {})".format(o, obs))
            kept.append(r)
        out.append(("({}, [{}])".format(st, "; ".join(items)), kept))
    return out


def hshard_text(cases):
    return (HEADER + "From QV Require Import Model.PrintingObj.\nOpen Scope Z_scope.\n"
            "Definition cases : list hcase := [\n" + ";\n".join(cases) + "].\n"
            "Definition rep_any := Eval vm_compute in (hreport bad_hist_any cases).\n"
            "Definition rep_exact := Eval vm_compute in (hreport bad_hist_exact cases).\n"
            "Eval vm_compute in (map fst rep_any).\nEval vm_compute in (map snd rep_any).\n"
            "Eval vm_compute in (map fst rep_exact).\nEval vm_compute in (map snd rep_exact).\n")


def history_in_scope(recs):
    """every print of the history is within float precision of the exact model (<= 14 significant digits)"""
    for r in recs:
        if r["op"][0] == "print" and "cfg" in r:
            st, mo, n = r["cfg"]
            if ideal_digits(st, mo, n, dec(r["value"]), abs(dec(r["error"]))) > 12:
                return False
    return True


# ---- tags (what makes a case non-trivial), computed from the inputs and the printed text ----------------
def tags(style, mode, n, v, e, out):
    t = []
    p = parse(out)
    fv, fe = dec(v), dec(e)
    if v == 0:
        t.append("zero-value")
    if e == 0:
        t.append("zero-error")
    if v < 0:
        t.append("negative")
    if p is None:
        t.append("no-parse")
        return t
    if p["sci"]:
        t.append("exponent")
    elif style != "default":
        t.append("sci-fallback")
    ref_in = (fv if fv else fe) if mode == "value" else (fe if fe else fv)
    ref_out = F(Decimal(p["vs"] if (mode == "value" and fv) or (mode != "value" and not fe) else p["es"])) * F(10) ** p["ex"]
    if ref_in and ref_out and order(ref_out) != order(ref_in):
        t.append("carry")
    if ref_in and (ref_in / F(10) ** (order(ref_in) - n + 1)).denominator == 2:
        t.append("tie")
    if decs(p["vs"]) == 0 and ref_in and order(ref_in) - n + 1 > p["ex"]:
        t.append("place-left-of-units")
    return t


# ---- correspondence ---------------------------------------------------------------------------------
def load_corpus():
    d = os.path.join(core.VERIF, "corpus", ID)
    out = []
    if os.path.isdir(d):
        for f in sorted(os.listdir(d)):
            if f.endswith(".json"):
                out.append(json.load(open(os.path.join(d, f))))
    return out


def correspondence(ctx):
    res = CorrResult()
    rng = ctx.rng
    n_pairs = ctx.n(2000, 24000)
    per_pair = ctx.n(9, 10)
    n_wild = ctx.n(300, 6000)
    configs = all_configs()
    pairs = []       # (v, e, [(style, mode, n, out)], kind)
    skipped = 0

    def add(v, e, cfgs, kind):
        nonlocal skipped
        ks = []
        fv, fe = dec(v), dec(e)
        for (s, m, n) in cfgs:
            digits = ideal_digits(s, m, n, fv, abs(fe))
            if digits > (12 if kind != "wild" else 14):
                skipped += 1
                continue
            via = rng.choice(["measurement", "measurement", "array", "printer", "printer", "printer_arg", "twins",
                              rng.choice([r for r in ROUTES if r.startswith("typed_")])]) if kind != "wild" else "printer"
            if not applicable(via, v, e):
                via = "measurement" if e >= 0 else "printer"
            out = run_impl(s, m, n, v, e, via, rng.choice(HOWS))
            ks.append((s, m, n, out))
            res.evaluations += 1
            res.count("{}:{}:{}".format(kind, s, m))
            res.count("via:" + (via if e >= 0 else "printer"))
            res.count("n={}".format(n))
            if not isinstance(out, str):
                res.count("impl:" + out[0])
            tg = tags(s, m, n, v, e, out)
            for t in tg:
                res.count("tag:" + t)
            if tg:
                res.nontrivial.add(core.canonical_key("c", [s, m, n, repr(v), repr(e)]))
        if ks:
            pairs.append((v, e, ks, kind))

    for c in load_corpus():
        if c.get("kind", "print") != "print":
            continue
        cc = c["case"]
        add(float(cc["v"]), float(cc["e"]), [(cc["style"], cc["mode"], cc["n"])], "corpus")
    for _ in range(n_pairs):
        v, e = gen_pair(rng)
        add(v, e, rng.sample(configs, per_pair), "stream")
    n_pow = 0
    by_pair = {}
    for (st, mo, n, v, e) in fixed_substream():
        if ctx.quick and n in (3, 4, 6):      # the oracle runs all of it in both tiers; the correspondence half of it when quick
            continue
        by_pair.setdefault((v, e), []).append((st, mo, n))
    for (v, e), cfgs in by_pair.items():
        add(v, e, cfgs, "powers-of-ten")
        n_pow += len(cfgs)
    res.extra["powers_of_ten_cases"] = n_pow
    n_small = 0
    for v, e in small_scope(ctx.n(23, 1)):
        cfgs = [(s, m, n) for s in STYLES for m in MODES for n in (1, 2, 3)]
        cfgs = rng.sample(cfgs, 6 if ctx.quick else 15)
        add(v, e, cfgs, "small-scope")
        n_small += 1
    for _ in range(n_wild):
        v, e, cfg = gen_wild(rng)
        add(v, e, [cfg], "wild")
    res.traces = res.evaluations

    # shards
    shards, index = [], []
    cur, cur_n = [], 0
    for i, (v, e, ks, kind) in enumerate(pairs):
        cur.append(i)
        cur_n += len(ks)
        if cur_n >= 450:
            shards.append(shard_text([pairs[j][:3] for j in cur]))
            index.append(cur)
            cur, cur_n = [], 0
    if cur:
        shards.append(shard_text([pairs[j][:3] for j in cur]))
        index.append(cur)
    # object histories
    hists, hcur, hindex, n_hprints, h_skipped = [], [], [], 0, 0
    hist_corpus = [c["case"] for c in load_corpus() if c.get("kind") == "history"]
    for i in range(ctx.n(600, 12000) + len(hist_corpus)):
        h = hist_corpus[i] if i < len(hist_corpus) else gen_history(rng)
        recs = run_history(h)
        if "exn" in recs[0]:
            h_skipped += 1
            continue
        encs = coq_history(h, recs)
        if encs is None:
            h_skipped += 1
            continue
        res.traces += 1
        res.count("history:objects={}".format(len(encs)))
        allk = [r for r in recs if r["op"][0] != "new"]
        for r in allk:
            res.count("history-op:" + r["op"][0] + (":" + r["op"][1] if r["op"][0] == "bad" else ""))
        mods = [j for j, r in enumerate(allk) if r["op"][0] not in ("print", "config", "bad", "derive")]
        prs = [j for j, r in enumerate(allk) if r["op"][0] == "print"]
        if mods and prs and prs[0] < mods[-1] < prs[-1]:
            res.nontrivial.add(core.canonical_key("h", h))     # printed, modified, printed again
        for text, kept in encs:
            hists.append((h, recs, kept))
            hcur.append((len(hists) - 1, text))
            prints = sum(1 for r in kept if r["op"][0] == "print")
            n_hprints += prints
            res.evaluations += prints
        if len(hcur) >= 120:
            shards.append(hshard_text([t for _, t in hcur]))
            index.append(("hist", [j for j, _ in hcur]))
            hcur = []
    if hcur:
        shards.append(hshard_text([t for _, t in hcur]))
        index.append(("hist", [j for j, _ in hcur]))
    res.extra["history_prints"] = n_hprints
    res.extra["object_histories"] = len(hists)
    res.extra["histories_skipped"] = h_skipped
    bads, logs = coq.run_case_files(ID, shards, keep=getattr(ctx, "keep_cases", False))
    near = 0
    near_samples = []
    for idx, bad, log in zip(index, bads, logs):
        if bad is None or len(bad) != 4:
            res.disagreements.append({"name": "case file did not evaluate: {}".format(log.strip().split("\n")[-1][:200]),
                                      "case": None})
            continue
        any_bad = set(zip(bad[0], bad[1]))
        exact_bad = set(zip(bad[2], bad[3]))
        if isinstance(idx, tuple):           # a shard of object histories
            for (i, j) in sorted(exact_bad):
                h, recs, kept = hists[idx[1][i]]
                if (i, j) in any_bad:
                    res.disagreements.append({"name": "Model.PrintingObj.run vs str/repr/print_value_error of a modified object",
                                              "kind": "history", "case": h, "step": j,
                                              "printed": kept[j].get("text", kept[j].get("exn"))})
                else:
                    near += 1
            continue
        for (i, j) in sorted(exact_bad):
            v, e, ks, kind = pairs[idx[i]]
            s, m, n, out = ks[j]
            case = {"style": s, "mode": m, "n": n, "v": repr(v), "e": repr(e), "printed": out if isinstance(out, str) else list(out)}
            if (i, j) in any_bad:
                res.disagreements.append({"name": "Model.Printing.printer vs get_printer()(value, error)", "kind": "print",
                                          "case": case})
            else:
                near += 1
                if len(near_samples) < 3:
                    near_samples.append(case)
    res.extra["near_ties"] = near
    res.extra["near_tie_samples"] = near_samples
    res.extra["skipped_more_than_12_digits"] = skipped
    res.extra["small_scope_pairs"] = n_small
    res.extra["small_scope_all_pairs"] = not ctx.quick
    res.rule = ("pairs (value, uncertainty) = decimal mantissas of <= 12 digits x 10^k, k in [-12, 12], biased to carry cases "
                "(9.5.., 9.96.., 0.95.., 99.5), ties, exact powers of ten, zeros, negatives, 70% with the uncertainty -2..9 decades "
                "below the value; each printed under {} of the 54 configurations (3 styles x 3 modes x n in 1..6) through "
                "str(Measurement) / repr, str(MeasurementArray) or get_printer(); plus the small scope v = m/100, m in [-50, 1100] x 12 uncertainties "
                "around the carries (every pair in the thorough tier, under 15 of its 27 configurations; stride 23 and 6 configurations when quick), the deterministic powers-of-ten sub-stream (for every "
                "k in [-12, 12] the reference number is exactly 10^k -- uncertainty in automatic / error mode, +-value in value "
                "mode -- against partners with digits just below the rounding place, 3 styles, n in 1..6, always run) and a wild stream outside the property's domain "
                "(negative uncertainty, 1e+-15, n <= 9, <= 14 digits). The printed text is parsed to (mantissa integers, decimals, "
                "exponent, style marks) and compared inside Coq with the model run with round-half-even; within 2^-47 relative of a "
                "tie both roundings are admitted (near_ties). Configurations whose correct text needs > 12 digits are skipped "
                "(outside the property). non-trivial = at least one of: carry into the next decade, tie, zero value, zero "
                "uncertainty, negative value, non-zero exponent, scientific fallback to default, rounding place left of the units; "
                "distinct by (style, mode, n, value, uncertainty). "
                "Sessions of objects: one to three single / repeated Measurements alive at once (40% a second object, often a "
                "twin with the SAME central value; ints / numpy scalars / Fractions as inputs; one tiny uncertainty among "
                "ordinary ones), derived values made from them after the operand was printed, 5-16 operations out of print "
                "(str / repr / print_value_error / format / after printing another object), value / error / relative_error "
                "assignment, use_std / use_error_on_mean / use_error_weighted_mean / use_propagated_error, rejected requests "
                "offered twice (negative or non-numeric uncertainty / value, invalid figures, unknown style), changes between "
                "two print configurations through four spellings (with and without a reset; 15% of the sessions start without "
                "any configuration call); the session is projected onto each object, the model state (Model/PrintingObj.v) follows the operations and every printed text is compared "
                "with the model printer on the model's current pair; a history is non-trivial when a modification lies between "
                "two prints").format(per_pair)
    ex = [p for p in pairs if p[3] == "stream"][:3]
    res.samples = [{"value": repr(v), "uncertainty": repr(e),
                    "printed": [{"style": s, "mode": m, "n": n, "text": out} for s, m, n, out in ks[:3]]} for v, e, ks, _ in ex]
    return res


# ---- the property-level oracle (independent of the Coq model) ---------------------------------------------
def check(style, mode, n, v, e, via="measurement", how="reset"):
    """None, or what is wrong with the printed text of (v, e) under (style, mode, n)"""
    out = run_impl(style, mode, n, v, e, via, how)
    if not isinstance(out, str):
        return "formatting {} (route {}, settings by {}): {}".format(out[0], via, how, out[1])
    why = check_text(out, style, mode, n, v, e)
    return "{} (route {}, settings by {})".format(why, via, how) if why and (via, how) != ("measurement", "reset") else why


def check_text(s, style, mode, n, v, e):
    """None, or why the text s is not the correctly rounded pair (v, e) under (style, mode, n)"""
    p = parse(s)
    if p is None:
        return "unreadable text {!r}".format(s)
    if p["latex"] != (style == "latex"):
        return "wrong +/- sign for the style in {!r}".format(s)
    if style == "default" and p["sci"]:
        return "power of ten printed in default style: {!r}".format(s)
    vs, es, ex = p["vs"], p["es"], p["ex"]
    fv, fe = dec(v), dec(e)
    noise = 8 * F(2) ** -52 * max(abs(fv), abs(fe))
    V, E = F(Decimal(vs)) * F(10) ** ex, F(Decimal(es)) * F(10) ** ex
    dv, de = decs(vs), decs(es)
    if e == 0:
        if es != "0":
            return "zero uncertainty printed as {!r} in {!r}".format(es, s)
        if v == 0:
            return None if V == 0 else "0 +/- 0 printed as {!r}".format(s)
        if mode != "value":
            unit = F(10) ** (ex - dv)
            if abs(V - fv) > unit / 2 + noise:
                return "value off by more than half a unit of its last printed digit in {!r}".format(s)
            if unit > F(10) ** (order(fv) - n + 1):
                return "fewer than {} significant figures of the value in {!r}".format(n, s)
            if dv > 0 and unit < F(10) ** (order(fv) - n + 1) and order(V) == order(fv):
                return "more than {} significant figures of the value in {!r}".format(n, s)
            return None
    elif dv != de:
        return "value and uncertainty printed with different numbers of decimals in {!r}".format(s)
    d = dv
    unit = F(10) ** (ex - d)
    if mode == "value" and v == 0:
        if V != 0:
            return "zero value printed as {!r}".format(s)
        if abs(E - fe) > unit / 2 + noise:
            return "uncertainty off by more than half a unit of its last printed digit in {!r}".format(s)
        if unit > F(10) ** (order(fe) - n + 1):
            return "fewer than {} significant figures of the uncertainty in {!r}".format(n, s)
        return None
    ref, what = (V, "value") if mode == "value" else (E, "uncertainty")
    if ref == 0:
        return "non-zero {} printed as zero: {!r}".format(what, s)
    pl = order(ref) - n + 1
    P = F(10) ** pl
    want_d = max(0, ex - pl)
    if d != want_d:
        return "{} decimals printed, {} needed to end at significant figure {} of the printed {} in {!r}".format(
            d, want_d, n, what, s)
    if (ref / P).denominator != 1:
        return "more than {} significant figures in the printed {} in {!r}".format(n, what, s)
    # the place of the n-th significant figure of the reference number as given (P is that place, or ten times it when
    # the rounded reference number carried into the next decade): nothing may be printed below it
    ref_in = fv if mode == "value" else fe
    P0 = F(10) ** (order(ref_in) - n + 1)
    if P not in (P0, 10 * P0):
        return "the printed {} {} is not {} rounded to {} significant figures in {!r}".format(
            what, float(ref), float(ref_in), n, s)
    for name, printed in (("value", V), ("uncertainty", E)):
        if (printed / P0).denominator != 1:
            return "the printed {} has digits below the place of significant figure {} of the {} ({}) in {!r}".format(
                name, n, what, float(P0), s)
    tol = (F(1, 2) + F(1, 20)) * P + noise
    if abs(V - fv) > tol:
        return "value off by {:.4g} units of the rounding place in {!r}".format(float(abs(V - fv) / P), s)
    if e != 0 and abs(E - fe) > tol:
        return "uncertainty off by {:.4g} units of the rounding place in {!r}".format(float(abs(E - fe) / P), s)
    return None


# ---- object-level histories: measurements printed, changed through every public path, printed again ------
SINGLE_OPS = ["value", "error", "rel"]
REPEATED_OPS = ["use_std", "use_eom", "use_ewm", "use_prop", "error", "rel", "value"]
PRINT_ROUTES = ["str", "repr", "pve", "format", "array"]
BAD_OPS = ["neg_error", "neg_rel", "str_value", "str_error", "bad_figs", "zero_figs", "bad_style"]
DERIVE = ["mul2", "add1", "neg", "sum0"]
NUM_TYPES = ["float", "float", "int", "np64", "np32", "frac"]


def gen_object(rng, twin_of=None):
    if twin_of is not None:      # a DISTINCT object with the SAME central value (and name), another uncertainty
        return ["single", twin_of[1], repr(float(gen_number(rng, True))), "float"]
    if rng.random() < 0.55:
        v, e = gen_pair(rng)
        return ["single", repr(v), repr(e), rng.choice(NUM_TYPES)]
    centre = gen_number(rng)
    if centre == 0:
        centre = 5.0
    spread = abs(centre) * rng.choice([0.001, 0.01, 0.05, 0.3])
    k = rng.randint(3, 7)
    data = [float(dec(centre) + dec(spread) * F(rng.randint(-100, 100), 100)) for _ in range(k)]
    if len(set(data)) < 2:
        data[0] = float(dec(data[0]) + dec(spread))
    errs = None
    r = rng.random()
    if r < 0.5:
        errs = [float(dec(spread) * F(rng.randint(20, 150), 100)) for _ in range(k)]
    elif r < 0.65:                # one tiny uncertainty among ordinary ones
        errs = [float(dec(spread))] * k
        errs[rng.randrange(k)] = float(dec(spread) * F(1, 10 ** 6))
    return ["repeated", [repr(x) for x in data], [repr(x) for x in errs] if errs else None]


def gen_history(rng):
    """{"objs": [...], "ops": [...]}: one to three objects alive at once (twins: equal central values), a pool of two print
    configurations so that a configuration is used again after a modification, rejected calls offered twice, objects
    printed before they are used as operands"""
    pool = [(rng.choice(STYLES), rng.choice(MODES), rng.randint(1, 6)) for _ in range(2)]
    objs = [gen_object(rng)]
    if rng.random() < 0.4:
        objs.append(gen_object(rng, twin_of=objs[0]) if objs[0][0] == "single" and rng.random() < 0.6 else gen_object(rng))
    kinds = [o[0] for o in objs]
    ops = []
    if rng.random() < 0.85:      # some sessions do not begin with a reset / any configuration call
        ops.append(["config"] + list(pool[0]) + [rng.choice(HOWS)])
    for _ in range(rng.randint(4, 14)):
        r = rng.random()
        i = rng.randrange(len(kinds))
        if r < 0.42:
            ops.append(["print", rng.choice(PRINT_ROUTES), i])
        elif r < 0.75:
            if kinds[i] == "derived":
                ops.append(["print", rng.choice(PRINT_ROUTES), i])
                continue
            op = rng.choice(SINGLE_OPS if kinds[i] == "single" else REPEATED_OPS)
            if op == "value":
                ops.append(["value", repr(gen_number(rng)), i])
            elif op == "error":
                ops.append(["error", repr(gen_number(rng, True)), i])
            elif op == "rel":
                ops.append(["rel", repr(rng.choice([0.0, 0.001, 0.01, 0.05, 0.096, 0.1, 0.25, 0.5, 0.95, 2.0])), i])
            else:
                ops.append([op, i])
        elif r < 0.83:
            bad = ["bad", rng.choice(BAD_OPS), i]
            ops += [bad, list(bad)]                     # the same invalid request twice
        elif r < 0.90 and len(kinds) < 4:
            if rng.random() < 0.7:
                ops.append(["print", rng.choice(PRINT_ROUTES), i])     # read before being used as an operand
            ops.append(["derive", rng.choice(DERIVE), i])
            kinds.append("derived")
        else:
            ops.append(["config"] + list(rng.choice(pool)) + [rng.choice(HOWS)])
    for i in range(len(kinds)):
        ops.append(["print", rng.choice(PRINT_ROUTES), i])
    return {"objs": objs, "ops": ops}


def build_object(q, o):
    if o[0] == "single":
        kind = {"float": None, "int": "typed_int", "np64": "typed_np64", "np32": "typed_np32", "frac": "typed_frac"}[o[3]]
        v, e = float(o[1]), float(o[2])
        if kind and typed(kind, v) is not None and typed(kind, e) is not None:
            v, e = typed(kind, v), typed(kind, e)
        return q.Measurement(v, e)
    data = [float(t) for t in o[1]]
    return q.Measurement(data, [float(t) for t in o[2]]) if o[2] else q.Measurement(data)


def run_history(h):
    """-> list of records, one per object built and per op: {"op", "obj", "value", "error", "text", "cfg", "exn", "consts"};
    value/error are read through the public properties of the object concerned after the op.  No reset at the beginning
    beyond the one every check starts from; the configuration in force is tracked as (style, mode, n)"""
    import math
    import warnings
    q = _q()
    q.reset_default_configuration()
    out = []
    cfg = ("default", "auto", 1)
    xs = []
    with warnings.catch_warnings():
        warnings.simplefilter("ignore")
        try:
            for o in h["objs"]:
                try:
                    x = build_object(q, o)
                except Exception as ex:  # noqa
                    return [{"op": ["new"], "exn": "{}: {}".format(type(ex).__name__, str(ex)[:80])}]
                consts = {}
                if o[0] == "repeated":
                    consts = {"std": x.std, "eom": x.error_on_mean, "ewm": x.error_weighted_mean, "prop": x.propagated_error}
                    consts = {k: (None if (isinstance(v, float) and math.isnan(v)) else float(v)) for k, v in consts.items()}
                xs.append(x)
                out.append({"op": ["new"], "obj": len(xs) - 1, "value": float(x.value), "error": float(x.error), "consts": consts,
                            "kind": o[0]})
            for op in h["ops"]:
                rec = {"op": op}
                k = op[0]
                i = op[-1] if k != "config" else None
                try:
                    if k == "config":
                        configure(op[1], op[2], op[3], op[4])
                        cfg = (op[1], op[2], op[3])
                    elif i >= len(xs):
                        rec["skipped"] = "no such object"
                    elif k == "print":
                        x = xs[i]
                        if op[1] == "str":
                            t = str(x)
                        elif op[1] == "repr":
                            m_ = re.match(r"^\w+\((.*)\)$", repr(x))
                            t = m_.group(1) if m_ else repr(x)
                        elif op[1] == "pve":
                            t = x.print_value_error()
                        elif op[1] == "format":
                            t = "{}".format(x)
                        else:   # another object printed in between must not matter
                            str(q.MeasurementArray([1.0, 2.0], error=[0.1, 0.1]))
                            t = x.print_value_error()
                        rec["text"] = t
                        rec["cfg"] = list(cfg)
                    elif k == "value":
                        xs[i].value = float(op[1])
                    elif k == "error":
                        xs[i].error = float(op[1])
                    elif k == "rel":
                        xs[i].relative_error = float(op[1])
                    elif k == "use_std":
                        xs[i].use_std_for_uncertainty()
                    elif k == "use_eom":
                        xs[i].use_error_on_mean_for_uncertainty()
                    elif k == "use_ewm":
                        xs[i].use_error_weighted_mean_as_value()
                    elif k == "use_prop":
                        xs[i].use_propagated_error_for_uncertainty()
                    elif k == "derive":
                        a = xs[i]
                        d = {"mul2": lambda: a * 2, "add1": lambda: a + 1, "neg": lambda: -a, "sum0": lambda: a + xs[0]}[op[1]]()
                        xs.append(d)
                        rec["derived"] = len(xs) - 1
                        i = len(xs) - 1
                    elif k == "bad":
                        w = op[1]
                        try:
                            if w == "neg_error":
                                xs[i].error = -1.0
                            elif w == "neg_rel":
                                xs[i].relative_error = -0.5
                            elif w == "str_value":
                                xs[i].value = "12"
                            elif w == "str_error":
                                xs[i].error = "0.1"
                            elif w == "bad_figs":
                                q.set_sig_figs_for_error(2.5)
                            elif w == "zero_figs":
                                q.set_sig_figs_for_value(0)
                            elif w == "bad_style":
                                q.set_print_style("fancy")
                            rec["accepted"] = True          # not this property's business, but the state may have changed
                        except AttributeError:
                            rec["rejected"] = True          # read-only on a derived value
                        except (ValueError, TypeError) as ex:
                            rec["rejected"] = True
                    else:
                        raise ValueError("unknown op {}".format(op))
                except AttributeError as ex:
                    rec["skipped"] = str(ex)[:60]      # use_* after the value was overridden, setters of a derived value
                except Exception as ex:  # noqa
                    rec["exn"] = "{}: {}".format(type(ex).__name__, str(ex)[:80])
                if i is not None and i < len(xs):
                    rec["obj"] = i
                    try:
                        rec["value"], rec["error"] = float(xs[i].value), float(xs[i].error)
                    except Exception as ex:  # noqa
                        rec["exn"] = "{}: {}".format(type(ex).__name__, str(ex)[:80])
                out.append(rec)
        finally:
            q.reset_default_configuration()
    return out


def history_fails(h):
    """None, or why some printed text of the history is not the printed object's CURRENT value and uncertainty, correctly
    rounded under the configuration in force"""
    recs = run_history(h)
    for i, r in enumerate(recs):
        if r["op"][0] == "new" and "exn" in r:
            return None                      # the object could not be built: not a printing matter
        if r["op"][0] != "print" or "skipped" in r:
            continue
        if "exn" in r:
            return "step {}: printing raised {}".format(i, r["exn"])
        style, mode, n = r["cfg"]
        v, e = r["value"], r["error"]
        if not (e >= 0) or v != v or not in_domain(style, mode, n, v, e):
            continue
        why = check_text(r["text"], style, mode, n, v, e)
        if why:
            return "step {} ({}): the object holds {!r} +/- {!r}; {}".format(i, "/".join(map(str, r["op"])), v, e, why)
    return None


def shrink_history(h):
    ops = core.shrink_list(h["ops"], lambda o: history_fails(dict(h, ops=o)) is not None)
    best = dict(h, ops=ops)
    # fewer / simpler objects
    used = sorted({op[-1] for op in best["ops"] if op[0] != "config"})
    if used and len(best["objs"]) > 1 and not any(op[0] == "derive" for op in best["ops"]):
        keep = [j for j in range(len(best["objs"])) if j in used]
        ren = {j: k for k, j in enumerate(keep)}
        c = {"objs": [best["objs"][j] for j in keep],
             "ops": [op if op[0] == "config" else op[:-1] + [ren[op[-1]]] for op in best["ops"]]}
        try:
            if history_fails(c):
                best = c
        except Exception:  # noqa
            pass
    for j, o in enumerate(best["objs"]):
        for cand in ([["single", "5.0", "0.5", "float"], ["single", o[1], o[2], "float"]] if o[0] == "single" else
                     [["repeated", ["5.0", "5.2", "4.9", "5.1"], None], ["repeated", o[1], None]]):
            c = dict(best, objs=best["objs"][:j] + [cand] + best["objs"][j + 1:])
            try:
                if history_fails(c):
                    best = c
                    break
            except Exception:  # noqa
                pass
    # simpler configurations
    for i, op in enumerate(best["ops"]):
        if op[0] == "config":
            for cfgc in (["config", "default", "auto", 1, "reset"], ["config", "default", op[2], op[3], "reset"],
                         ["config", op[1], op[2], 1, "reset"], ["config", op[1], op[2], op[3], "reset"]):
                c = dict(best, ops=best["ops"][:i] + [cfgc] + best["ops"][i + 1:])
                if history_fails(c):
                    best = c
                    break
    return best


def in_domain(style, mode, n, v, e):
    fv, fe = dec(v), dec(e)
    for x in (fv, fe):
        if x and not (F(1, 10 ** 12) <= abs(x) <= F(10 ** 12)):
            return False
    return e >= 0 and 1 <= n <= 6 and ideal_digits(style, mode, n, fv, fe) <= 12


def case_of(style, mode, n, v, e):
    return {"style": style, "mode": mode, "n": n, "v": repr(float(v)), "e": repr(float(e))}


def fails(case):
    style, mode, n, v, e = case["style"], case["mode"], case["n"], float(case["v"]), float(case["e"])
    if not in_domain(style, mode, n, v, e):
        return None
    why = check(style, mode, n, v, e) or check(style, mode, n, v, e, "printer", "noreset") \
        or check(style, mode, n, v, e, "array", "enum")
    if why:
        return why
    # one more entry point / number type / spelling per case, chosen by the case itself (deterministic)
    h = int(hashlib.sha256(json.dumps(case, sort_keys=True).encode()).hexdigest()[:8], 16)
    extra = [r for r in ROUTES[3:] if applicable(r, v, e)]
    via = extra[h % len(extra)]
    return check(style, mode, n, v, e, via, HOWS[(h >> 8) % len(HOWS)])


def shorter(x):
    """simpler numbers near x: fewer digits, exponent nearer 0"""
    fx = dec(x)
    if not fx:
        return
    yield 0.0
    o = order(fx)
    digs = len(str(abs(fx * F(10) ** (12 - o)).numerator).rstrip("0")) if fx else 0
    for keep in range(1, 13):
        unit = F(10) ** (o - keep + 1)
        for r in (fx // unit * unit, (fx // unit + 1) * unit):
            if r and r != fx and keep < digs:
                yield float(r)
    for k in (0, 1, -1, 2, -2, -3, 3, -5):
        if k != o and abs(k) < abs(o):
            yield float(fx * F(10) ** (k - o))
    if fx < 0:
        yield float(-fx)


def shrink(case):
    best = dict(case)
    for _ in range(8):
        changed = False
        cands = []
        for s in STYLES:
            if STYLES.index(s) < STYLES.index(best["style"]):
                cands.append(dict(best, style=s))
        for n in range(1, best["n"]):
            cands.append(dict(best, n=n))
        for m in MODES:
            if MODES.index(m) < MODES.index(best["mode"]):
                cands.append(dict(best, mode=m))
        for y in shorter(float(best["v"])):
            cands.append(dict(best, v=repr(y)))
        for y in shorter(float(best["e"])):
            if y >= 0:
                cands.append(dict(best, e=repr(y)))
        # scale both numbers together
        fv, fe = dec(float(best["v"])), dec(float(best["e"]))
        o = order(fv) if fv else (order(fe) if fe else 0)
        for k in (0, 1, -1, 2, -2, -3):
            if abs(k) < abs(o):
                cands.append(dict(best, v=repr(float(fv * F(10) ** (k - o))), e=repr(float(fe * F(10) ** (k - o)))))
        for c in cands:
            try:
                w = fails(c)
            except Exception:  # noqa
                w = None
            if w:
                best, changed = c, True
                break
        if not changed:
            break
    return best


def search(ctx, suspects, budget):
    t0 = time.time()
    rng = ctx.rng
    out, seen = [], set()
    todo = []
    for s in suspects:
        c = s.get("case")
        if c and "style" in c:
            todo.append({k: c[k] for k in ("style", "mode", "n", "v", "e")})
    todo += [c["case"] for c in load_corpus() if c.get("kind", "print") == "print"]
    configs = all_configs()
    tried = 0
    small = list(small_scope(ctx.n(9, 1)))

    # Everything the oracle runs goes through one journal: when an input fails only after the inputs that ran before it
    # in this interpreter (state the library keeps between calls), the witness reported is the shortest such session,
    # replayed from a freshly imported library.
    journal = []

    def run_entry(entry):
        return fails(entry[1]) if entry[0] == "print" else history_fails(entry[1])

    def session_fails(entries):
        core.fresh_impl()
        why = None
        for en in entries:
            try:
                why = run_entry(en)
            except Exception as ex:  # noqa
                why = "{}: {}".format(type(ex).__name__, ex)
        return why

    def examine(entry):
        """run one entry; on failure decide: fails on its own (shrink it) or only as the end of a session"""
        if len(journal) >= 1500:
            core.fresh_impl()
            del journal[:]
        why = run_entry(entry)
        if not why:
            journal.append(entry)
            return
        core.fresh_impl()
        alone = run_entry(entry)
        if alone:
            del journal[:]
            if entry[0] == "print":
                small_c = shrink(entry[1])
                why = fails(small_c) or alone
                key = re.sub(r"[-\d.]+", "#", why)[:50]
                v = Violation(ID, "print", small_c, "{} with {}".format(why, small_c))
            else:
                small_c = shrink_history(entry[1])
                why = history_fails(small_c) or alone
                key = "history:" + re.sub(r"[-\d.]+", "#", why)[:60]
                v = Violation(ID, "history", small_c, why)
        else:
            prefix = core.minimize_session(list(journal), lambda pre: session_fails(pre + [entry]) is not None)
            sess = [list(en) for en in prefix + [entry]]
            why2 = session_fails(sess) or why
            key = "session:" + re.sub(r"[-\d.]+", "#", why2)[:60]
            v = Violation(ID, "session", {"session": sess},
                          "after {} earlier input(s) in the same interpreter: {}".format(len(prefix), why2))
            core.fresh_impl()
            del journal[:]
        if key not in seen:
            seen.add(key)
            out.append(v)

    def report(c):
        examine(("print", c))

    # deterministic part, independent of the budget: exact powers of ten at every exponent
    n_pow = 0
    for (st, mo, n, v, e) in fixed_substream():
        if len(out) >= 3:
            break
        n_pow += 1
        report(case_of(st, mo, n, v, e))
    ctx.notes.append("oracle: {} deterministic cases (powers of ten at every exponent, ends of the magnitude range)".format(n_pow))
    # the same inputs again, later in the same interpreter and under another configuration in between
    again = [case_of(st, mo, n, v, e) for k, (st, mo, n, v, e) in enumerate(fixed_substream()) if k % 23 == 0]
    for c in again:
        if len(out) >= 3:
            break
        report(c)
    # object-level sessions (print, modify through every public path, print again), a fixed number per run
    n_hist = 0
    hs = [s_["case"] for s_ in suspects if s_.get("kind") == "history" and s_.get("case")]
    hs += [c["case"] for c in load_corpus() if c.get("kind") == "history"]
    for i in range(ctx.n(400, 6000)):
        hs.append(None)
    for h in hs:
        if len(out) >= 3:
            break
        if h is None:
            h = gen_history(rng)
        n_hist += 1
        examine(("history", h))
    ctx.notes.append("oracle: {} object sessions".format(n_hist))
    while len(out) < 3:
        if todo:
            cases = [todo.pop(0)]
        elif time.time() - t0 > budget:
            break
        else:
            if small and tried % 3 == 0:
                v, e = small.pop(rng.randrange(len(small)))
            else:
                v, e = gen_pair(rng)
            cases = [case_of(s, m, n, v, e) for (s, m, n) in rng.sample(configs, 6)]
        for c in cases:
            tried += 1
            report(c)
    ctx.notes.append("oracle: {} (pair, configuration) cases in {:.1f}s".format(tried, time.time() - t0))
    return out


def replay(ctx, v):
    if v["kind"] == "session":
        why = None
        for kind, c in v["case"]["session"]:
            why = fails(c) if kind == "print" else history_fails(c)
        return Violation(ID, v["kind"], v["case"], why) if why else None
    if v["kind"] == "history":
        why = history_fails(v["case"])
        return Violation(ID, v["kind"], v["case"], why) if why else None
    why = fails(v["case"])
    return Violation(ID, v["kind"], v["case"], why) if why else None
