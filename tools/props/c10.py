"""C10 -- Repeated-measurement statistics equal their textbook definitions."""
import json
import math
import os
import time
import warnings
from fractions import Fraction

from vlib import core, coq
from vlib.core import CorrResult, Violation, shrink_list
from vlib.coqfmt import qlit, coq_list, coq_bool, coq_option, Interner
from props import statlib as sl
from props.statlib import fx, hx, fr

ID = "C10"
MANIFEST = {
    "technique": "Rocq proof that the model of the statistics code equals the textbook definitions (mean, n-1 variance, error on the "
                 "mean, error-weighted mean, propagated error, sample covariance), induction over all selector histories, "
                 "Cauchy-Schwarz and the collinear case (correlation exactly +-1, request accepted by the correlation-store model) "
                 "+ vm_compute correspondence of the model with the implementation + independent Fraction reference search",
    "level_text": "Machine-checked theorems (C10_stats, C10_weighted, C10_selectors, C10_propagation, C10_monte_carlo, C10_cov, C10_cauchy_schwarz, C10_collinear; "
                  "exact rational arithmetic, uncertainties carried as their squares because Q has no square roots; C10_stats_R "
                  "restates the standard deviation and the error on the mean with real square roots) about Model/Stats.v, a Gallina "
                  "transcription of RepeatedlyMeasuredValue (constructor, use_* selectors), ExperimentalValueArray.mean / std / "
                  "error_on_mean / error_weighted_mean / propagated_error and utils.calculate_covariance, and about the inferred path "
                  "of Model/Corr.v (clamped covariance). All reading arrays, all uncertainty arrays and all selector histories are "
                  "covered by induction over lists. The model is run against the implementation on every check: dyadic reading "
                  "arrays of length 2-12 (large offsets, fine and wide spreads; lists, lists of numpy scalars, mixed int / float lists, numpy "
                  "arrays of dtype float64 / float32 / float16 / int64 / int32 / int16 with values at the precision limit of the dtype), "
                  "no / common / individual / "
                  "partly zero uncertainties, random selector histories with a derivative-method propagation k*a+c and Monte Carlo "
                  "propagations of k*a+c and a*a (injected offsets, samples compared one by one) in every selector state, and pairs of "
                  "arrays (exactly collinear, nearly collinear, independent, unequal length, zero spread) through set_covariance / "
                  "set_correlation.",
    "level_note": "Trusted: Coq kernel; the hand transcription Model/Stats.v (tied by the correspondence); numpy's mean / std / sum / "
                  "sqrt are oracles validated by the correspondence to 1e-9 relative on the squares; readings are taken as the exact "
                  "rationals of the doubles; arrays with fewer than two readings, NaN / infinite readings and negative uncertainties "
                  "(rejected at construction, C14) are outside the model.",
    "design_ref": "DESIGN.md section 4 C10",
}
GEN = []
PROPS_FILE = "Props/C10.v"
MODEL_TARGETS = ["Model/StatsCases.v"]
EXTRA_TARGETS = ["Model/StatsCases.v"]
TRUSTED = [
    "Model/Stats.v: hand-written transcription of the statistics of RepeatedlyMeasuredValue / ExperimentalValueArray / "
    "calculate_covariance (tied by correspondence); its textbook layer t_* is the specification",
    "numpy mean / std / sum / sqrt (validated against the exact model on every run, not verified)",
    "propagation through two correlated repeated measurements (a - b, 2a + b, a / b after selectors on either) is checked by the "
    "oracle only (first-order law with the uncertainties in use), not modelled in Coq here (C01 owns the propagation law)",
    "np.random.normal is replaced by fixed dyadic offsets for the sample-by-sample Monte Carlo comparison; the oracle also runs "
    "real simulations (40000 samples, seeded from the case) against the 6-sigma bounds of the estimators",
]
ASSUMPTIONS = [
    "readings and uncertainties are finite doubles, taken as the exact rationals they denote; at least two readings",
    "uncertainties are compared through their squares with relative tolerance 2e-9 (value-like numbers 1e-9)",
    "individual uncertainties are >= 0 (negative ones are rejected at construction); a zero among them makes the weighted "
    "statistics 'not valid' (nan + warning) and the corresponding selectors leave the object unchanged",
]

SEL_METHOD = {"std": "use_std_for_uncertainty", "eom": "use_error_on_mean_for_uncertainty",
              "ewm": "use_error_weighted_mean_as_value", "perr": "use_propagated_error_for_uncertainty"}
SEL_COQ = {"std": "UseStd", "eom": "UseEom", "ewm": "UseEwm", "perr": "UsePerr"}


# ---- running the implementation -----------------------------------------------------------------------
def num(x):
    """a finite number as hex, nan as None"""
    x = float(x)
    if math.isnan(x):
        return None
    if math.isinf(x):
        return "inf"
    return hx(x)


def read(a):
    import numpy as np
    with warnings.catch_warnings():
        warnings.simplefilter("ignore")
        raw = a.raw_data
        raw = [float(v.value) if hasattr(v, "value") else float(v) for v in list(raw)]
        return {"raw": [hx(v) for v in raw], "mean": num(a.mean), "std": num(a.std), "eom": num(a.error_on_mean),
                "wmean": num(a.error_weighted_mean), "perr": num(a.propagated_error),
                "value": num(a.value), "error": num(a.error),
                "types": [type(x).__name__ for x in (a.mean, a.std, a.error_on_mean, a.value, a.error)
                          if not isinstance(x, (float, np.floating))]}


def build_rmv(case):
    """the repeated measurement of a case (after the earlier object of the same readings, if the case has one)"""
    import qexpy as q
    keep = None
    if case.get("before"):
        with warnings.catch_warnings():
            warnings.simplefilter("ignore")
            keep = sl.build(["repeated", case["xs"], case["before"]["errs"], case.get("container", "list")])
            for s in case["before"]["sels"]:
                getattr(keep, SEL_METHOD[s])()
            _ = (2 * keep).error
    opts = {"etype": case["etype"]} if case.get("etype") else {}
    held = []
    a = sl.build(["repeated", case["xs"], case["errs"], case.get("container", "list"), opts], held)
    if case.get("aliasing"):
        sl.mutate_inputs(held)                      # the caller's own list / array is modified after the recording
    if case.get("prop_first"):
        d = fx(case["k"]) * a + fx(case["c"])
        _ = d.value, d.error, str(d)
    return a, keep


def run_rmv(case):
    """-> (obs0, mc samples of the fresh object, [(sel, warned, obs, (dvalue, derror), mc samples)])"""
    import qexpy as q
    q.set_error_method("derivative")
    a, keep = build_rmv(case)                       # noqa: F841
    k, c = fx(case["k"]), fx(case["c"])
    offs = case_offsets(case)
    obs0 = read(a)
    mc0 = sl.mc_injected(a, k, c, offs)
    hist = []
    for s in case["sels"]:
        with warnings.catch_warnings(record=True) as w:
            warnings.simplefilter("always")
            getattr(a, SEL_METHOD[s])()
            warned = any("not valid" in str(x.message) or "cannot be calculated" in str(x.message) for x in w)
        d = k * a + c
        hist.append((s, warned, read(a), (num(d.value), num(d.error)), sl.mc_injected(a, k, c, offs)))
    return obs0, mc0, hist


def case_offsets(case):
    return [fx(h) for h in case["offsets"]] if case.get("offsets") else list(sl.DEFAULT_OFFSETS)


def build_pair(case):
    """the two repeated measurements of a pair case; aliasing "buffer": both are recorded, one after the other, from
    ONE re-used float64 numpy buffer (equal lengths only); "mutate": the caller's containers are modified afterwards"""
    import numpy as np
    held = []
    al = case.get("aliasing")
    if al == "buffer" and len(case["xs"]) == len(case["ys"]):
        buf = np.empty(len(case["xs"]))
        a = sl.build(["repeated", case["xs"], None, "ndarray", {"buffer": buf}], held)
        b = sl.build(["repeated", case["ys"], None, "ndarray", {"buffer": buf}], held)
    else:
        a = sl.build(["repeated", case["xs"], None, case.get("container", "list")], held)
        b = sl.build(["repeated", case["ys"], None, case.get("container_b", "list")], held)
    if al:
        sl.mutate_inputs(held)
    return a, b


def run_pair(case):
    """-> ["accepted", cov, corr, cov_ba, corr_ba] | ["rejected", exception name]"""
    import qexpy as q
    q.reset_correlations()
    a, b = build_pair(case)
    name = "set_covariance" if case["setter"] == "set_cov" else "set_correlation"
    try:
        with warnings.catch_warnings():
            warnings.simplefilter("ignore")
            if case["form"] == "fn":
                getattr(q, name)(a, b)
            else:
                getattr(a, name)(b)
        out = ["accepted", num(q.get_covariance(a, b)), num(q.get_correlation(a, b)),
               num(q.get_covariance(b, a)), num(q.get_correlation(b, a))]
    except Exception as e:  # noqa
        out = ["rejected", type(e).__name__]
    q.reset_correlations()
    return out


# ---- generators -------------------------------------------------------------------------------------------
def gen_errs(rng, n):
    u = rng.random()
    if u < 0.28:
        return None
    if u < 0.45:
        return hx(rng.choice([1.0, sl.dyadic(rng, 4, 4, positive=True, nonzero=True), sl.dyadic(rng, 4, 4, positive=True, nonzero=True)]))
    if u < 0.5:
        return hx(0.0)
    errs = [sl.dyadic(rng, 5, 5, positive=True, nonzero=True) for _ in range(n)]
    if u < 0.62:
        errs[rng.randrange(n)] = 0.0                    # one zero: weighted statistics not valid
    elif u < 0.7:
        errs = [e * rng.choice([1.0, 1.0, 1024.0, 1.0 / 1024]) for e in errs]        # very unequal weights
    return [hx(e) for e in errs]


# The property is scale-free: readings and uncertainties of any magnitude (wavelengths in metres, capacitances in
# farads, counts in the millions).  Scale factors applied to a whole case; powers of two keep dyadic data dyadic.
SCALES = [2.0 ** -30, 2.0 ** -40, 2.0 ** -50, 1e-9, 1e-12, 5.32e-7, 2.0 ** 30, 1e6]
POW2_SCALES = [2.0 ** -30, 2.0 ** -40, 2.0 ** -50, 2.0 ** 30]


def scale_errs(errs, f):
    if errs is None:
        return None
    if isinstance(errs, list):
        return [hx(fx(h) * f) for h in errs]
    return hx(fx(errs) * f)


def gen_wmean_zero(rng):
    """readings and positive uncertainties whose error-weighted mean is exactly 0 while the plain mean is not
    (uncertainties are powers of two, so the weights and the weighted sum are exact in doubles)"""
    for _ in range(50):
        n = rng.choice([2, 2, 3, 4, 5])
        ss = [2.0 ** rng.randrange(-3, 4) for _ in range(n)]
        xs = [sl.dyadic(rng, 5, 2, nonzero=True) for _ in range(n - 1)]
        ws = [Fraction(1) / Fraction(s) ** 2 for s in ss]
        last = -sum((w * Fraction(x) for w, x in zip(ws, xs)), Fraction(0)) / ws[-1]
        xl = float(last)
        if Fraction(xl) != last:
            continue
        xs.append(xl)
        if len(set(xs)) < 2 or sum(Fraction(x) for x in xs) == 0:
            continue
        f = rng.choice([1.0, 1.0, 2.0 ** -30, 2.0 ** 20])
        sels = ["ewm"] + [rng.choice(["std", "eom", "ewm", "perr"]) for _ in range(rng.randrange(0, 3))]
        return {"xs": [hx(x * f) for x in xs], "errs": [hx(s_ * f) for s_ in ss], "container": rng.choice(["list", "ndarray"]),
                "k": hx(sl.dyadic(rng, 4, 2, nonzero=True)), "c": hx(sl.dyadic(rng, 5, 1) * f), "sels": sels,
                "offsets": [hx(o) for o in sl.gen_offsets(rng)], "mc_seed": rng.randrange(2 ** 32), "scale": hx(f),
                "special": "weighted mean exactly 0"}
    return None


def gen_rmv(rng, pow2=False):
    """pow2: the uncertainties are scaled by powers of two only (the readings by any factor)"""
    if rng.random() < 0.06:
        case = gen_wmean_zero(rng)
        if case:
            return case
    u = rng.random()
    scale = 1.0
    if u < 0.3:                                     # numpy arrays of a narrow dtype, values at its precision limit
        container = rng.choice(["f32", "f32", "f16", "f16", "i64", "i32", "i16"])
        xs = sl.gen_typed_readings(rng, container)
    else:
        xs = sl.gen_readings(rng)
        if rng.random() < 0.4:
            scale = rng.choice(SCALES)
            xs = [x * scale for x in xs]
            if len(set(xs)) < 2:
                xs, scale = sl.gen_readings(rng), 1.0
        container = sl.pick_container(rng, xs, 0.35)
    # pow2 (correspondence): uncertainties keep short mantissas -- the weights 1/s^2 are then short rationals and the
    # exact evaluation inside Coq stays fast; the oracle (Fractions) takes every scale
    errs = scale_errs(gen_errs(rng, len(xs)), 2.0 ** round(math.log2(scale)) if pow2 else scale)
    v = rng.random()
    if errs is not None and v < 0.22:               # uncertainties much smaller than the readings ...
        tiny = rng.choice([2.0 ** -30, 2.0 ** -40] if pow2 else [2.0 ** -30, 1e-9, 2.0 ** -40, 1e-12])
        if isinstance(errs, list) and v < 0.14:     # ... a single small one among ordinary ones
            i = rng.randrange(len(errs))
            errs[i] = hx(fx(errs[i]) * tiny)
        else:
            errs = scale_errs(errs, tiny)
    sels = [rng.choice(["std", "eom", "ewm", "perr"]) for _ in range(rng.choice([0, 1, 2, 3, 4, 6, 9]))]
    k = rng.choice([1.0, -1.0, 2.0, 10.0]) if rng.random() < 0.2 else sl.dyadic(rng, 4, 2, nonzero=True)
    c = 0.0 if rng.random() < 0.15 else sl.dyadic(rng, 5, 1) * scale
    case = {"xs": [hx(x) for x in xs], "errs": errs, "container": container,
            "k": hx(k), "c": hx(c), "sels": sels,
            "offsets": [hx(o) for o in sl.gen_offsets(rng)], "mc_seed": rng.randrange(2 ** 32), "scale": hx(scale)}
    w = rng.random()
    if errs is not None and w < 0.3:                # the uncertainties as numpy array / ints / numpy scalar / Fraction
        if isinstance(errs, list):
            case["etype"] = rng.choice(["ndarray", "int"])
        else:
            e = fx(errs)
            case["etype"] = rng.choice(["float64", "fraction", "int" if e.is_integer() else "float64",
                                        "float32" if sl.representable(e, "float32") else "float64"])
    if rng.random() < 0.25:                         # an earlier object with the same readings, other uncertainties, kept alive
        case["before"] = {"errs": scale_errs(gen_errs(rng, len(xs)), 2.0 ** round(math.log2(scale))),
                          "sels": [rng.choice(["std", "ewm", "perr"]) for _ in range(rng.randrange(0, 3))]}
    if rng.random() < 0.3:
        case["prop_first"] = True                   # the object is used in a calculation before any of its statistics is read
    if rng.random() < 0.3:
        case["aliasing"] = "mutate"                 # readings / uncertainties containers modified in place after recording
    return case


def gen_pair(rng):
    xs = sl.gen_readings(rng)
    n = len(xs)
    u = rng.random()
    kind, k = "independent", None
    if u < 0.38:
        k, c, ys = sl.collinear(rng, xs)
        kind = "collinear"
    elif u < 0.5:
        k, c, ys = sl.collinear(rng, xs)
        i = rng.randrange(n)
        ys = list(ys)
        ys[i] += rng.choice([1.0, -1.0]) * 2.0 ** rng.choice([-20, -12, -6, -2])     # nearly collinear
        kind, k = "nearly-collinear", None
    elif u < 0.6 and n >= 3:
        ys = list(xs)                                # the same readings in another order: equal means and spreads,
        for _ in range(8):                           # distinct objects, not collinear in general
            rng.shuffle(ys)
            if ys != list(xs):
                break
        kind = "permuted"
    elif u < 0.66:
        m2 = 2 * sl.mean([Fraction(x) for x in xs])
        ys = [float(m2 - Fraction(x)) for x in xs]   # reflected about the mean: equal means, slope -1
        if all(Fraction(y) == m2 - Fraction(x) for x, y in zip(xs, ys)):
            kind, k = "collinear", -1.0
        else:
            ys = sl.gen_readings(rng, n=n, kind="small")
    elif u < 0.82:
        ys = sl.gen_readings(rng, n=n, kind=rng.choice(["small", "fine", "offset", "wide"]))
    elif u < 0.92:
        m = rng.choice([j for j in (2, 3, 4, 5, 7) if j != n])
        ys = sl.gen_readings(rng, n=m, kind="small")
        kind = "unequal-length"
    elif u < 0.96:
        ys = [sl.dyadic(rng, 5, 1)] * n
        kind = "zero-spread"
    else:
        ys, kind, k = list(xs), "identical", 1.0    # two distinct objects with the same readings
    if rng.random() < 0.35:                          # either array at another magnitude (exact: powers of two)
        fx_, fy_ = rng.choice(POW2_SCALES + [1.0]), rng.choice(POW2_SCALES + [1.0])
        xs, ys = [x * fx_ for x in xs], [y * fy_ for y in ys]
    case = {"xs": [hx(x) for x in xs], "ys": [hx(y) for y in ys], "setter": rng.choice(["set_cov", "set_corr"]),
            "form": rng.choice(["fn", "meth"]), "container": sl.pick_container(rng, xs, 0.35),
            "container_b": sl.pick_container(rng, ys, 0.35), "kind": kind}
    if rng.random() < 0.4:
        case["aliasing"] = rng.choice(["mutate", "buffer"])
    # later propagation through both quantities: selectors applied to either after the covariance is on record
    case["sel_a"] = rng.choice([[], ["std"], ["std"], ["std", "eom"], ["eom", "std"]])
    case["sel_b"] = rng.choice([[], [], ["std"], ["std"], ["eom"]])
    if rng.random() < 0.35:
        case["declared"] = hx(rng.choice([0.5, -0.5, 0.75, -0.25, 1.0, -1.0, 0.125]))   # declared instead of inferred
    if k is not None:
        case["k"] = hx(k)
    if rng.random() < 0.3:
        case["xs"], case["ys"] = case["ys"], case["xs"]
        case["container"], case["container_b"] = case["container_b"], case["container"]
        if "k" in case:            # xs = (ys - c)/k: still collinear, the slope has the same sign
            case["k"] = hx(math.copysign(1.0, k))
    return case


def gen_ctor(rng):
    """construction with a (mostly malformed) array of individual uncertainties"""
    xs = sl.gen_readings(rng, kind="small")
    n = len(xs)
    u = rng.random()
    if u < 0.3:
        m = rng.choice([j for j in (0, 1, n - 1, n + 1, n + 3) if j >= 0 and j != n])
        errs = [sl.dyadic(rng, 4, 3, positive=True) for _ in range(m)]
    elif u < 0.65:
        errs = [sl.dyadic(rng, 4, 3, positive=True) for _ in range(n)]
        errs[rng.randrange(n)] = -sl.dyadic(rng, 4, 3, positive=True, nonzero=True)
    else:
        errs = [sl.dyadic(rng, 4, 3, positive=True) for _ in range(n)]
    if rng.random() < 0.3:
        f = rng.choice(SCALES)
        errs = [e * f for e in errs]
        if rng.random() < 0.5:
            xs = [x * f for x in xs]
    return {"xs": [hx(x) for x in xs], "errs": [hx(e) for e in errs], "container": sl.pick_container(rng, xs, 0.3)}


def run_ctor(case):
    """-> "ok" | exception name"""
    try:
        sl.build(["repeated", case["xs"], case["errs"], case.get("container", "list")])
        return "ok"
    except Exception as e:  # noqa
        return type(e).__name__


# ---- Coq encoding -------------------------------------------------------------------------------------------
def q_(h):
    return qlit(fx(h))


def model_ss(case):
    n, e = len(case["xs"]), case["errs"]
    if e is None:
        return ["0"] * n
    if isinstance(e, list):
        return [q_(h) for h in e]
    return [q_(e)] * n


def obs_ok(o):
    return all(o[k] not in (None, "inf") for k in ("mean", "std", "eom", "value", "error")) and \
        o["wmean"] != "inf" and o["perr"] != "inf" and not o["types"]


def coq_obs(intern, o):
    raw = intern(coq_list([q_(h) for h in o["raw"]]))
    return intern("(mk_obs {} {} {} {})".format(
        raw, coq_list([q_(o[k]) for k in ("mean", "std", "eom", "value", "error")]),
        coq_option(o["wmean"], q_), coq_option(o["perr"], q_)))


def coq_mc(mc):
    return "({}, {})".format(coq_list([qlit(x) for x in mc[0]]), coq_list([qlit(x) for x in mc[1]]))


def coq_rmv(intern, case, obs0, mc0, hist):
    return "({}, {}, {}, ({}, {}), {}, {}, {})".format(
        intern(coq_list([q_(h) for h in case["xs"]])), intern(coq_list(model_ss(case))), coq_obs(intern, obs0),
        q_(case["k"]), q_(case["c"]), coq_list([qlit(o) for o in case_offsets(case)]), coq_mc(mc0),
        coq_list(["({}, {}, {}, ({}, {}), {})".format(SEL_COQ[s], coq_bool(w), coq_obs(intern, o), q_(dv), q_(de), coq_mc(mc))
                  for s, w, o, (dv, de), mc in hist]))


def mc_ok(mc):
    return all(sl.finite(x) for x in mc[0] + mc[1])


def coq_pair(case, out):
    o = "None" if out[0] == "rejected" else "(Some ({}, {}))".format(q_(out[1]), q_(out[2]))
    return "({}, {}, {})".format(coq_list([q_(h) for h in case["xs"]]), coq_list([q_(h) for h in case["ys"]]), o)


HEADER = ("From Coq Require Import List ZArith QArith Bool.\nImport ListNotations.\n"
          "From QV Require Import Base.CaseLib Model.Stats Model.StatsCases.\nOpen Scope Q_scope.\n")


def correspondence(ctx):
    res = CorrResult()
    rng = ctx.rng
    corpus = load_corpus()
    rmvs = [c["case"] for c in corpus if c.get("kind") == "rmv"] + [gen_rmv(rng, pow2=True) for _ in range(ctx.n(500, 6000))]
    pairs = [c["case"] for c in corpus if c.get("kind") == "pair"] + [gen_pair(rng) for _ in range(ctx.n(300, 3000))]
    res.extra["corpus_cases"] = len(corpus)
    shards, index = [], []
    runs = []
    for case in rmvs:
        obs0, mc0, hist = run_rmv(case)
        runs.append((case, obs0, mc0, hist))
        res.evaluations += 1
        res.traces += 1
        e = case["errs"]
        ek = "none" if e is None else ("common" if isinstance(e, str) else
                                       ("individual-with-zero" if any(fx(h) == 0 for h in e) else "individual"))
        res.count("rmv:n={}".format(len(case["xs"])))
        res.count("rmv:container:" + case.get("container", "list"))
        if case.get("special"):
            res.count("rmv:" + case["special"])
        for key in ("etype", "before", "prop_first", "aliasing"):
            if case.get(key):
                res.count("rmv:" + key + ((":" + case[key]) if key == "etype" else ""))
        sc = fx(case.get("scale", hx(1.0)))
        res.count("rmv:scale:" + ("1" if sc == 1 else "{:.0e}".format(sc)))
        if e is not None:
            el = [fx(h) for h in (e if isinstance(e, list) else [e])]
            if any(0 < x <= 1e-8 for x in el):
                res.count("rmv:uncertainties:some in (0, 1e-8]" + (" among ordinary ones" if any(x > 1e-6 for x in el) else ""))
        res.count("rmv:uncertainties:" + ek)
        for s, w, _, _, _ in hist:
            res.count("selector:{}:{}".format(s, "warned" if w else "applied"))
        res.count("monte-carlo propagations with injected offsets", 2 * (1 + len(hist)))
        if hist and ek != "none":
            res.nontrivial.add(core.canonical_key("rmv", case))
    per = 60
    for k in range(0, len(runs), per):
        intern = Interner("o")
        bodies, idx = [], []
        for j, (case, obs0, mc0, hist) in enumerate(runs[k:k + per]):
            if not obs_ok(obs0) or not mc_ok(mc0) or not all(
                    obs_ok(o) and dv not in (None, "inf") and de not in (None, "inf") and mc_ok(mc)
                    for _, _, o, (dv, de), mc in hist):
                res.disagreements.append({"name": "implementation reported a non-finite or non-float statistic",
                                          "kind": "rmv", "case": case})
                continue
            bodies.append(coq_rmv(intern, case, obs0, mc0, hist))
            idx.append(("rmv", case))
        if bodies:
            shards.append(HEADER + intern.text() + "Definition cases := {}.\nEval vm_compute in (bad_indices check_rmv cases).\n".format(
                coq_list(bodies)))
            index.append(idx)
    pruns = []
    for case in pairs:
        out = run_pair(case)
        pruns.append((case, out))
        res.evaluations += 1
        res.count("pair:{}:{}".format(case.get("kind", "?"), out[0] if out[0] == "accepted" else out[1]))
        res.count("pair:{}:{}".format(case["setter"], case["form"]))
        if case.get("aliasing"):
            res.count("pair:aliasing:" + case["aliasing"])
        if out[0] == "accepted":
            res.nontrivial.add(core.canonical_key("pair", case))
    for k in range(0, len(pruns), 150):
        bodies, idx = [], []
        for case, out in pruns[k:k + 150]:
            if out[0] == "accepted" and (None in out[1:] or "inf" in out[1:]):
                res.disagreements.append({"name": "non-finite covariance / correlation read", "kind": "pair", "case": case})
                continue
            if out[0] == "accepted" and (out[1] != out[3] or out[2] != out[4]):
                res.disagreements.append({"name": "reads of (a, b) and (b, a) differ", "kind": "pair", "case": case})
                continue
            bodies.append(coq_pair(case, out))
            idx.append(("pair", case))
        if bodies:
            shards.append(HEADER + "Definition cases := {}.\nEval vm_compute in (bad_indices check_pair cases).\n".format(
                coq_list(bodies)))
            index.append(idx)
    ctors = [gen_ctor(rng) for _ in range(ctx.n(120, 1500))]
    bodies, idx = [], []
    for case in ctors:
        out = run_ctor(case)
        res.evaluations += 1
        res.count("constructor:" + out)
        if out not in ("ok", "ValueError"):
            res.disagreements.append({"name": "construction ended in " + out, "kind": "ctor", "case": case})
            continue
        bodies.append("({}, {}, {})".format(coq_list([q_(h) for h in case["xs"]]), coq_list([q_(h) for h in case["errs"]]),
                                            coq_bool(out == "ok")))
        idx.append(("ctor", case))
    shards.append(HEADER + "Definition cases := {}.\nEval vm_compute in (bad_indices check_ctor cases).\n".format(coq_list(bodies)))
    index.append(idx)
    res.rule = ("(a) q.Measurement(readings[, uncertainties]) for dyadic reading arrays of length 2-12 (small / large offset / fine / "
                "wide / exact-std; list, list of numpy scalars, mixed int / float list, or numpy array of dtype float64 / float32 / float16 / "
                "int64 / int32 / int16 with values exactly representable in the dtype, biased to its precision limit such as 2^24 for "
                "float32; whole cases scaled by 2^-30 ... 2^-50, 1e-9, 1e-12, 5.32e-7, 2^30, 1e6 and uncertainties scaled down by a "
                "further 1e-9 ... 1e-12, also a single tiny one among ordinary ones (all comparisons relative); in 30-40% of the cases the caller's reading / uncertainty containers are "
                "modified in place after the recording, or two arrays are recorded from one re-used numpy buffer; no, common, individual, partly zero or very unequal uncertainties): raw_data, "
                "mean, std, error_on_mean, error_weighted_mean, propagated_error, value, error of the fresh object and after each "
                "call of a random use_* history (0-9 calls), the warning flag, value / error of k*a+c computed afterwards by the "
                "derivative method, and in every state the Monte Carlo samples of k*a+c and a*a retrieved with injected dyadic "
                "offsets (np.random.normal replaced), "
                "against Model.Stats (squares of uncertainties, 1e-9); (b) set_covariance / set_correlation without a number between "
                "two plain arrays (collinear, nearly collinear, independent, unequal length, zero spread), function and method "
                "form: outcome, covariance, correlation (through its square and sign); (c) malformed stream: construction with "
                "uncertainty arrays of the wrong length or with a negative entry (accepted / ValueError). non-trivial = (a) a non-empty selector "
                "history on an object with uncertainties, (b) an accepted pair; distinct by content")
    res.samples = [dict(runs[0][0]), dict(pruns[0][0])]
    bads, logs = coq.run_case_files(ID, shards, keep=getattr(ctx, "keep_cases", False))
    for idx, bad, log in zip(index, bads, logs):
        if bad is None:
            res.disagreements.append({"name": "case file did not evaluate: " + log.strip().split("\n")[-1][:200], "case": None})
            continue
        for i in bad[0]:
            kind, case = idx[i]
            name = {"rmv": "Model.Stats vs RepeatedlyMeasuredValue statistics",
                    "pair": "Model.Stats.c_cov vs inferred set_covariance / set_correlation",
                    "ctor": "Model.Stats.rmv_make vs q.Measurement(readings, uncertainties)"}[kind]
            res.disagreements.append({"name": name, "kind": kind, "case": case})
    return res


# ---- the property-level oracle (independent of the Coq model) ---------------------------------------------------
ULP4 = 1 - 1e-9         # exactly collinear readings: +-1 up to rounding (a shortfall of a few ulp times the conditioning
                        # offset / spread is not a violation of the textbook definition; overshoot beyond 1 is)


def errs_list(case):
    n, e = len(case["xs"]), case["errs"]
    if e is None:
        return [Fraction(0)] * n
    if isinstance(e, list):
        return [fr(h) for h in e]
    return [fr(e)] * n


MC_N = 40000


def mc_oracle(a, k, c, offs, want_value, want_error, where, seed=None):
    """Monte Carlo propagation through a must use the selected value / uncertainty (hex strings).
    Deterministic part: with injected offsets o every retrieved sample of k*a+c is k*(o*error+value)+c and of a*a
    is (o*error+value)^2.  Statistical part (seed given): a real simulation of MC_N samples of k*a+c has mean
    within 6 sigma/sqrt(N) of k*value+c and standard deviation within 6 sigma/sqrt(2N) of |k|*error."""
    v, e = fr(want_value), fr(want_error)
    lin, sq = sl.mc_injected(a, k, c, offs)
    if len(lin) != len(offs) or len(sq) != min(2, len(offs)):
        return "{}: Monte Carlo returned {} / {} samples for {} / 2 injected offsets".format(where, len(lin), len(sq), len(offs))
    for o, smp in zip(offs, lin):
        want = Fraction(k) * (Fraction(o) * e + v) + Fraction(c)
        scale = abs(Fraction(k) * Fraction(o) * e) + abs(Fraction(k) * v) + abs(Fraction(c))
        if not sl.finite(smp) or abs(fr(smp) - want) > Fraction(1, 10 ** 12) * scale:
            return ("{}: Monte Carlo sample of {}*a+{} for the offset {} is {}, but value + offset * uncertainty in use "
                    "({} + {} * {}) gives {}".format(where, k, c, o, smp, fx(want_value), o, fx(want_error), float(want)))
    for o, smp in zip(offs, sq):
        want = (Fraction(o) * e + v) ** 2
        scale = (abs(Fraction(o) * e) + abs(v)) ** 2
        if not sl.finite(smp) or abs(fr(smp) - want) > Fraction(1, 10 ** 12) * scale:
            return ("{}: Monte Carlo sample of a*a for the offset {} is {}, but value + offset * uncertainty in use "
                    "({} + {} * {}) gives {}".format(where, o, smp, fx(want_value), o, fx(want_error), float(want)))
    resolvable = abs(k) * fx(want_error) > 1e-6 * (abs(k * fx(want_value)) + abs(c))      # else offset * error is lost in rounding
    if seed is not None and fx(want_error) > 0 and resolvable:
        import numpy as np
        state = np.random.get_state()
        np.random.seed(seed)
        try:
            mv, me, _ = sl.mc_propagate(k * a + c, MC_N)
        finally:
            np.random.set_state(state)
        sigma = abs(k) * fx(want_error)
        if abs(me - sigma) > 6 * sigma / math.sqrt(2 * MC_N):
            return "{}: Monte Carlo error of {}*a+{} over {} samples is {}, the uncertainty in use gives {}".format(
                where, k, c, MC_N, me, sigma)
        if abs(mv - (k * fx(want_value) + c)) > 6 * sigma / math.sqrt(MC_N):
            return "{}: Monte Carlo value of {}*a+{} over {} samples is {}, the value in use gives {}".format(
                where, k, c, MC_N, mv, k * fx(want_value) + c)
    return None


def check_rmv_oracle(case):
    """None, or how the object contradicts the textbook definitions"""
    import qexpy as q
    xs = [fr(h) for h in case["xs"]]
    ss = errs_list(case)
    n = len(xs)
    m, v = sl.mean(xs), sl.var(xs)
    valid = all(s > 0 for s in ss)
    matol = Fraction(1, 10 ** 12) * sum((abs(x) for x in xs), Fraction(0)) / n      # mean-like numbers may cancel to ~0
    q.set_error_method("derivative")
    a, keep = build_rmv(case)                       # noqa: F841
    k, c = fx(case["k"]), fx(case["c"])

    def stats(where):
        o = read(a)
        if o["types"]:
            return None, "{}: a statistic is not a float: {}".format(where, o["types"])
        if [fr(h) for h in o["raw"]] != xs:
            return None, "{}: raw_data differs from the readings".format(where)
        for key in ("mean", "std", "eom", "value", "error"):
            if o[key] in (None, "inf"):
                return None, "{}: {} is not finite".format(where, key)
        if not sl.close(fr(o["mean"]), m, 1e-9, matol):
            return None, "{}: mean {} is not sum/n = {}".format(where, fx(o["mean"]), float(m))
        if not sl.sqrt_close(fx(o["std"]), v):
            return None, "{}: std {} is not sqrt(sum (x-mean)^2/(n-1)) = {}".format(where, fx(o["std"]), math.sqrt(v))
        if not sl.sqrt_close(fx(o["eom"]), v / n):
            return None, "{}: error_on_mean {} is not std/sqrt(n) = {}".format(where, fx(o["eom"]), math.sqrt(v / n))
        if valid:
            if o["wmean"] in (None, "inf") or not sl.close(fr(o["wmean"]), sl.wmean(xs, ss), 1e-9, matol):
                return None, "{}: error_weighted_mean {} is not sum(x/s^2)/sum(1/s^2) = {}".format(
                    where, o["wmean"] and fx(o["wmean"]), float(sl.wmean(xs, ss)))
            if o["perr"] in (None, "inf") or not sl.sqrt_close(fx(o["perr"]), sl.perr_sq(ss)):
                return None, "{}: propagated_error {} is not 1/sqrt(sum 1/s^2) = {}".format(
                    where, o["perr"] and fx(o["perr"]), math.sqrt(sl.perr_sq(ss)))
        elif o["wmean"] is not None or o["perr"] is not None:
            return None, "{}: weighted statistics {} / {} reported although an uncertainty is 0".format(
                where, o["wmean"], o["perr"])
        return o, None

    o, why = stats("fresh object")
    if why:
        return why
    if o["value"] != o["mean"] or o["error"] != o["eom"]:
        return "fresh object: value / error {} / {} are not mean / error on the mean {} / {}".format(
            fx(o["value"]), fx(o["error"]), fx(o["mean"]), fx(o["eom"]))
    want_value, want_error = o["mean"], o["eom"]
    offs = case_offsets(case)
    seed = case.get("mc_seed")
    why = mc_oracle(a, k, c, offs, want_value, want_error, "fresh object", seed if not case["sels"] else None)
    if why:
        return why
    for i, s in enumerate(case["sels"]):
        where = "after selector {} ({})".format(i, SEL_METHOD[s])
        with warnings.catch_warnings():
            warnings.simplefilter("ignore")
            getattr(a, SEL_METHOD[s])()
        o, why = stats(where)
        if why:
            return why
        if s == "std":
            want_error = o["std"]
        elif s == "eom":
            want_error = o["eom"]
        elif s == "ewm" and valid:
            want_value = o["wmean"]
        elif s == "perr" and valid:
            want_error = o["perr"]
        if o["value"] != want_value or o["error"] != want_error:
            return "{}: value / error read {} / {}, the selected statistics are {} / {}".format(
                where, fx(o["value"]), fx(o["error"]), fx(want_value), fx(want_error))
        # every later propagation uses exactly those numbers
        d = k * a + c
        if not sl.close(fr(float(d.value)), Fraction(k) * fr(want_value) + Fraction(c), 1e-12,
                        Fraction(1, 10 ** 12) * (abs(Fraction(k) * fr(want_value)) + abs(Fraction(c)))) or \
                not sl.close(fr(float(d.error)), abs(Fraction(k)) * fr(want_error), 1e-12):
            return "{}: {}*a+{} = {} +/- {}, expected {} +/- {}".format(
                where, k, c, float(d.value), float(d.error), k * fx(want_value) + c, abs(k) * fx(want_error))
        eb = 0.75 * fx(want_error)                  # a second source of comparable size (the check is scale-free)
        b = q.Measurement(1.5, eb)
        t = a + b
        if not sl.close(fr(float(t.error)) ** 2, fr(want_error) ** 2 + fr(eb) ** 2, 1e-12):
            return "{}: (a+b).error = {}, expected sqrt({}^2 + {}^2)".format(where, float(t.error), fx(want_error), eb)
        why = mc_oracle(a, k, c, offs, want_value, want_error, where, seed if i == len(case["sels"]) - 1 else None)
        if why:
            return why
    return None


def check_pair_oracle(case):
    xs, ys = [fr(h) for h in case["xs"]], [fr(h) for h in case["ys"]]
    out = run_pair(case)
    if len(xs) != len(ys):
        return None if out[0] == "rejected" else "arrays of different lengths: the request was accepted"
    vx, vy = sl.var(xs), sl.var(ys)
    if vx == 0 or vy == 0:
        return None if out[0] == "rejected" else "an array without spread: the request was accepted"
    if out[0] == "rejected":
        return "equal-length plain reading arrays with non-zero spread: the request was rejected with {}".format(out[1])
    if None in out[1:] or "inf" in out[1:]:
        return "covariance / correlation read is not finite: {}".format(out[1:])
    cov, corr = fr(out[1]), fr(out[2])
    if out[1] != out[3] or out[2] != out[4]:
        return "reads of (a, b) and (b, a) differ"
    cv = sl.cov(xs, ys)
    scale2 = vx * vy
    if not sl.close(cov, cv) and (cov - cv) ** 2 > Fraction(1, 10 ** 18) * scale2:
        return "covariance {} is not the sample covariance {}".format(float(cov), float(cv))
    if abs(corr) > 1:
        return "correlation {} lies outside [-1, 1]".format(float(corr))
    if not sl.close(corr ** 2 * scale2, cv ** 2, 4e-9, Fraction(1, 10 ** 18) * scale2):
        return "correlation {} is not covariance / (std x * std y) = {}".format(float(corr), float(cv) / math.sqrt(scale2))
    if cv ** 2 == scale2:               # exactly collinear
        want = 1 if cv > 0 else -1
        if float(corr) * want < ULP4:
            return "exactly collinear arrays: correlation {} is not {}".format(float(corr), want)
        if "k" in case and (fx(case["k"]) > 0) != (want > 0):
            return "collinear arrays with slope sign {}: correlation {}".format(fx(case["k"]), float(corr))
    return check_corrprop_oracle(case)


def check_corrprop_oracle(case):
    """two correlated repeated measurements, a non-default uncertainty selected on either, then first-order
    propagation through both: var = da^2 ua^2 + db^2 ub^2 + 2 da db corr ua ub with the uncertainties IN USE"""
    import qexpy as q
    q.reset_correlations()
    q.set_error_method("derivative")
    try:
        with warnings.catch_warnings():
            warnings.simplefilter("ignore")
            a, b = build_pair(case)
            if a.std == 0 or b.std == 0:
                return None
            if case.get("declared") is not None or len(case["xs"]) != len(case["ys"]):
                q.set_correlation(a, b, fx(case.get("declared") or hx(0.5)))
            elif case["setter"] == "set_cov":
                a.set_covariance(b)
            else:
                q.set_correlation(b, a)
            for s in case.get("sel_a", []):
                getattr(a, SEL_METHOD[s])()
            for s in case.get("sel_b", []):
                getattr(b, SEL_METHOD[s])()
            corr = fr(float(q.get_correlation(a, b)))
            ua, ub, va, vb = fr(float(a.error)), fr(float(b.error)), fr(float(a.value)), fr(float(b.value))
            forms = [("a - b", lambda: a - b, Fraction(1), Fraction(-1)), ("2*a + b", lambda: 2 * a + b, Fraction(2), Fraction(1))]
            if vb != 0 and abs(va) < 10 ** 6 * abs(vb):
                forms.append(("a / b", lambda: a / b, 1 / vb, -va / vb ** 2))
            for name, f, da, db in forms:
                quad = da ** 2 * ua ** 2 + db ** 2 * ub ** 2
                want = quad + 2 * da * db * corr * ua * ub
                atol = Fraction(1, 10 ** 9) * quad
                try:
                    got = fr(float(f().error)) ** 2
                except Exception as e:  # noqa
                    if want > atol:
                        return "{} of two correlated measurements: propagation raised {}".format(name, type(e).__name__)
                    continue
                if not sl.close(got, want, 2e-9, atol):
                    return ("({}).error = {} with correlation {} and uncertainties in use {} / {} (selectors {} / {}); "
                            "da^2 ua^2 + db^2 ub^2 + 2 da db corr ua ub gives {}".format(
                                name, math.sqrt(got), float(corr), float(ua), float(ub), case.get("sel_a", []),
                                case.get("sel_b", []), math.sqrt(max(want, 0))))
    finally:
        q.reset_correlations()
    return None


def check_ctor_oracle(case):
    n, errs = len(case["xs"]), [fx(h) for h in case["errs"]]
    out = run_ctor(case)
    good = len(errs) == n and all(e >= 0 for e in errs)
    if good and out != "ok":
        return "one non-negative uncertainty per reading: construction failed with " + out
    if not good and out == "ok":
        return "uncertainties {} for {} readings were accepted".format(errs, n)
    if not good and out != "ValueError":
        return "malformed uncertainties ended in {} instead of ValueError".format(out)
    return None


def load_corpus():
    d = os.path.join(core.VERIF, "corpus", ID)
    out = []
    if os.path.isdir(d):
        for f in sorted(os.listdir(d)):
            if f.endswith(".json"):
                out.append(json.load(open(os.path.join(d, f))))
    return out


def shrink_rmv(case):
    def fails(c):
        return check_rmv_oracle(c) is not None
    cur = dict(case)
    for key in ("before", "prop_first", "etype", "aliasing"):
        if key in cur:
            cand = {k_: v for k_, v in cur.items() if k_ != key}
            if fails(cand):
                cur = cand
    sels = shrink_list(cur["sels"], lambda s: fails(dict(cur, sels=s)))
    cur["sels"] = sels
    idx = list(range(len(cur["xs"])))

    def sub(ix):
        if len(ix) < 2:
            return None
        c = dict(cur, xs=[cur["xs"][i] for i in ix])
        if isinstance(cur["errs"], list):
            c["errs"] = [cur["errs"][i] for i in ix]
        if cur.get("before") and isinstance(cur["before"]["errs"], list):
            c["before"] = dict(cur["before"], errs=[cur["before"]["errs"][i] for i in ix])
        return c
    keep = shrink_list(idx, lambda ix: sub(ix) is not None and fails(sub(ix)))
    return sub(keep) or cur


def shrink_pair(case):
    if len(case["xs"]) != len(case["ys"]):
        return case
    idx = list(range(len(case["xs"])))

    def sub(ix):
        return dict(case, xs=[case["xs"][i] for i in ix], ys=[case["ys"][i] for i in ix])
    keep = shrink_list(idx, lambda ix: len(ix) >= 2 and check_pair_oracle(sub(ix)) is not None)
    return sub(keep)


def search(ctx, suspects, budget):
    t0 = time.time()
    out = []
    todo = [(s.get("kind"), s["case"]) for s in suspects if s.get("case") and s.get("kind") in ("rmv", "pair")]
    todo += [(c["kind"], c["case"]) for c in load_corpus()]
    rng = ctx.rng
    n = 0
    while len(out) < 4:
        if todo:
            kind, case = todo.pop(0)
        elif time.time() - t0 > budget or n > ctx.n(4000, 60000):
            break
        else:
            kind = rng.choice(["rmv", "pair"])
            case = gen_rmv(rng) if kind == "rmv" else gen_pair(rng)
        n += 1
        why = check_rmv_oracle(case) if kind == "rmv" else check_pair_oracle(case)
        if why:
            small = shrink_rmv(case) if kind == "rmv" else shrink_pair(case)
            why = (check_rmv_oracle(small) if kind == "rmv" else check_pair_oracle(small)) or why
            v = Violation(ID, kind, small, why)
            if all(v.key != o.key for o in out) and sum(1 for o in out if o.kind == kind) < 2:
                out.append(v)
            elif sum(1 for o in out if o.kind == kind) >= 2 and not todo:
                # enough of this kind: look for the other kind only
                kind2 = "pair" if kind == "rmv" else "rmv"
                for _ in range(300):
                    case = gen_rmv(rng) if kind2 == "rmv" else gen_pair(rng)
                    why = check_rmv_oracle(case) if kind2 == "rmv" else check_pair_oracle(case)
                    if why:
                        small = shrink_rmv(case) if kind2 == "rmv" else shrink_pair(case)
                        why = (check_rmv_oracle(small) if kind2 == "rmv" else check_pair_oracle(small)) or why
                        out.append(Violation(ID, kind2, small, why))
                        break
                break
    for case in [c for k, c in [(s_.get("kind"), s_.get("case")) for s_ in suspects] if k == "ctor" and c] + \
            [gen_ctor(rng) for _ in range(ctx.n(60, 600))]:
        why = check_ctor_oracle(case)
        if why:
            out.append(Violation(ID, "ctor", case, why))
            break
    ctx.notes.append("oracle: {} cases against the Fraction reference".format(n))
    return out


def replay(ctx, v):
    if v["kind"] == "ctor":
        why = check_ctor_oracle(v["case"])
        return Violation(ID, v["kind"], v["case"], why) if why else None
    why = check_rmv_oracle(v["case"]) if v["kind"] == "rmv" else check_pair_oracle(v["case"])
    return Violation(ID, v["kind"], v["case"], why) if why else None
