"""C11 -- array arithmetic is element-wise scalar arithmetic."""
import json
import math
import numbers
import os
import time
import warnings
from fractions import Fraction

from vlib import core, coq
from vlib.core import CorrResult, Violation
from vlib.coqfmt import qlit, coq_list, coq_option, natlit, coq_bool, Interner

ID = "C11"
MANIFEST = {
    "technique": "Rocq proof about a dispatch model whose overload tables (ExperimentalValue and ExperimentalValueArray "
                 "special methods, math-function table, utils.vectorize rules) are regenerated from the source on every "
                 "run + vm_compute correspondence of the symbolic Formula tree of every result element over the "
                 "exhaustive operator x order x operand-kind x function grid + scalar-through-the-public-API oracle",
    "level_text": "Machine-checked theorems (C11_binop, C11_binop_formula, C11_overload_sound, C11_scalar_protocol, C11_neg, "
                  "C11_fn, C11_fn_container, C11_degrees, C11_log2, C11_log_args, closed under the global context): for every "
                  "operator, both operand orders and every operand kind the i-th element of the array result is the scalar "
                  "operation on the i-th operands, which is Formula(op, [left, right]) in source order; proved by case "
                  "analysis over tables that tools/gens/overloads_gen.py translates from data.py / datasets.py / "
                  "operations.py / utils.py each run (a swapped operand order, a wrong deferral or delegation target, a "
                  "changed math-function body breaks a proof or the translation). The model's Formula trees are compared "
                  "with the trees of the implementation's result elements on the whole grid, and an oracle compares value, "
                  "uncertainty and unit with the scalar operation applied through the public API to fresh copies.",
    "level_note": "PARTIAL BY DESIGN: the theorems are about the dispatch model. That numpy applies the element's special "
                  "method per element of an object array with scalar broadcasting (nd_call), that np.vectorize calls the "
                  "function per element and returns a MeasurementArray for a MeasurementArray argument, and Python's binary "
                  "operator protocol (NotImplemented fallback, subclass priority) are modelled by hand and validated by the "
                  "correspondence run only. That a scalar Formula has the right value/uncertainty/unit is C01/C08. Trusted: "
                  "Coq kernel, the translator's shape recognition.",
    "design_ref": "DESIGN.md section 4 C11",
}
GEN = ["OverloadsGen"]
PROPS_FILE = "Props/C11.v"
MODEL_TARGETS = ["Model/ArrayOpsCases.v"]
EXTRA_TARGETS = ["Model/ArrayOpsCases.v"]
TRUSTED = [
    "Model/ArrayOps.v: hand-written Python operator protocol (py_binop, arr_binop) and numpy object-array broadcasting "
    "(nd_call), np.vectorize container rule (container_of) -- oracles validated by correspondence",
    "tools/gens/overloads_gen.py: shape recognition of the special methods, math functions, _execute, "
    "wrap_in_experimental_value and vectorize (anything else fails closed)",
]
ASSUMPTIONS = [
    "operands: a number, a single quantity (Measurement from one number, from repeated readings, or calculated), a list / ndarray of numbers, another MeasurementArray of the same length "
    "(length-1 broadcasting against longer operands is outside the property)",
    "element values inside the operators' domains (positive bases for **, arguments of log/sqrt positive, |x| < 1 for "
    "asin/acos); derivative error method (the default)",
    "mean / sum / std are aggregates (property C17), not element-wise functions",
]

BINOPS = {"+": "BAdd", "-": "BSub", "*": "BMul", "/": "BDiv", "**": "BPow"}
OPLIT = {"neg": "NEG", "add": "ADD", "sub": "SUB", "mul": "MUL", "div": "DIV", "sqrt": "SQRT", "sin": "SIN",
         "cos": "COS", "tan": "TAN", "sec": "SEC", "csc": "CSC", "cot": "COT", "pow": "POW", "exp": "EXP",
         "log": "LOG", "log10": "LOG10", "ln": "LN", "asin": "ASIN", "acos": "ACOS", "atan": "ATAN"}
FNAMES = ["sqrt", "exp", "sin", "sind", "cos", "cosd", "tan", "tand", "sec", "secd", "csc", "cscd", "cot", "cotd",
          "asin", "acos", "atan", "log", "log10"]
UNITS = ["", "", "m", "s", "kg*m/s^2"]


def _q():
    import qexpy as q
    return q


def reset_globals():
    q = _q()
    q.reset_correlations()
    q.clear_unit_definitions()
    q.reset_default_configuration()
    import qexpy.data.data as dt
    dt.ExperimentalValue._register.clear()


def apply_op(op, l, r):
    if op == "+":
        return l + r
    if op == "-":
        return l - r
    if op == "*":
        return l * r
    if op == "/":
        return l / r
    if op == "**":
        return l ** r
    raise ValueError(op)


# ---- building operands ---------------------------------------------------------------------------
def build_arr(spec):
    q = _q()
    kw = {}
    if spec.get("unit"):
        kw["unit"] = spec["unit"]
    if spec.get("name"):
        kw["name"] = spec["name"]
    return q.MeasurementArray(list(spec["values"]), list(spec["errors"]), **kw)


def typed(x, t):
    """the number x as a numpy scalar of type t, a Fraction or a bool (all numbers.Real)"""
    import numpy as np
    if t == "Fraction":
        return Fraction(x)
    if t == "bool":
        return bool(x)
    return getattr(np, t)(x)


def build_operand(o):
    import numpy as np
    q = _q()
    t = o[0]
    if t == "num":
        return o[1]
    if t == "npnum":
        return typed(o[1], o[2] if len(o) > 2 else "float64")
    if t == "meas":
        return q.Measurement(o[1], o[2], unit=o[3]) if o[3] else q.Measurement(o[1], o[2])
    if t in ("rmeas", "derived"):
        return build_single(o)
    if t == "list":
        return list(o[1])
    if t == "nd":
        return np.array([float(x) for x in o[1]]) if len(o) < 3 else np.array(o[1], dtype=o[2])
    if t == "arr":
        return build_arr(o[1])
    raise ValueError(o)


def build_single(o):
    """a single quantity that is not a plain MeasuredValue:
         ["rmeas", readings, errors or None, unit]  one measurement recorded from repeated readings
         ["derived", v1, e1, v2, e2, unit]          a calculated quantity (v1 +/- e1) * (v2 +/- e2)"""
    q = _q()
    if o[0] == "rmeas":
        kw = {"unit": o[3]} if o[3] else {}
        if o[2] is None:
            return q.Measurement(list(o[1]), **kw)
        return q.Measurement(list(o[1]), list(o[2]), **kw)
    kw = {"unit": o[5]} if o[5] else {}
    return q.Measurement(o[1], o[2], **kw) * q.Measurement(o[3], o[4])


def scalar_at(o, i):
    """a FRESH scalar copy of the i-th element of an operand"""
    q = _q()
    t = o[0]
    if t == "num":
        return o[1]
    if t == "npnum":
        return typed(o[1], o[2] if len(o) > 2 else "float64")
    if t == "meas":
        return q.Measurement(o[1], o[2], unit=o[3]) if o[3] else q.Measurement(o[1], o[2])
    if t in ("rmeas", "derived"):
        return build_single(o)
    if t == "list":
        return o[1][i]
    if t == "nd":
        return float(o[1][i]) if len(o) < 3 else build_operand(o)[i]
    if t == "arr":
        s = o[1]
        return q.Measurement(s["values"][i], s["errors"][i], unit=s["unit"]) if s.get("unit") \
            else q.Measurement(s["values"][i], s["errors"][i])
    raise ValueError(o)


def operand_len(o):
    if o[0] in ("list", "nd"):
        return len(o[1])
    if o[0] == "arr":
        return len(o[1]["values"])
    return None


def read_operand(x):
    """print / evaluate an operand through the public reading paths before it is used"""
    import numpy as np
    import qexpy.data.data as dt
    if isinstance(x, dt.ExperimentalValue):
        _ = str(x), repr(x), x.value, x.error, x.relative_error, x.unit
    elif isinstance(x, np.ndarray) and x.dtype == object:
        _ = str(x), x.values, x.errors, x.unit, x.name
        for e in x:
            _ = str(e), e.value, e.error
        if len(x) >= 2:
            _ = x.mean(), x.std(), x.sum()


def run_case(case, reset=True):
    """-> (result or None, exception name or None, env: list of (object, description))"""
    if reset:
        reset_globals()
    q = _q()
    import numpy as np
    import qexpy.data.data as dt
    env = []

    def reg_arr(a, k):
        for i, x in enumerate(a):
            env.append((x, ("elem", k, i)))

    def reg(o, obj, counters):
        if o[0] == "arr":
            reg_arr(obj, counters["arr"])
            counters["arr"] += 1
        elif o[0] in SINGLE:
            env.append((obj, ("meas", counters["meas"])))
            counters["meas"] += 1
    counters = {"arr": 0, "meas": 0}
    try:
        with warnings.catch_warnings():
            warnings.simplefilter("ignore")
            kind = case["kind"]
            if kind == "binop":
                a = build_arr(case["A"])
                reg(["arr"], a, counters)
                o = build_operand(case["other"])
                reg(case["other"], o, counters)
                if case.get("pre_read"):
                    read_operand(a), read_operand(o)
                res = apply_op(case["op"], a, o) if case["self_left"] else apply_op(case["op"], o, a)
            elif kind == "neg":
                a = build_arr(case["A"])
                reg(["arr"], a, counters)
                res = -a
            elif kind == "fn":
                x = build_operand(case["arg"])
                reg(case["arg"], x, counters)
                if case.get("pre_read"):
                    read_operand(x)
                res = getattr(q, case["f"])(x)
            elif kind == "log2":
                x = build_operand(case["a"])
                reg(case["a"], x, counters)
                y = build_operand(case["b"])
                reg(case["b"], y, counters)
                if case.get("pre_read"):
                    read_operand(x), read_operand(y)
                res = q.log(x, y)
            else:
                raise ValueError(kind)
            # the elements must be usable: reading value / error / unit evaluates the Formula
            items = list(res) if isinstance(res, (list, np.ndarray)) and getattr(res, "ndim", 1) >= 1 else [res]
            for x in items:
                if isinstance(x, dt.ExperimentalValue):
                    _ = x.value, x.error, x.unit
        return res, None, env
    except Exception as e:  # noqa
        return None, type(e).__name__, env


# ---- observation: container kind and the Formula tree of every element -----------------------------
def container_of(res):
    import numpy as np
    from qexpy.data.datasets import ExperimentalValueArray
    if isinstance(res, ExperimentalValueArray):
        return "CEva"
    if isinstance(res, np.ndarray) and res.ndim >= 1:
        return "CNd"
    if isinstance(res, list):
        return "CList"
    return "CScalar"


def describe(x, env, depth=0):
    import qexpy.data.data as dt
    for obj, d in env:
        if x is obj:
            return d
    if isinstance(x, dt.Constant):
        return ("const", Fraction(x.value))
    if isinstance(x, dt.DerivedValue) and depth < 8:
        f = x._formula
        return ("formula", f.operator, [describe(o, env, depth + 1) for o in f.operands])
    if isinstance(x, numbers.Real) and not isinstance(x, dt.ExperimentalValue):
        return ("plain",)
    return ("unknown", type(x).__name__)


def observe(res, env):
    cont = container_of(res)
    items = list(res) if cont != "CScalar" else [res]
    return cont, [describe(x, env) for x in items]


# ---- Coq encoding ----------------------------------------------------------------------------------
def c_desc(d):
    t = d[0]
    if t == "elem":
        return "(VElem {} {})".format(natlit(d[1]), natlit(d[2]))
    if t == "meas":
        return "(VMeas {})".format(natlit(d[1]))
    if t == "const":
        return "(VConst (NLit {}))".format(qlit(d[1]))
    if t == "plain":
        return "(VNum (NLit 0))"
    if t == "formula":
        if d[1] not in OPLIT:
            return "VErr"
        args = [c_desc(a) for a in d[2]]
        if len(args) == 1:
            return "(VF1 {} {})".format(OPLIT[d[1]], args[0])
        if len(args) == 2:
            return "(VF2 {} {} {})".format(OPLIT[d[1]], args[0], args[1])
    return "VErr"


def c_operand(o, counters):
    t = o[0]
    if t in ("num", "npnum"):      # a numpy scalar reaches the same element-level calls as a Python number
        return "(KNum {})".format(qlit(Fraction(o[1])))
    if t in SINGLE:         # one quantity, however it was recorded or calculated
        counters["meas"] += 1
        return "(KMeas {})".format(natlit(counters["meas"] - 1))
    if t == "list":
        return "(KList {})".format(coq_list([qlit(Fraction(x)) for x in o[1]]))
    if t == "nd":
        return "(KNd {})".format(coq_list([qlit(Fraction(float(x))) for x in o[1]]))
    counters["arr"] += 1
    return "(KArr {} {})".format(natlit(counters["arr"] - 1), natlit(len(o[1]["values"])))


def c_case(case):
    counters = {"arr": 0, "meas": 0}
    k = case["kind"]
    if k == "binop":
        counters["arr"] = 1
        return "(CBin {} {} {} {})".format(BINOPS[case["op"]], coq_bool(case["self_left"]),
                                           natlit(len(case["A"]["values"])), c_operand(case["other"], counters))
    if k == "neg":
        return "(CNeg {})".format(natlit(len(case["A"]["values"])))
    if k == "fn":
        return "(CFn F_{} {})".format(case["f"], c_operand(case["arg"], counters))
    a = c_operand(case["a"], counters)
    b = c_operand(case["b"], counters)
    return "(CLog2 {} {})".format(a, b)


HEADER = ("From Coq Require Import List ZArith QArith Bool.\nImport ListNotations.\n"
          "From QV Require Import Base.CaseLib Model.OverloadVocab Gen.OverloadsGen Model.ArrayOps Model.ArrayOpsCases.\n")


# ---- generators -------------------------------------------------------------------------------------
def dyadic(rng, lo, hi, den=16):
    return rng.randrange(int(lo * den), int(hi * den) + 1) / den


def gen_val(rng, dom):
    """dom: 'unit' -> (1/8 .. 7/8); 'pos' -> (1/4 .. 6); 'any' -> +-(1/4 .. 6)"""
    if dom == "unit":
        return dyadic(rng, 0.125, 0.875)
    v = dyadic(rng, 0.25, 6)
    if dom == "any" and rng.random() < 0.4:
        v = -v
    if rng.random() < 0.2 and float(v).is_integer():
        return int(v)
    return v


def gen_err(rng):
    return rng.choice([0.0625, 0.125, 0.25, 0.5, 0.03125])


def gen_arr(rng, n, dom, unit=None):
    return {"values": [gen_val(rng, dom) for _ in range(n)], "errors": [gen_err(rng) for _ in range(n)],
            "unit": rng.choice(UNITS) if unit is None else unit, "name": rng.choice(["", "a"])}


def gen_operand(rng, kind, n, dom):
    if kind in SINGLE_KINDS:
        return gen_single(rng, kind, n, dom)
    if kind == "num":
        return ["num", gen_val(rng, dom)]
    if kind == "npnum":
        return ["npnum", float(gen_val(rng, dom))]
    if kind == "meas":
        return ["meas", gen_val(rng, dom), gen_err(rng), rng.choice(UNITS)]
    if kind == "list":
        return ["list", [gen_val(rng, dom) for _ in range(n)]]
    if kind == "nd":
        return ["nd", [float(gen_val(rng, dom)) for _ in range(n)]]
    return ["arr", gen_arr(rng, n, dom)]


def gen_single(rng, kind, n, dom):
    """kind = rmeas:<eq|ne>:<plain|err> | derived ; n = length of the array it meets"""
    if kind == "derived":
        a = gen_val(rng, "unit") if dom == "unit" else gen_val(rng, "pos")
        b = dyadic(rng, 0.5, 1) if dom == "unit" else dyadic(rng, 0.5, 2)
        return ["derived", a, gen_err(rng), b, gen_err(rng) / 4, rng.choice(UNITS)]
    _, count, errs = kind.split(":")
    if count == "eq" and n >= 2:
        k = n
    else:
        k = rng.choice([c for c in (2, 3, 4, 6) if c != n])
    while True:
        readings = [float(gen_val(rng, "unit" if dom == "unit" else "pos")) for _ in range(k)]
        if len(set(readings)) > 1:
            break
    return ["rmeas", readings, [gen_err(rng) for _ in range(k)] if errs == "err" else None, rng.choice(UNITS)]


SINGLE = ("meas", "rmeas", "derived")
SINGLE_KINDS = ["rmeas:eq:plain", "rmeas:eq:err", "rmeas:ne:plain", "rmeas:ne:err", "derived"]
KINDS = ["num", "meas", "list", "nd", "arr"]


def grid(rng, draws):
    """the exhaustive grid of DESIGN C11, [draws] content draws per cell"""
    cases = []
    for _ in range(draws):
        for n in (1, 2, 5):
            for op in BINOPS:
                dom = "pos" if op == "**" else "any"
                for sl in (True, False):
                    for kind in KINDS + ["npnum"] + SINGLE_KINDS:
                        other = gen_operand(rng, kind, n, "pos" if op in ("**", "/") else dom)
                        cases.append({"kind": "binop", "op": op, "self_left": sl,
                                      "A": gen_arr(rng, n, "pos" if op in ("**", "/") else dom), "other": other})
            cases.append({"kind": "neg", "A": gen_arr(rng, n, "any")})
            for f in FNAMES:
                for kind in KINDS + (["rmeas:ne:plain", "derived"] if n == 2 else []):
                    cases.append({"kind": "fn", "f": f, "arg": gen_operand(rng, kind, n, "unit")})
            for ka in KINDS + SINGLE_KINDS:
                for kb in KINDS + SINGLE_KINDS:
                    if ka in SINGLE_KINDS and kb in SINGLE_KINDS and n != 2:
                        continue          # two scalars: no array involved, once is enough
                    cases.append({"kind": "log2", "a": gen_operand(rng, ka, n, "unit"),
                                  "b": gen_operand(rng, kb, n, "unit")})
        cases += special_values(rng)
        cases += audit_cases(rng)
    return cases


def special_operand(rng, form, t, n):
    """a single operand whose central value is EXACTLY t (0 or 1); measurements carry a non-zero uncertainty"""
    if form == "num":
        return ["num", rng.choice([t, float(t)])]
    if form == "npnum":
        return ["npnum", float(t)]
    if form == "meas":
        return ["meas", rng.choice([t, float(t)]), gen_err(rng), rng.choice(UNITS)]
    if form == "derived":       # (t +/- e1) * (v2 +/- e2): the value is t * v2
        return ["derived", t, gen_err(rng), 1 if t else gen_val(rng, "pos"), gen_err(rng) / 4, rng.choice(UNITS)]
    count, errs = form.split(":")[1:]
    k = n if (count == "eq" and n >= 2) else rng.choice([c for c in (2, 3, 4) if c != n])
    half = (k - 1) / 2
    readings = [float(t + (i - half)) for i in range(k)]        # symmetric about t: the mean is exactly t
    return ["rmeas", readings, [gen_err(rng) for _ in range(k)] if errs == "err" else None, rng.choice(UNITS)]


SPECIAL_FORMS = ["num", "npnum", "meas", "derived", "rmeas:eq:plain", "rmeas:ne:err"]


def special_values(rng):
    """operands with central value exactly 0 or 1 (where shortcuts like "x + 0 is x", "1 * x is x" would bite),
    on the left and on the right of every operator where that is inside the operator's domain; also arrays that
    contain elements with value 0 and 1; log(A, 1-valued operand)"""
    cases = []
    for n in (1, 2, 5):
        for op in BINOPS:
            for sl in (True, False):
                for t in (0, 1):
                    if t == 0 and op == "/" and sl:
                        continue            # A / 0
                    if t == 0 and op == "**" and not sl:
                        continue            # 0 ** A: the uncertainty involves log(0)
                    for form in SPECIAL_FORMS:
                        a_dom = "pos" if op in ("**", "/") else "any"
                        cases.append({"kind": "binop", "op": op, "self_left": sl, "A": gen_arr(rng, n, a_dom),
                                      "other": special_operand(rng, form, t, n)})
        # the array itself holds the values 0 and 1
        for op in ("+", "-", "*"):
            for sl in (True, False):
                for kind in ("num", "meas", "arr", "list"):
                    A = gen_arr(rng, n, "any")
                    A["values"] = [(0, 1, 0.0, 1.0, 0)[i % 5] for i in range(n)]
                    cases.append({"kind": "binop", "op": op, "self_left": sl, "A": A,
                                  "other": gen_operand(rng, kind, n, "any")})
        for form in SPECIAL_FORMS:
            cases.append({"kind": "log2", "a": ["arr", gen_arr(rng, n, "unit")], "b": special_operand(rng, form, 1, n)})
    return cases


# a Fraction is NOT used as the bare argument of a math function: q.sqrt(Fraction(5, 2)) raises TypeError in numpy's
# ufunc, for the scalar and the vectorised call alike -- the results of functions on bare numbers are numpy's business,
# not a claim of this property.  Fractions ARE used as number operands of arithmetic with arrays (converted since
# b92b85e).  A bool as an argument of the vectorised two-argument log works since fix c7c6bdb.
TYPES = ["int64", "int32", "int8", "uint8", "float32", "float16", "Fraction", "bool"]


def audit_cases(rng):
    """dimensions that independently seeded changes needed: equal central values in distinct objects, scale,
    special values and boundaries, number types, operands that were read before, (oracle only) a second operation on
    an evaluated result and augmented assignment"""
    cases = []

    def add(tag, **kw):
        kw["tag"] = tag
        cases.append(kw)

    # 1. EQUAL central values (and names) in distinct objects
    for n in (2, 5):
        for op in BINOPS:
            for sl in (True, False):
                v = gen_val(rng, "pos")
                A = gen_arr(rng, n, "pos")
                A["values"] = [v if i % 2 == 0 else A["values"][i] for i in range(n)]
                A["name"] = "a"
                twin = dict(A, errors=[gen_err(rng) for _ in range(n)])
                for other in (["arr", twin], ["arr", dict(A)], ["meas", v, gen_err(rng), A["unit"]], ["list", list(A["values"])],
                              ["nd", [float(x) for x in A["values"]]], ["num", v],
                              ["rmeas", [float(v) - 0.5, float(v) + 0.5], None, A["unit"]],
                              ["derived", v, gen_err(rng), 1, gen_err(rng) / 4, A["unit"]]):
                    add("equal", kind="binop", op=op, self_left=sl, A=dict(A), other=other)
        A = gen_arr(rng, n, "unit")
        add("equal", kind="log2", a=["arr", dict(A)], b=["arr", dict(A, errors=[gen_err(rng) for _ in range(n)])])
        add("equal", kind="log2", a=["arr", dict(A)], b=["meas", A["values"][0], gen_err(rng), ""])
    # 2. SCALE: data and uncertainties around 1e-9, 1e-12, 1e9; one tiny uncertainty among ordinary ones
    for f in (2.0 ** -30, 2.0 ** -40, 2.0 ** 30):
        def sc(x):
            return float(x) * f
        for n in (2, 5):
            for op in ("+", "-", "*", "/"):
                for sl in (True, False):
                    for kind in ("num", "meas", "arr", "list", "nd", "rmeas:eq:plain", "derived"):
                        A = gen_arr(rng, n, "pos")
                        A["values"], A["errors"] = [sc(x) for x in A["values"]], [sc(x) for x in A["errors"]]
                        o = gen_operand(rng, kind, n, "pos")
                        if o[0] in ("num",):
                            o = ["num", sc(o[1])]
                        elif o[0] == "meas":
                            o = ["meas", sc(o[1]), sc(o[2]), o[3]]
                        elif o[0] in ("list", "nd"):
                            o = [o[0], [sc(x) for x in o[1]]]
                        elif o[0] == "arr":
                            o = ["arr", dict(o[1], values=[sc(x) for x in o[1]["values"]], errors=[sc(x) for x in o[1]["errors"]])]
                        elif o[0] == "rmeas":
                            o = ["rmeas", [sc(x) for x in o[1]], None, o[3]]
                        else:
                            o = ["derived", sc(o[1]), sc(o[2]), o[3], o[4], o[5]]
                        add("scale", kind="binop", op=op, self_left=sl, A=A, other=o)
        if f < 1:
            for fn in ("sqrt", "exp", "sin", "sind", "cos", "tan", "tand", "asin", "atan", "log", "log10", "csc", "cot"):
                A = gen_arr(rng, 2, "unit")
                A["values"], A["errors"] = [sc(x) for x in A["values"]], [sc(x) for x in A["errors"]]
                add("scale", kind="fn", f=fn, arg=["arr", A])
                add("scale", kind="fn", f=fn, arg=["list", list(A["values"])])
    for op in BINOPS:
        A = gen_arr(rng, 5, "pos")
        A["errors"][2] = 2.0 ** -40
        add("tiny-error", kind="binop", op=op, self_left=True, A=A, other=["meas", gen_val(rng, "pos"), 2.0 ** -40, ""])
        add("tiny-error", kind="binop", op=op, self_left=False, A=dict(A), other=gen_operand(rng, "arr", 5, "pos"))
    # 5a. SPECIAL uncertainties: a single quantity that is EXACT (uncertainty 0 / 0.0) but carries a unit, arrays with
    #     exact elements, an uncertainty as large as / much larger than the value
    units = [u for u in UNITS if u]
    for n in (2, 5):
        for op in BINOPS:
            for sl in (True, False):
                v = gen_val(rng, "pos")
                others = [["meas", v, 0, rng.choice(units)], ["meas", v, 0.0, rng.choice(units)], ["meas", v, 0, ""],
                          ["rmeas", [float(v)] * 3, None, rng.choice(units)],                  # identical readings: error 0
                          ["rmeas", [float(v)] * (n if n >= 2 else 2), [0.0] * (n if n >= 2 else 2), rng.choice(units)],
                          ["derived", v, 0, 1, 0, rng.choice(units)],                          # calculated from exact values
                          ["meas", v, float(v), rng.choice(units)], ["meas", v, float(v) * 1024, rng.choice(units)],
                          ["arr", dict(gen_arr(rng, n, "pos", unit=rng.choice(units)), errors=[0] * n)]]
                for other in others:
                    add("exact", kind="binop", op=op, self_left=sl, A=gen_arr(rng, n, "pos", unit=rng.choice(units)),
                        other=other)
                A = gen_arr(rng, n, "pos", unit=rng.choice(units))
                A["errors"] = [0 if i % 2 == 0 else A["errors"][i] for i in range(n)]
                for kind in ("num", "meas", "list", "arr"):
                    add("exact", kind="binop", op=op, self_left=sl, A=dict(A), other=gen_operand(rng, kind, n, "pos"))
        for other in (["meas", 0.5, 0, "m"], ["rmeas", [0.5, 0.5], None, "s"], ["derived", 0.5, 0, 1, 0, "m"]):
            add("exact", kind="log2", a=["arr", gen_arr(rng, n, "unit", unit="m")], b=other)
            add("exact", kind="log2", a=other, b=["arr", gen_arr(rng, n, "unit", unit="m")])
    for fn in FNAMES:
        add("exact", kind="fn", f=fn, arg=["arr", dict(gen_arr(rng, 2, "unit", unit="m"), errors=[0, 0.125])])
        add("exact", kind="fn", f=fn, arg=["meas", 0.5, 0, "m"])
    # 5. SPECIAL values and boundaries
    for op in BINOPS:
        for sl in (True, False):
            for t in (-1, 2, 10, 100):
                sp = (op == "**" and not sl and t < 0) or None
                for other in (["num", t], ["num", float(t)], ["meas", t, gen_err(rng), ""]):
                    c = dict(kind="binop", op=op, self_left=sl, A=gen_arr(rng, 2, "pos"), other=other)
                    if sp:
                        c["special"] = True
                    add("special", **c)
    for fn in FNAMES:
        vals = [0, 1, -1, 2, 10, 100, 0.5]
        for v in vals:
            add("boundary", kind="fn", f=fn, arg=["num", v], special=True)
            add("boundary", kind="fn", f=fn, arg=["meas", v, 0.25, ""], special=True)
        add("boundary", kind="fn", f=fn, arg=["list", vals], special=True)
        add("boundary", kind="fn", f=fn, arg=["arr", {"values": vals, "errors": [0.25] * len(vals), "unit": "", "name": ""}],
            special=True)
    for base, x in ((2, 8), (10, 1000), (100, 10), (2, 0.5), (0.5, 4), (3, 81), (10, 0.001), (2, 1024)):
        add("exact-power", kind="log2", a=["num", base], b=["num", x])
        add("exact-power", kind="log2", a=["list", [base, base]], b=["list", [x, x]])
        add("exact-power", kind="log2", a=["nd", [float(base)] * 2], b=["num", x])
        add("exact-power", kind="log2", a=["arr", {"values": [base, base], "errors": [0.25, 0.125], "unit": "", "name": ""}],
            b=["num", x])
        add("exact-power", kind="log2", a=["num", base],
            b=["arr", {"values": [x, x], "errors": [0.25, 0.125], "unit": "", "name": ""}])
    for v in (100, 1000, 0.01, 1):
        add("exact-power", kind="fn", f="log10", arg=["list", [v, v]])
        add("exact-power", kind="fn", f="log10", arg=["arr", {"values": [v, v], "errors": [0.25, 0.5], "unit": "", "name": ""}])
    # 6. number TYPES
    for t in TYPES:
        x = 1 if t == "bool" else (3 if not t.startswith("float") and t != "Fraction" else 2.5)
        for op in BINOPS:
            for sl in (True, False):
                add("type", kind="binop", op=op, self_left=sl, A=gen_arr(rng, 2, "pos"), other=["npnum", x, t])
        if t != "Fraction":
            add("type", kind="fn", f="sqrt", arg=["npnum", x, t])
            add("type", kind="fn", f="sind", arg=["npnum", x, t])
        add("type", kind="log2", a=["npnum", 2, t] if t != "bool" else ["num", 2], b=["arr", gen_arr(rng, 2, "unit")])
        add("type", kind="log2", a=["arr", gen_arr(rng, 2, "unit")], b=["npnum", x, t])
        add("type", kind="log2", a=["npnum", x, t], b=["arr", gen_arr(rng, 2, "unit")])
    for dt_ in ("int64", "int32", "int8", "float32"):
        for op in BINOPS:
            for sl in (True, False):
                add("type", kind="binop", op=op, self_left=sl, A=gen_arr(rng, 2, "pos"), other=["nd", [2, 3], dt_])
        add("type", kind="fn", f="sqrt", arg=["nd", [4, 9], dt_])
        add("type", kind="log2", a=["nd", [2, 3], dt_], b=["arr", gen_arr(rng, 2, "unit")])
    for op in BINOPS:
        for sl in (True, False):
            add("type", kind="binop", op=op, self_left=sl, A=gen_arr(rng, 2, "pos"), other=["list", [2, 3.0]])
            add("type", kind="binop", op=op, self_left=sl, A=gen_arr(rng, 2, "pos"), other=["list", [True, 2]])
    # 4. operands that were READ (printed, evaluated, aggregated) before they are used
    for op in BINOPS:
        for sl in (True, False):
            for kind in ("meas", "arr", "rmeas:eq:plain", "rmeas:ne:err", "derived"):
                add("", kind="binop", op=op, self_left=sl, A=gen_arr(rng, 2, "pos"), other=gen_operand(rng, kind, 2, "pos"),
                    pre_read=True)
    for fn in FNAMES:
        add("", kind="fn", f=fn, arg=gen_operand(rng, "arr", 2, "unit"), pre_read=True)
        add("", kind="fn", f=fn, arg=gen_operand(rng, "derived", 2, "unit"), pre_read=True)
    for ka in ("arr", "meas", "derived"):
        for kb in ("arr", "meas", "rmeas:eq:plain"):
            add("", kind="log2", a=gen_operand(rng, ka, 2, "unit"), b=gen_operand(rng, kb, 2, "unit"), pre_read=True)
    # 3/4/8. (oracle only) the evaluated result of one operation as the operand of the next; augmented assignment
    for op in ("+", "-", "*", "/"):
        for op2 in ("+", "-", "*", "/", "**"):
            for k1 in ("num", "meas", "arr"):
                for k2 in ("num", "meas", "arr", "list"):
                    add("", kind="chain", op=op, self_left=rng.random() < 0.5, A=gen_arr(rng, 2, "pos"),
                        other=gen_operand(rng, k1, 2, "pos"), op2=op2, self_left2=rng.random() < 0.7,
                        other2=gen_operand(rng, k2, 2, "pos") if op2 != "**" else ["num", rng.choice([2, 0.5, -1])])
    for op in BINOPS:
        for kind in ("num", "npnum", "meas", "list", "nd", "arr", "rmeas:eq:plain", "derived"):
            add("", kind="iop", op=op, A=gen_arr(rng, 2, "pos"), other=gen_operand(rng, kind, 2, "pos"))
    return cases


def malformed(rng):
    """operands of a different length (never length 1, which numpy broadcasts): must be rejected"""
    cases = []
    for op in BINOPS:
        for sl in (True, False):
            for kind in ("list", "nd", "arr"):
                for n, m in ((2, 3), (5, 2), (3, 2)):
                    cases.append({"kind": "binop", "op": op, "self_left": sl, "A": gen_arr(rng, n, "pos"),
                                  "other": gen_operand(rng, kind, m, "pos")})
                    if (n, m) == (3, 2):
                        cases.append(json.loads(json.dumps(cases[-1])))      # the same invalid input offered twice
    return cases


def central(o):
    try:
        if o[0] in ("num", "npnum", "meas"):
            v = o[1]
        elif o[0] == "rmeas":
            v = sum(o[1]) / len(o[1])
        elif o[0] == "derived":
            v = o[1] * o[3]
        else:
            return ""
        return "=0" if v == 0 else "=1" if v == 1 else ""
    except Exception:  # noqa
        return ""


def okind(o):
    return okind0(o) + central(o)


def okind0(o):
    if o[0] in ("npnum", "nd") and len(o) > 2:
        return "{}:{}".format(o[0], o[2])
    if o[0] == "rmeas":
        return "rmeas" + ("+err" if o[2] is not None else "") + "[{}]".format(len(o[1]))
    return o[0]


def cell_of(case):
    return cell_of0(case) + (":read-first" if case.get("pre_read") else "") + (":" + case["tag"] if case.get("tag") else "")


def cell_of0(case):
    k = case["kind"]
    if k == "chain":
        return "chain:{}:{}:{}:{}".format(case["op"], okind(case["other"]), case["op2"], okind(case["other2"]))
    if k == "iop":
        return "inplace:{}=:{}".format(case["op"], okind(case["other"]))
    if k == "binop":
        return "binop:{}:{}:{}".format(case["op"], "A.op.x" if case["self_left"] else "x.op.A", okind(case["other"]))
    if k == "neg":
        return "neg"
    if k == "fn":
        return "fn:{}:{}".format(case["f"], okind(case["arg"]))
    return "log2:{}:{}".format(okind(case["a"]), okind(case["b"]))


# ---- correspondence ---------------------------------------------------------------------------------
def correspondence(ctx):
    res = CorrResult()
    rng = ctx.rng
    cases = [c["case"] for c in load_corpus() if c.get("kind") == "cell"]
    n_corpus = len(cases)
    cases += grid(rng, ctx.n(1, 40))
    cases += malformed(rng)
    rows = []
    skipped = 0
    for case in cases:
        if case["kind"] in ("chain", "iop"):
            continue                      # oracle-only kinds (the model has one operation per case)
        r, exn, env = run_case(case)
        if exn is not None and case.get("special"):
            skipped += 1                  # a boundary value outside the operator's domain (the scalar path fails alike)
            continue
        if exn is None:
            cont, descs = observe(r, env)
            obs = "(Some ({}, {}))".format(cont, coq_list([c_desc(d) for d in descs]))
        else:
            obs = "None"
        rows.append((case, "({}, {})".format(c_case(case), obs)))
        res.evaluations += 1
        res.traces += 1
        cell = cell_of(case)
        res.count(cell.split(":")[0] + (":raises" if exn else ":ok"))
        res.nontrivial.add(cell + ":n={}".format(len(case.get("A", {}).get("values", [])) or
                                                 operand_len(case.get("arg", case.get("a", ["x"]))) or 1)
                           + (":raises" if exn else ""))
    res.rule = ("the exhaustive grid: 5 binary operators x both operand orders x 11 operand kinds (number, numpy scalar, Measurement, "
                "a measurement recorded from repeated readings -- as many readings as array elements / a different number, "
                "with / without individual reading uncertainties --, a calculated quantity, list, "
                "ndarray, MeasurementArray) + unary minus + 19 vectorised math functions x 5 argument kinds + two-argument "
                "log over 10 x 10 argument kinds (both positions), each for lengths 1, 2, 5 with random dyadic contents inside the domains "
                "(thorough: 40 content draws), plus single operands whose central value is exactly 0 or 1 (numbers, numpy scalars, measurements with non-zero uncertainty, repeated, calculated) on both sides of every operator where inside its domain, arrays holding the values 0 and 1, log(A, 1); plus the audit dimensions: equal central values and names in distinct objects, data and uncertainties scaled by 2^-40 / 2^-30 / 2^30, one tiny uncertainty, exact single quantities (uncertainty 0) that carry a unit, arrays with exact elements, uncertainties as large as the value, special values -1 / 2 / 10 / 100, boundary arguments of every function, exact powers for log, numbers of every numpy width / Fraction / bool, typed ndarrays, operands read before use; plus operands of mismatched length (must raise, also twice). Observed: the container "
                "kind and, for every element of the result, its Formula tree (operator literal, operand identities: i-th "
                "element object of which array / the measurement / Constant with which value / plain number), compared "
                "with the dispatch model. non-trivial = distinct (cell, length) pairs covered")
    res.samples = [{"case": c, "cell": cell_of(c)} for c in (cases[n_corpus + 3], cases[n_corpus + 57], cases[-1])]
    res.exhaustive = True
    shards, index = [], []
    per = 400
    for k in range(0, len(rows), per):
        chunk = rows[k:k + per]
        text = HEADER + "Definition cases : list (ccase * option (cont * list sval)) := {}.\nEval vm_compute in (bad_indices check_case cases).\n".format(
            coq_list([r[1] for r in chunk]))
        shards.append(text)
        index.append(k)
    bads, logs = coq.run_case_files(ID, shards, keep=getattr(ctx, "keep_cases", False))
    for base, bad, log in zip(index, bads, logs):
        if bad is None:
            res.disagreements.append({"name": "case file did not evaluate (shard at {}): {}".format(
                base, log.strip().split("\n")[-1][:200]), "kind": "shard", "case": None})
            continue
        for i in bad[0]:
            case = rows[base + i][0]
            res.disagreements.append({"name": "Model.ArrayOps dispatch vs implementation ({})".format(cell_of(case)),
                                      "kind": "cell", "case": case})
    reset_globals()
    return res


# ---- the property-level oracle: the scalar operation through the public API on fresh copies --------
MATH_REF = {
    "sqrt": math.sqrt, "exp": math.exp, "sin": math.sin, "cos": math.cos, "tan": math.tan,
    "sec": lambda x: 1 / math.cos(x), "csc": lambda x: 1 / math.sin(x), "cot": lambda x: 1 / math.tan(x),
    "asin": math.asin, "acos": math.acos, "atan": math.atan, "log": math.log, "log10": math.log10,
}
for _f in ("sin", "cos", "tan", "sec", "csc", "cot"):
    MATH_REF[_f + "d"] = (lambda g: (lambda x: g(x / 180 * math.pi)))(MATH_REF[_f])


def close(a, b, tol=1e-12):
    try:
        a, b = float(a), float(b)
    except Exception:  # noqa
        return False
    if a != a or b != b:
        return a != a and b != b      # undefined in the array exactly where the scalar operation is undefined
    return a == b or abs(a - b) <= tol * (abs(a) + abs(b))


def same_quantity(tag, got, want):
    """value, uncertainty and unit of an array element against the scalar result"""
    import qexpy.data.data as dt
    if isinstance(want, dt.ExperimentalValue):
        if not isinstance(got, dt.ExperimentalValue):
            return "{}: the array gives a {} but the scalar operation gives a quantity with uncertainty".format(
                tag, type(got).__name__)
        if not close(got.value, want.value):
            return "{}: value {} but the scalar operation gives {}".format(tag, got.value, want.value)
        if not close(got.error, want.error):
            return "{}: uncertainty {} but the scalar operation gives {}".format(tag, got.error, want.error)
        if got.unit != want.unit:
            return "{}: unit {!r} but the scalar operation gives {!r}".format(tag, got.unit, want.unit)
        return None
    if isinstance(got, dt.ExperimentalValue) or not isinstance(got, numbers.Real):
        return "{}: plain numbers must give a plain number, got {}".format(tag, type(got).__name__)
    if not close(got, want):
        return "{}: {} but the scalar operation gives {}".format(tag, got, want)
    return None


def scalar_want(case, i):
    """the same operation on FRESH scalar copies of the i-th operands, through the public API"""
    q = _q()
    kind = case["kind"]
    if kind in ("binop", "iop", "chain"):
        a = scalar_at(["arr", case["A"]], i)
        x = scalar_at(case["other"], i)
        r = apply_op(case["op"], a, x) if case.get("self_left", True) else apply_op(case["op"], x, a)
        if kind == "chain":
            y = scalar_at(case["other2"], i)
            _ = r.value, r.error          # the intermediate result has been evaluated, as in the array run
            r = apply_op(case["op2"], r, y) if case.get("self_left2", True) else apply_op(case["op2"], y, r)
        return r
    if kind == "neg":
        return -scalar_at(["arr", case["A"]], i)
    if kind == "fn":
        return getattr(q, case["f"])(scalar_at(case["arg"], i))
    return q.log(scalar_at(case["a"], i), scalar_at(case["b"], i))


def run_extra(case, reset=True):
    """oracle-only kinds: a second operation on the (evaluated) result of the first; augmented assignment"""
    if reset:
        reset_globals()
    try:
        with warnings.catch_warnings():
            warnings.simplefilter("ignore")
            a = build_arr(case["A"])
            o = build_operand(case["other"])
            if case["kind"] == "iop":
                op = case["op"]
                if op == "+":
                    a += o
                elif op == "-":
                    a -= o
                elif op == "*":
                    a *= o
                elif op == "/":
                    a /= o
                else:
                    a **= o
                res = a
            else:
                r1 = apply_op(case["op"], a, o) if case.get("self_left", True) else apply_op(case["op"], o, a)
                _ = r1.values, r1.errors, str(r1)          # read before it becomes an operand
                o2 = build_operand(case["other2"])
                res = apply_op(case["op2"], r1, o2) if case.get("self_left2", True) else apply_op(case["op2"], o2, r1)
            for x in res:
                _ = x.value, x.error, x.unit
        return res, None, []
    except Exception as e:  # noqa
        return None, type(e).__name__, []


def check_case_oracle(case, reset=True):
    """None or a description of the first contradiction with the property"""
    q = _q()
    kind = case["kind"]
    if kind in ("chain", "iop"):
        res, exn, _ = run_extra(case, reset)
    else:
        res, exn, _ = run_case(case, reset)
    if kind in ("binop", "chain", "iop"):
        n = len(case["A"]["values"])
        m = operand_len(case["other"])
        if m is not None and m != n:
            return None          # outside the property
        args = [case["other"]]
        if kind == "chain":
            m2 = operand_len(case["other2"])
            if m2 is not None and m2 != n:
                return None
            args.append(case["other2"])
    elif kind == "neg":
        n = len(case["A"]["values"])
        args = []
    elif kind == "fn":
        args = [case["arg"]]
        n = operand_len(case["arg"])
    else:
        args = [case["a"], case["b"]]
        ls = [operand_len(a) for a in args if operand_len(a) is not None]
        if len(set(ls)) > 1:
            return None
        n = ls[0] if ls else None
    label = cell_of(case)
    if exn is not None:
        # an exception is a violation unless the scalar operation fails on some element too (e.g. 1 / 0)
        for i in range(n or 1):
            try:
                with warnings.catch_warnings():
                    warnings.simplefilter("ignore")
                    w = scalar_want(case, i)
                    if hasattr(w, "error"):
                        _ = w.value, w.error, w.unit
            except Exception:  # noqa
                return None
        return "{}: raised {} but the scalar operation succeeds on every element".format(label, exn)
    cont = container_of(res)
    has_eva = kind in ("binop", "neg", "chain", "iop") or any(a[0] == "arr" for a in args)
    has_nd = any(a[0] == "nd" for a in args)
    if kind == "fn" and case["arg"][0] == "npnum":
        has_nd = False
    has_list = any(a[0] == "list" for a in args)
    want_cont = "CEva" if has_eva else "CNd" if has_nd else "CList" if has_list else "CScalar"
    if cont != want_cont:
        return "{}: the result is a {} but a {} is expected".format(
            label, type(res).__name__, {"CEva": "MeasurementArray", "CNd": "numpy array", "CList": "list",
                                        "CScalar": "scalar"}[want_cont])
    items = list(res) if cont != "CScalar" else [res]
    if n is not None and len(items) != n:
        return "{}: the result has {} elements, the operands have {}".format(label, len(items), n)
    for i, got in enumerate(items):
        reset_before = None  # fresh copies are new objects; correlations are keyed by object id
        with warnings.catch_warnings():
            warnings.simplefilter("ignore")
            try:
                want = scalar_want(case, i)
            except Exception as e:  # noqa
                return "{}: the scalar operation on element {} raised {} but the array operation did not".format(
                    label, i, type(e).__name__)
            why = same_quantity("{} element {}".format(label, i), got, want)
            if why:
                return why
            # plain numbers: also against the math module (independent of the package)
            if case.get("special"):
                continue        # boundary values: both sides may be nan / inf, the math module would raise
            if kind == "fn" and case["arg"][0] in ("num", "list", "nd"):
                ref = MATH_REF[case["f"]](float(scalar_at(case["arg"], i)))
                if not close(got, ref, 1e-9):
                    return "{} element {}: {} but math gives {}".format(label, i, got, ref)
            if kind == "log2" and all(a[0] in ("num", "list", "nd") for a in args):
                base, x = float(scalar_at(case["a"], i)), float(scalar_at(case["b"], i))
                ref = math.log(x) / math.log(base)
                if not close(got, ref, 1e-9):
                    return "{} element {}: log({}, {}) = {} but log(x)/log(base) = {}".format(label, i, base, x, got, ref)
    return None


def shrink_case(case):
    """shorter arrays, no units, simpler numbers, while the case still fails"""
    def fails(c):
        try:
            return check_case_oracle(c) is not None
        except Exception:  # noqa
            return False

    def cut(o, n):
        if o[0] in ("list", "nd"):
            return [o[0], o[1][:n]]
        if o[0] == "arr":
            s = o[1]
            return ["arr", dict(s, values=s["values"][:n], errors=s["errors"][:n])]
        return o
    best = case
    for n in (1, 2):
        c = json.loads(json.dumps(best))
        for key in ("A",):
            if key in c:
                c[key] = cut(["arr", c[key]], n)[1]
        for key in ("other", "arg", "a", "b"):
            if key in c:
                c[key] = cut(c[key], n)
        if fails(c):
            best = c
            break
    c = json.loads(json.dumps(best))
    if "A" in c:
        c["A"]["unit"], c["A"]["name"] = "", ""
    for key in ("other", "arg", "a", "b"):
        if key in c and c[key][0] == "arr":
            c[key][1]["unit"], c[key][1]["name"] = "", ""
        if key in c and c[key][0] in ("meas", "rmeas"):
            c[key][3] = ""
        if key in c and c[key][0] == "derived":
            c[key][5] = ""
    if fails(c):
        best = c
    return best


def collide(case, rng):
    """the same central values and names with other uncertainties / units: anything the library memoises by value
    or by name between calls would answer for the previous case"""
    c = json.loads(json.dumps(case))

    def other_errors(o):
        if o[0] == "arr":
            o[1]["errors"] = [gen_err(rng) * 3 for _ in o[1]["errors"]]
            o[1]["unit"] = rng.choice(UNITS)
        elif o[0] == "meas":
            o[2], o[3] = gen_err(rng) * 3, rng.choice(UNITS)
        elif o[0] == "rmeas":
            o[2] = [gen_err(rng) for _ in o[1]] if o[2] is None else None
        elif o[0] == "derived":
            o[2] = gen_err(rng) * 3
    if "A" in c:
        other_errors(["arr", c["A"]])
    for key in ("other", "other2", "arg", "a", "b"):
        if key in c:
            other_errors(c[key])
    c["tag"] = (c.get("tag") or "") + "+same-values-again"
    return c


def run_chain(prefix, case):
    """in a freshly imported library: the cases of [prefix] one after the other without any reset, then [case]"""
    core.fresh_impl()
    for c in prefix:
        try:
            check_case_oracle(c, reset=False)
        except Exception:  # noqa
            pass
    return check_case_oracle(case, reset=False)


def search(ctx, suspects, budget):
    t0 = time.time()
    out, seen = [], set()
    rng = ctx.rng
    todo = [s["case"] for s in suspects if s.get("kind") == "cell" and s.get("case")]
    todo += [c["case"] for c in load_corpus() if c.get("kind") == "cell"]
    n = chained = passes = 0
    fresh = []
    since = []            # what ran since the library was last imported afresh
    core.fresh_impl()
    while True:
        keep_state = False
        if todo:
            case = todo.pop(0)
        elif time.time() - t0 > budget and passes >= 1 and not fresh:
            break
        else:
            if not fresh:
                if passes >= ctx.n(1, 12):
                    break
                passes += 1                     # every cell of the grid is visited at least once, whatever the budget
                fresh = grid(rng, 1)
                rng.shuffle(fresh)
            case = fresh.pop()
            r = rng.random()
            if r < 0.15:
                fresh.append(collide(case, rng))       # next: the same values again, other uncertainties, no reset
            keep_state = r < 0.4 or (case.get("tag") or "").endswith("+same-values-again")
        n += 1
        if len(since) >= 40:
            core.fresh_impl()
            since = []
        why = check_case_oracle(case, reset=not keep_state)
        chained += keep_state
        if not why:
            since.append(case)
            continue
        cell = cell_of(case)
        if cell in seen:
            continue
        seen.add(cell)
        core.fresh_impl()
        alone = check_case_oracle(case)
        if alone:
            small = shrink_case(case)
            core.fresh_impl()
            why = check_case_oracle(small) or alone
            out.append(Violation(ID, "cell", small, why))
        else:
            prefix = core.minimize_session(since, lambda pre: run_chain(pre, case) is not None)
            what = run_chain(prefix, case)
            if what:
                out.append(Violation(ID, "session", {"prefix": prefix, "case": case},
                                     "after {} earlier operation(s) in the same interpreter: {}".format(len(prefix), what)))
            else:
                ctx.notes.append("oracle: a failure that did not reproduce from a fresh import was dropped: " + why[:120])
        core.fresh_impl()
        since = []
        if len(out) >= 4:
            break
    reset_globals()
    ctx.notes.append("oracle: {} grid cells compared with the scalar operation on fresh copies ({} of them without a "
                     "reset of the library state after the previous one)".format(n, chained))
    return out


def load_corpus():
    d = os.path.join(core.VERIF, "corpus", ID)
    out = []
    if os.path.isdir(d):
        for f in sorted(os.listdir(d)):
            if f.endswith(".json"):
                out.append(json.load(open(os.path.join(d, f))))
    return out


def replay(ctx, v):
    if v["kind"] == "session":
        why = run_chain(v["case"]["prefix"], v["case"]["case"])
        reset_globals()
        return Violation(ID, v["kind"], v["case"], why) if why else None
    why = check_case_oracle(v["case"])
    reset_globals()
    return Violation(ID, v["kind"], v["case"], why) if why else None
