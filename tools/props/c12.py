"""C12 -- Unit strings are parsed with conventional precedence or rejected."""
import itertools
import json
import os
import re
import time
from concurrent.futures import ProcessPoolExecutor
from fractions import Fraction

from vlib import core, coq
from vlib.core import CorrResult, Violation
from vlib.coqfmt import Interner
from props import unitlang as U

ID = "C12"
MANIFEST = {
    "technique": "Rocq proof over a hand-written executable model of the three stages of parse_unit_string (regex lexer with "
                 "validity / coverage checks and bracket recursion, implicit-multiplication grouping, two-stack builder, tree "
                 "evaluation) whose literals (patterns, sentinel, precedence table, comparisons) are regenerated from units.py on "
                 "every run; exhaustive small-scope + random-sentence correspondence by vm_compute; independent recursive-descent "
                 "oracle",
    "level_text": "Machine-checked theorems about the Gallina model Model/UnitSyntax.v: every well-formed sentence of the "
                  "property's grammar (all three multiplication spellings, juxtaposition, parenthesised groups, plus the library's "
                  "own '1/' numerator and '^(p/q)' powers) is accepted with exactly the exponents of the conventional reading "
                  "(induction over the grammar AST through lexer, grouping, builder and evaluator), and every string with an illegal "
                  "character, a digit that does not belong to a power, unbalanced brackets, or a leading / trailing / doubled "
                  "operator (at any bracket depth) is rejected. The model is "
                  "tied to the code by a generator for its literals and by running model and implementation on every string of a "
                  "small alphabet up to a length bound and on thousands of random sentences and their corruptions.",
    "level_note": "Trusted: Coq kernel; the hand-written lexer model is written for the regular expressions whose text the "
                  "generator compares (Python's re engine itself is not modelled, the deterministic-scan reading of the patterns "
                  "is validated by the exhaustive correspondence); Python int()/Fraction() of the short digit strings; float "
                  "rounding of fractional exponents is modelled (exact rationals), not verified.",
    "design_ref": "DESIGN.md section 4 C12",
}
GEN = ["UnitSyntaxGen"]
PROPS_FILE = "Props/C12.v"
MODEL_TARGETS = ["Model/UnitSyntaxCases.v"]
EXTRA_TARGETS = ["Model/UnitSyntaxCases.v"]
TRUSTED = [
    "Model/UnitSyntax.v: hand-written model of __parse_unit_string_to_list / __construct_expression_tree_with_list / "
    "__evaluate_unit_tree; the deterministic reading of the token regular expressions (greedy runs, bracket token = '(' items ')')",
    "tools/gens/unitsyntax.py: extraction of the pattern literals, sentinel, precedence dict and comparison operators",
    "tools/props/unitlang.py: the reference reader of the grammar used by the oracle",
]
ASSUMPTIONS = [
    "unit symbols are ASCII-alphabetic ([a-zA-Z]+), integer powers are written -?[0-9]+ (at most a few thousand digits)",
    "no compound-unit definitions are active (q.clear_unit_definitions())",
    "exponents are compared numerically (Python holds int or float; the model computes exact rationals)",
    "wf sentences: no bare symbol immediately followed by a factor that starts with a letter (the two would read as one symbol)",
    "time to reject is not part of the property: the validity regular expression backtracks exponentially in the lengths of the "
    "letter / digit runs of an INVALID string (observed: 369 s for a 70-character corruption); generated inputs that may be "
    "invalid are kept below 2**14 backtracking paths by shortening their symbols (unitlang.tame)",
    "a string is judged the same however often and after whatever it is offered (sessions in one fresh interpreter), and by "
    "every public entry point (constructors, unit setters of quantities, arrays and data sets, define_unit)",
]


# ---- exhaustive scope ---------------------------------------------------------------------------------
def _valid_pattern():
    """the regular expression of the validity check, rebuilt from the source literals (for the non-trivial count only)"""
    src = open(os.path.join(core.REPO, "qexpy/utils/units.py")).read()
    m = re.search(r'power_pattern = r"([^"]*)"', src)
    b = re.search(r'bracket_pattern = r"([^"]*)"', src)
    if not m:
        return None
    try:
        if b:
            tok = r"^1(?=/)|[a-zA-Z]+({})?|/|\*|{}".format(m.group(1), b.group(1))
        else:
            tok = r"^1(?=/)|[a-zA-Z]+({})?|/|\*|\(.*?\)".format(m.group(1))
        return re.compile(r"({})+".format(tok))
    except re.error:
        return None


def _shard(args):
    """one exhaustive shard: all strings prefix + w, |w| = n, in the enumeration order of Model.UnitSyntaxCases.all_strings"""
    prefix, n = args
    intern = Interner("u")
    items, acc, nontriv = [], 0, 0
    vp = _valid_pattern()
    samples = []
    for w in itertools.product(U.EXH_ALPHABET, repeat=n):
        s = prefix + "".join(w)
        r = U.impl_parse(s)
        if r is not None:
            acc += 1
            nontriv += 1
            items.append("({},{})".format(U.cp(s), U.coq_umap(r, intern) if r != "weird" else "[]"))
            if len(samples) < 2 and len(s) >= 3:
                samples.append(s)
        elif vp is not None and vp.fullmatch(s.replace(U.DOT, "*")):
            nontriv += 1     # passed the validity regex, rejected by a later stage
    text = (U.CASE_HEADER + intern.text() +
            "Definition expected : list (str * umap) := [{}].\n".format(";\n".join(items)) +
            "Eval vm_compute in (check_exhaustive {} {}%nat expected).\n".format(U.cp(prefix) if prefix else "[]", n))
    return text, len(U.EXH_ALPHABET) ** n, acc, nontriv, samples


TOKEN_STARTS = ["a", "b", "1", "*", "/", "(", U.DOT]


def exhaustive_plan(max_len):
    plan = []
    for L in range(0, max_len + 1):
        if L <= 4:
            plan.append(("", L))
        elif L == 5:
            plan += [(c, 4) for c in U.EXH_ALPHABET]
        elif L == 6:
            plan += [(a + b, L - 2) for a in U.EXH_ALPHABET for b in U.EXH_ALPHABET]
        else:
            # length >= 7: only the first characters that can begin a token (a string beginning with ^ - 2 or ) is rejected at
            # its first character, whatever follows; those are covered exhaustively up to length 6)
            plan += [(a + b, L - 2) for a in TOKEN_STARTS for b in U.EXH_ALPHABET]
    return plan


def diagnose_exhaustive(prefix, n):
    """a shard disagreed: list the model's accepted strings of the shard and diff against the implementation"""
    ok, out = coq.eval_terms(ID, U.CASE_HEADER, ["map fst (accepted_in {} {}%nat)".format(U.cp(prefix) if prefix else "[]", n)],
                             timeout=600)
    model = set()
    if ok:
        body = out[out.find("=") + 1:out.rfind(":")]
        for m in re.finditer(r"\[([0-9%N;\s]*)\]", body):
            cps = re.findall(r"\d+", m.group(1).replace("%N", ""))
            model.add("".join(chr(int(c)) for c in cps))
    impl = {}
    for w in itertools.product(U.EXH_ALPHABET, repeat=n):
        s = prefix + "".join(w)
        r = U.impl_parse(s)
        if r is not None:
            impl[s] = r
    diff = sorted(set(impl) ^ model, key=lambda x: (len(x), x))
    return diff[:5] if ok else None


# ---- correspondence -------------------------------------------------------------------------------------
def load_corpus():
    d = os.path.join(core.VERIF, "corpus", ID)
    out = []
    if os.path.isdir(d):
        for f in sorted(os.listdir(d)):
            if f.endswith(".json"):
                out.append(json.load(open(os.path.join(d, f))))
    return out


def gen_stream(rng, n_sent):
    """structured mostly-valid stream + malformed stream"""
    cases = []
    for _ in range(n_sent):
        s = U.gen_sentence(rng)
        cases.append(("sentence", s))
        for _ in range(2):
            cases.append(("corruption", U.corrupt(rng, s)))
        if rng.random() < 0.15:
            cases.append(("corruption2", U.corrupt(rng, U.corrupt(rng, s))))
    # the library's own notation and its corruptions
    for _ in range(n_sent // 8):
        s = rng.choice(["1/", ""]) + U.gen_flat(rng, None)
        if rng.random() < 0.5:
            s += "^(" + rng.choice(["1/2", "-1/2", "3/2", "1/3", "2/4", "1/0", "01/02"]) + ")"
        if rng.random() < 0.3:
            s = rng.choice(["a/(", "1/(", "("]) + s + ")"
        s = U.tame(s)
        cases.append(("library-notation", s))
        cases.append(("corruption", U.corrupt(rng, s)))
    # junk
    for _ in range(n_sent // 10):
        cases.append(("junk", U.tame("".join(rng.choice(U.CORRUPT) for _ in range(rng.randrange(0, 9))))))
    return cases


def correspondence(ctx):
    res = CorrResult()
    rng = ctx.rng
    U.clear_global_state()
    max_len = ctx.n(5, int(os.environ.get("VERIF_C12_MAXLEN", "7")))
    plan = exhaustive_plan(max_len)
    with ProcessPoolExecutor(max_workers=12) as ex:
        shards_out = list(ex.map(_shard, plan, chunksize=1))
    shards, index = [], []
    n_exh = n_acc = 0
    nontriv_exh = 0
    for (prefix, n), (text, count, acc, nt, samples) in zip(plan, shards_out):
        shards.append(text)
        index.append(("exhaustive", (prefix, n)))
        n_exh += count
        n_acc += acc
        nontriv_exh += nt
        if samples and len(res.samples) < 3:
            res.samples.append({"exhaustive_accepted": samples[0]})
    res.count("exhaustive:strings", n_exh)
    res.count("exhaustive:accepted", n_acc)
    res.evaluations += n_exh

    # random sentences, corruptions, corpus
    stream = [(c["kind"], c["case"]) for c in load_corpus() if isinstance(c["case"], str)] + gen_stream(rng, ctx.n(1500, 40000))
    seen, cases = set(), []
    vp = _valid_pattern()
    for kind, s in stream:
        r = U.impl_parse(s)
        cases.append((kind, s, r))
        res.count(kind + (":accepted" if r is not None else ":rejected"))
        if s not in seen and (r is not None or (vp is not None and vp.fullmatch(s.replace(U.DOT, "*")))):
            seen.add(s)
    res.evaluations += len(cases)
    per = 400
    for k in range(0, len(cases), per):
        chunk = cases[k:k + per]
        intern = Interner("u")
        body = ";\n".join("({},{})".format(U.cp(s), U.coq_obs(r, intern)) for _, s, r in chunk)
        shards.append(U.CASE_HEADER + intern.text() +
                      "Definition cases : list (str * option umap) := [{}].\n".format(body) +
                      "Eval vm_compute in (bad_indices check_parse cases).\n")
        index.append(("stream", k))
    res.nontrivial = set(seen) | {"exh:{}".format(i) for i in range(nontriv_exh)}
    res.exhaustive = True
    res.rule = ("(1) EVERY string of length <= {} over the 11 characters a b ^ - 1 2 * / ( ) and the dot sign (at length 7 only those "
                "beginning with a character that can start a token: a b 1 * / ( dot; {} strings, {} accepted): "
                "the model must accept exactly the strings the implementation accepts, with the same ordered exponent list; "
                "(2) random sentences of the property's grammar (1-5 terms, juxtaposition, bracketed groups, all three "
                "multiplication spellings, repeated symbols), two single-character corruptions of each (insert / delete / replace "
                "from letters, digits, ^ - * / ( ) space dot + . , _ newline), double corruptions, the library's own notation "
                "('1/..', '^(p/q)') and junk strings, compared as Rejected or the ordered exponent list. "
                "non-trivial = accepted by the implementation, or passing the validity regular expression and rejected by a later "
                "stage (coverage, bracket recursion, builder, evaluator); counted distinct by string").format(
        min(max_len, 6) if max_len >= 7 else max_len, n_exh, n_acc)
    for kind, s, r in cases[:400]:
        if kind == "sentence" and len(res.samples) < 5:
            res.samples.append({"sentence": s, "observed": None if r is None else [[k, str(Fraction(v))] for k, v in r]})
        if kind == "corruption" and len(res.samples) < 6 and r is None:
            res.samples.append({"corruption": s, "observed": "Rejected"})
    bads, logs = coq.run_case_files(ID, shards, timeout=900, keep=getattr(ctx, "keep_cases", False))
    ndiag = 0
    for (kind, where), bad, log in zip(index, bads, logs):
        if bad is None:
            res.disagreements.append({"name": "case file did not evaluate ({} shard {}): {}".format(
                kind, where, log.strip().split("\n")[-1][:200]), "case": None})
            continue
        if kind == "exhaustive" and bad[0]:
            prefix, n = where
            diff = diagnose_exhaustive(prefix, n) if ndiag < 3 else None
            ndiag += 1
            if diff:
                for s in diff[:3]:
                    res.disagreements.append({"name": "Model.UnitSyntax.parse vs parse_unit_string (accepted set)", "kind": "string",
                                              "case": s})
            else:
                res.disagreements.append({"name": "Model.UnitSyntax.parse vs parse_unit_string (exponents) in exhaustive shard",
                                          "kind": "shard", "case": [prefix, n]})
        elif kind == "stream":
            for i in bad[0]:
                res.disagreements.append({"name": "Model.UnitSyntax.parse vs parse_unit_string", "kind": "string",
                                          "case": cases[where + i][1]})
    return res


# ---- oracle ---------------------------------------------------------------------------------------------
def shrink_string(s, fails):
    """delta debugging on the characters: delete windows of decreasing size, then rename symbols to single letters"""
    cur = s
    size = max(1, len(cur) // 2)
    while size >= 1:
        changed = True
        while changed:
            changed = False
            i = 0
            while i + size <= len(cur):
                cand = cur[:i] + cur[i + size:]
                if cand and fails(cand):
                    cur, changed = cand, True
                else:
                    i += 1
        size //= 2
    # shorter symbols
    syms = sorted(set(re.findall(r"[a-zA-Z]+", cur)), key=len, reverse=True)
    fresh = [c for c in "abcxyz" if c not in syms]
    for sym in syms:
        if len(sym) > 1 and fresh:
            cand = re.sub(r"(?<![a-zA-Z]){}(?![a-zA-Z])".format(sym), fresh[0], cur)
            if cand != cur and fails(cand):
                cur = cand
                fresh.pop(0)
    return cur


def _same(a, b):
    """two parse outcomes (None or list of (symbol, exponent)) agree"""
    if a is None or b is None or a == "weird" or b == "weird":
        return a is None and b is None
    return [(k, Fraction(v)) for k, v in a] == [(k, Fraction(v)) for k, v in b]


def _units_of(obj):
    out = []
    for k, v in obj._unit.items():
        if not isinstance(k, str) or isinstance(v, bool) or not isinstance(v, (int, float)):
            return "weird"
        out.append((k, v))
    return out


def judge_entry_points(s):
    """every public way of handing a unit string to the library must treat [s] like parse_unit_string does (same
    acceptance, same exponents), and a rejected string must leave the object / the table of definitions as it was"""
    import qexpy as q
    import qexpy.utils.units as UU
    if not s:
        return None
    ref = U.impl_parse(s)
    old = [("kg", 1), ("zq", 2)]
    results = []

    def attempt(label, make, rollback_probe=None):
        try:
            got = make()
        except Exception:  # noqa
            got = None
            if rollback_probe is not None:
                left = rollback_probe()
                if left is not None:
                    results.append("{} rejected {!r} but left {}".format(label, s, left))
        if not _same(ref, got):
            results.append("{} {} {!r}{} while parse_unit_string {}".format(
                label, "rejects" if got is None else "accepts", s,
                "" if got is None else " as " + str(got), "rejects it" if ref is None else "gives " + str(ref)))

    attempt("Measurement(unit=...)", lambda: _units_of(q.Measurement(1.0, 0.1, unit=s)))
    m = q.Measurement(2.0, 0.2, unit="kg*zq^2")

    def set_m():
        m.unit = s
        return _units_of(m)
    attempt("the unit setter", set_m, lambda: None if _units_of(m) == old else "the unit {}".format(_units_of(m)))

    def arr_ctor():
        arr = q.MeasurementArray([1.0, 2.0], 0.5, unit=s)
        us = [_units_of(x) for x in arr]
        return us[0] if all(_same(us[0], u) for u in us) else "weird"
    attempt("MeasurementArray(unit=...)", arr_ctor)
    arr2 = q.MeasurementArray([1.0, 2.0, 3.0], 0.5, unit="kg*zq^2")

    def arr_set():
        arr2.unit = s
        us = [_units_of(x) for x in arr2]
        return us[0] if all(_same(us[0], u) for u in us) else "weird"
    attempt("the unit setter of a MeasurementArray", arr_set,
            lambda: None if all(_units_of(x) == old for x in arr2) else "elements with units {}".format([_units_of(x) for x in arr2]))

    def xy_ctor():
        d = q.XYDataSet([1.0, 2.0, 3.0], [2.0, 3.0, 4.0], xunit=s, yunit="kg")
        return _units_of(d.xdata[0])
    attempt("XYDataSet(xunit=...)", xy_ctor)
    d2 = q.XYDataSet([1.0, 2.0, 3.0], [2.0, 3.0, 4.0], xunit="s", yunit="kg*zq^2")

    def xy_set():
        d2.yunit = s
        return _units_of(d2.ydata[1])
    attempt("the yunit setter of an XYDataSet", xy_set,
            lambda: None if all(_units_of(x) == old for x in d2.ydata) else "y elements with units {}".format([_units_of(x) for x in d2.ydata]))

    def define():
        q.define_unit("Zq", s)
        got = UU.UNIT_DEFINITIONS["Zq"]
        return [(k, v) for k, v in got.items()]
    try:
        attempt("define_unit", define, lambda: "a definition of 'Zq'" if "Zq" in UU.UNIT_DEFINITIONS else None)
    finally:
        q.clear_unit_definitions()
    return results[0] if results else None


def judge_case(case):
    """one string, or a session {"session": [s1, ..., sn]}: the strings are offered to the parser one after the other in
    ONE fresh library state and the last one is judged (state the library keeps between calls thereby becomes part of
    the input: a string must be judged the same however often and after whatever it is offered)"""
    core.fresh_impl()            # a fresh library state; deliberately NOT followed by any reset / clear call
    if isinstance(case, dict) and "entry" in case:
        return judge_entry_points(case["entry"])
    if isinstance(case, dict):
        sess = case["session"]
        for s in sess[:-1]:
            U.impl_parse(s)
        why = U.judge(sess[-1])
        return "after {} earlier parse(s) in the same interpreter ({}): {}".format(
            len(sess) - 1, ", ".join(repr(x) for x in sess[:-1][:4]), why) if why else None
    return U.judge(case)


def search(ctx, suspects, budget):
    t0 = time.time()
    core.fresh_impl()
    U.clear_global_state()
    out, seen_what = [], set()
    journal = []          # the strings offered to the library so far in this process (most recent last)

    def add(case, why):
        cls = re.sub(r"'[^']*'|\{[^}]*\}|\([^)]*\)", "_", why)
        if cls in seen_what and len(out) >= 2:
            return
        seen_what.add(cls)
        out.append(Violation(ID, "string" if isinstance(case, str) else ("entry" if "entry" in case else "session"), case, why))

    def examine_entry(s):
        """the other public entry points against parse_unit_string, from the running state and then from a fresh one"""
        if judge_entry_points(s):
            small = shrink_string(s, lambda x: judge_entry_points(x) is not None)
            case = {"entry": small}
            why = judge_case(case)
            if not why:
                case, why = {"entry": s}, judge_case({"entry": s})
            add(case, why or (judge_entry_points(s) or "") + " (only after the cases of this run)")

    def report(s):
        """a failure seen in the running process is re-established from a fresh library state: the shrunk string alone,
        else the string offered twice, else after the shortest run of the strings offered before it"""
        nonlocal journal
        small = shrink_string(s, lambda x: U.judge(x) is not None)
        for cand in (small, s):
            why = judge_case(cand)
            if why:
                add(cand, why)
                break
            sess = {"session": [cand, cand]}
            why = judge_case(sess)
            if why:
                add(sess, why)
                break
        else:
            recent = journal[-400:]
            if judge_case({"session": recent + [s]}):
                prefix = core.minimize_session(recent, lambda p: judge_case({"session": p + [s]}) is not None)
                sess = {"session": prefix + [s]}
                add(sess, judge_case(sess) or U.judge(s) or "")
            else:
                add(s, (U.judge(s) or "violation seen only in the running process") +
                    " (only after the cases of this run, not reproduced from a fresh library state)")
        core.fresh_impl()
        U.clear_global_state()
        journal = []

    def examine(s):
        if U.judge(s):
            report(s)
        else:
            journal.append(s)
            if len(journal) > 5000:
                del journal[:2500]

    todo = [d["case"] for d in suspects if d.get("kind") == "string" and isinstance(d.get("case"), str)]
    for c in load_corpus():
        if isinstance(c["case"], dict):
            why = judge_case(c["case"])
            if why:
                add(c["case"], why)
        else:
            todo.append(c["case"])
    for s in todo:
        examine(s)
    # every string must be judged the same when it is offered again (a retry after the error message)
    for s in todo[:60]:
        examine(s)
    for s in todo[:ctx.n(40, 400)]:
        examine_entry(s)
    # exhaustive small scope: the oracle is total (sentence <-> must be accepted with the conventional meaning)
    max_len = 5 if (budget >= 20 or not ctx.quick) else 4
    done_len = -1
    for L in range(0, max_len + 1):
        stop = False
        for i, w in enumerate(itertools.product(U.EXH_ALPHABET, repeat=L)):
            if i % 4096 == 0 and time.time() - t0 > budget * 0.5:
                stop = True
                break
            examine("".join(w))
            if len(out) >= 4:
                stop = True
                break
        if stop:
            break
        done_len = L
    n = 0
    rng = ctx.rng
    while len(out) < 5 and time.time() - t0 < budget and n < ctx.n(4000, 200000):
        s = U.gen_sentence(rng)
        n += 1
        cands = [s, U.corrupt(rng, s), U.corrupt(rng, s), "1/" + s]
        for cand in cands + cands[1:3]:          # the corruptions are offered a second time
            examine(cand)
        if n % ctx.n(8, 3) == 0:
            for cand in cands[:3]:
                examine_entry(cand)
    ctx.notes.append("oracle: all strings of length <= {} over the 11-character alphabet, {} random sentences with corruptions "
                     "(corruptions and corpus strings offered twice)".format(done_len, n))
    U.clear_global_state()
    return out[:5]


def replay(ctx, v):
    why = judge_case(v["case"])
    U.clear_global_state()
    return Violation(ID, v["kind"], v["case"], why) if why else None
