"""C13 -- Every unit string the library prints is accepted back with the same meaning."""
import itertools
import re
import json
import os
import time
from collections import OrderedDict
from fractions import Fraction

from vlib import core, coq
from vlib.core import CorrResult, Violation
from vlib.coqfmt import Interner
from props import unitlang as U

ID = "C13"
MANIFEST = {
    "technique": "Rocq proof of the print-then-parse round trip over hand-written executable models of the two printers "
                 "(Model/UnitPrint.v, with Fraction.limit_denominator) and of the parser (Model/UnitSyntax.v, literals regenerated "
                 "from units.py on every run), re-using the C12 sentence theorem; vm_compute correspondence on exhaustive and "
                 "sampled exponent maps in both styles and on array edits through the public API; independent oracle",
    "level_text": "Machine-checked theorem C13_roundtrip: for every non-empty exponent map with distinct alphabetic keys, non-zero "
                  "exponents and denominators <= 10, in both unit styles, the model of the printer produces a string that the model "
                  "of the parser accepts with exactly the same exponents (by exhibiting the printed string as a well-formed "
                  "sentence of the C12 grammar and applying the C12 acceptance theorem); corollaries for unit assignment and the "
                  "three MeasurementArray edits. Both models are run against the implementation on every run (printed code points "
                  "and re-parsed maps, both styles), and an independent reader checks the printed strings on the implementation.",
    "level_note": "Trusted: Coq kernel; the hand-written printer / parser models (tied by correspondence, literals by the "
                  "generator); CPython's Fraction.limit_denominator is modelled line by line and exercised with float exponents; "
                  "float rounding of fractional exponents is modelled (exact rationals), not verified; compound-unit packing is "
                  "outside the property (no definitions active).",
    "design_ref": "DESIGN.md section 4 C13",
}
GEN = ["UnitSyntaxGen"]
PROPS_FILE = "Props/C13.v"
MODEL_TARGETS = ["Model/UnitSyntaxCases.v"]
EXTRA_TARGETS = ["Model/UnitSyntaxCases.v"]
TRUSTED = [
    "Model/UnitPrint.v: hand-written model of construct_unit_string, the two style printers, __power_num2str and "
    "Fraction.limit_denominator; of the unit getter / setter and of the unit handling of append / insert / __setitem__",
    "Model/UnitSyntax.v and tools/gens/unitsyntax.py as for C12",
    "tools/props/unitlang.py: the reference reader of the grammar used by the oracle",
]
ASSUMPTIONS = [
    "no compound-unit definitions are active (q.clear_unit_definitions()), as in the property text",
    "exponent maps: non-empty, distinct ASCII-alphabetic keys, non-zero exponents whose denominator is at most 10 "
    "(so that limit_denominator(10) is the identity)",
    "exponents are compared numerically: Python holds int or float, the models compute exact rationals",
]

STYLES = ["FRACTION", "EXPONENTS"]
SYMS = ["kg", "m", "s", "A", "K", "mol", "x", "base", "Pa", "N"]


def _style(name):
    import qexpy as q
    return getattr(q.UnitStyle, name)


def impl_print(pairs, style):
    """construct_unit_string of the ordered map under [style]"""
    import qexpy as q
    import qexpy.utils.units as UU
    q.set_unit_style(_style(style))
    try:
        return UU.construct_unit_string(OrderedDict(pairs))
    finally:
        q.set_unit_style(q.UnitStyle.EXPONENTS)


def observe_print(pairs):
    out = []
    for st in STYLES:
        s = impl_print(pairs, st)
        out.append((s, U.impl_parse(s)))
    return out


# ---- generators --------------------------------------------------------------------------------------------
def py_variants(fr, rng=None):
    """how the library may hold the exponent fr"""
    if fr.denominator == 1:
        if rng is not None and rng.random() < 0.25:
            return float(fr)
        return int(fr)
    return float(fr)


def exhaustive_maps(max_syms):
    syms = ["kg", "m", "s"]
    for n in range(1, max_syms + 1):
        for exps in itertools.product(U.EXPONENTS, repeat=n):
            yield [(syms[i], U.py_exponent(e)) for i, e in enumerate(exps)]


COMBOS = ["combo:1.4/0.4", "combo:0.9/1.9", "combo:0.2^5", "combo:2.3/0.3", "combo:2.7/1.7", "combo:0.1*0.2", "combo:0.7*0.3",
          "combo:1.1*2.2", "combo:0.6/0.1", "combo:0.3^10", "combo:0.4^5", "combo:1.5*1.5", "combo:0.1^3"]
NEAR = [1.4 - 0.4, 3 * 0.2 * 5, 0.9 - 1.9, 2.3 - 0.3, 2.7 - 1.7, 1.0000000000000002, -2.0000000000000004, 0.1 + 0.2, 1 - 1 / 3,
        0.1 * 3, 0.7 + 0.1 - 0.3, 0.30000000000000004 - 0.8]


def gen_combo(rng):
    a, b = rng.randrange(1, 30), rng.randrange(1, 30)
    op = rng.choice("/*^/")
    if op == "^":
        return "combo:{}^{}".format(a / 10, rng.choice([2, 3, 5, 10]))
    if op == "/" and a == b:
        b += 1
    return "combo:{}{}{}".format(a / 10, op, b / 10)


def near_map(rng):
    """exponents as left behind by float arithmetic: one ulp off a whole number or a small fraction"""
    n = rng.choice([1, 2, 2, 3])
    syms = rng.sample(SYMS, n)
    return [(s, rng.choice(NEAR) if rng.random() < 0.7 else py_variants(rng.choice(U.EXPONENTS), rng)) for s in syms]


def random_map(rng):
    n = rng.choice([1, 2, 2, 3, 3, 4, 4])
    syms = rng.sample(SYMS, n)
    pool = U.EXPONENTS if rng.random() < 0.6 else U.EXPONENTS + U.MORE_EXPONENTS + U.MORE_EXPONENTS
    return [(s, py_variants(rng.choice(pool), rng)) for s in syms]


def odd_map(rng):
    """outside the theorem's domain but inside the model's: zero exponents, large denominators, float noise"""
    n = rng.choice([1, 2, 3])
    syms = rng.sample(SYMS, n)
    vals = [0, 0.0, 0.1, 1 / 3, 2 / 3, 0.25, 1 / 7, 0.142857, 3.14159, -0.3333333333333333, 1e-3, 5, -7, 2.5, 0.30000000000000004,
            1 / 11, 5 / 11, 12, -0.09, 1.4 - 0.4, 3 * 0.2 * 5, 0.9 - 1.9, 2.3 - 0.3, 1.0000000000000002, 0.1 + 0.2, 1 - 1 / 3]
    return [(s, rng.choice(vals)) for s in syms]


# ---- array edits through the public API --------------------------------------------------------------------
def run_edit(style, unit_string, edit, n=3):
    """returns (maps before, None | maps after)"""
    import qexpy as q
    q.set_unit_style(q.UnitStyle.EXPONENTS)
    try:
        arr = q.MeasurementArray([1.0 + i for i in range(n)], 0.5, unit=unit_string, name="arr")
    except Exception:  # noqa
        return None, None
    before = [list(x._unit.items()) for x in arr]
    q.set_unit_style(_style(style))
    try:
        if edit[0] == "append":
            res = arr.append(4.5)
        elif edit[0] == "insert":
            res = arr.insert(edit[1], (5.5, 0.5))
        else:
            arr[edit[1]] = (7.5, 0.25)
            res = arr
        after = [list(x._unit.items()) for x in res]
    except Exception:  # noqa
        after = None
    finally:
        q.set_unit_style(q.UnitStyle.EXPONENTS)
    return before, after


def coq_edit(edit):
    if edit[0] == "append":
        return "EAppend"
    return "({} {}%nat)".format("EInsert" if edit[0] == "insert" else "ESetitem", edit[1])


def coq_style(st):
    return "Fraction" if st == "FRACTION" else "Exponents"


def exponents_string(pairs):
    """an input spelling of the map that the parser accepts in every version: explicit '*' and powers"""
    out = []
    for k, v in pairs:
        fr = Fraction(v).limit_denominator(1000)
        if fr.denominator == 1:
            out.append("{}^{}".format(k, fr.numerator))
        else:
            out.append("{}^({}/{})".format(k, fr.numerator, fr.denominator))
    return "*".join(out)


# ---- correspondence --------------------------------------------------------------------------------------------
def load_corpus():
    d = os.path.join(core.VERIF, "corpus", ID)
    out = []
    if os.path.isdir(d):
        for f in sorted(os.listdir(d)):
            if f.endswith(".json"):
                out.append(json.load(open(os.path.join(d, f))))
    return out


def correspondence(ctx):
    res = CorrResult()
    rng = ctx.rng
    U.clear_global_state()
    maps = [("corpus", [(k, v) for k, v in c["case"]["map"]]) for c in load_corpus() if "map" in c.get("case", {})]
    for m in exhaustive_maps(ctx.n(2, 3)):
        maps.append(("exhaustive<={}".format(ctx.n(2, 3)), m))
    for _ in range(ctx.n(1500, 12000)):
        maps.append(("random", random_map(rng)))
    for _ in range(ctx.n(300, 3000)):
        maps.append(("outside-domain", odd_map(rng)))
    shards, index = [], []
    cases = []
    for kind, m in maps:
        (sf, rf), (se, re_) = observe_print(m)
        cases.append((kind, m, sf, rf, se, re_))
        res.count("print:" + kind)
        res.count("print:reparse-" + ("ok" if rf is not None and re_ is not None else "rejected"))
        key = json.dumps([[k, str(Fraction(v))] for k, v in m])
        if len(m) >= 2 or any(Fraction(v).denominator != 1 for _, v in m):
            res.nontrivial.add(key)
    res.evaluations += 2 * len(cases)
    per = 300
    for k in range(0, len(cases), per):
        chunk = cases[k:k + per]
        intern = Interner("u")
        body = ";\n".join("({},({},{}),({},{}))".format(U.coq_umap(m, intern), U.cp(sf) if sf else "[]", U.coq_obs(rf, intern),
                                                        U.cp(se) if se else "[]", U.coq_obs(re_, intern))
                          for _, m, sf, rf, se, re_ in chunk)
        shards.append(U.CASE_HEADER + intern.text() +
                      "Definition cases : list (umap * (str * option umap) * (str * option umap)) := [{}].\n".format(body) +
                      "Eval vm_compute in (bad_indices check_print cases).\n")
        index.append(("print", k))

    # array edits and unit assignment through the public API
    edits = []
    pool = [m for kind, m in maps if kind == "random"][:ctx.n(150, 1500)] + \
           [m for kind, m in maps if kind.startswith("exhaustive")][::ctx.n(7, 11)][:ctx.n(60, 400)]
    for m in pool:
        us = exponents_string(m)
        for st in STYLES:
            edit = rng.choice([["append"], ["insert", rng.randrange(0, 4)], ["setitem", rng.randrange(0, 3)]])
            before, after = run_edit(st, us, edit)
            if before is None:
                res.disagreements.append({"name": "MeasurementArray(unit=...) raised for a unit in the domain", "kind": "map",
                                          "case": {"map": [[k, v] for k, v in m]}})
                continue
            edits.append((st, edit, us, before, after))
            res.count("edit:{}:{}:{}".format(edit[0], st, "ok" if after is not None else "raised"))
            res.nontrivial.add("edit:" + st + ":" + edit[0] + ":" + us)
    res.evaluations += len(edits)
    res.traces += len(edits)
    for k in range(0, len(edits), per):
        chunk = edits[k:k + per]
        intern = Interner("u")
        body = ";\n".join("({},{},[{}],{})".format(
            coq_style(st), coq_edit(e), ";".join(U.coq_umap(b, intern) for b in before),
            "None" if after is None else "(Some [{}])".format(";".join(U.coq_umap(a, intern) for a in after)))
            for st, e, _, before, after in chunk)
        shards.append(U.CASE_HEADER + intern.text() +
                      "Definition cases : list (style * edit * list umap * option (list umap)) := [{}].\n".format(body) +
                      "Eval vm_compute in (bad_indices check_edit cases).\n")
        index.append(("edit", k))

    res.rule = ("(1) exponent maps: every ordered map over 1..{} symbols with exponents in [-4,4]\\{{0}} and +-1/2, +-1/3, +-3/2 "
                "(exhaustive), random maps over 1-4 of ten symbols (integers sometimes held as floats, fractions as floats), and "
                "maps outside the theorem's domain (zero exponents, 1/7, 3.14159, 0.30000000000000004 ...); for each, the string "
                "printed in BOTH styles is compared code point by code point with the printer model, and the implementation's "
                "re-parse of it with the parser model applied to the same string; "
                "(2) MeasurementArray append / insert / item assignment through the public API under both styles, comparing "
                "raised-or-not and the exponent maps of all elements afterwards with the array model. "
                "non-trivial = a map with >= 2 symbols or a fractional exponent (distinct by content); every edit counts").format(ctx.n(2, 3))
    res.samples = [{"map": [[k, str(Fraction(v))] for k, v in cases[i][1]], "fraction_style": cases[i][2], "exponent_style": cases[i][4]}
                   for i in (len(cases) // 3, len(cases) // 2)]
    if edits:
        res.samples.append({"edit": edits[0][1], "style": edits[0][0], "unit": edits[0][2],
                            "raised": edits[0][4] is None})
    bads, logs = coq.run_case_files(ID, shards, timeout=600, keep=getattr(ctx, "keep_cases", False))
    for (kind, base), bad, log in zip(index, bads, logs):
        if bad is None:
            res.disagreements.append({"name": "case file did not evaluate ({} shard at {}): {}".format(
                kind, base, log.strip().split("\n")[-1][:200]), "case": None})
            continue
        for i in bad[0]:
            if kind == "print":
                _, m, sf, rf, se, re_ = cases[base + i]
                res.disagreements.append({"name": "Model.UnitPrint.construct / Model.UnitSyntax.parse vs construct_unit_string / "
                                                  "parse_unit_string", "kind": "map",
                                          "case": {"map": [[k, v] for k, v in m], "printed": [sf, se]}})
            else:
                st, e, us, _, after = edits[base + i]
                res.disagreements.append({"name": "Model.UnitPrint.arr_* vs MeasurementArray edits", "kind": "edit",
                                          "case": {"style": st, "edit": e, "unit": us}})
    U.clear_global_state()
    return res


# ---- oracle ------------------------------------------------------------------------------------------------------
def as_fractions(pairs):
    return {k: Fraction(v).limit_denominator(1000) for k, v in pairs}


def canonical(pairs):
    """every exponent is held exactly as the library holds the printed value: an int, or the float of the fraction
    (exponents that carry rounding noise from earlier arithmetic are outside the exact-use check)"""
    for _, v in pairs:
        fr = Fraction(v).limit_denominator(1000)
        if isinstance(v, bool) or not isinstance(v, (int, float)) or (float(fr) != v and fr != v):
            return False
    return True


def use_check(a, b, printed, what):
    """the copy (b, whose unit was assigned from the printed unit of a) must be usable as the SAME unit: source +/- copy
    give no unit-mismatch warning and keep the unit, source / copy is unit-less"""
    import warnings
    with warnings.catch_warnings(record=True) as caught:
        warnings.simplefilter("always")
        total, diff = a + b, a - b
        quotient = a / b
    mismatch = [str(w.message) for w in caught if "mismatching units" in str(w.message)]
    for name, r in (("sum", total), ("difference", diff)):
        if mismatch or r.unit != printed:
            return "{}: the {} of the quantity and a second one that was assigned its printed unit {!r} has unit {!r}{} -- the " \
                   "unit read back is not treated as the same unit (exponents held: {} vs {})".format(
                       what, name, printed, r.unit, " with the warning '{}'".format(mismatch[0][:60]) if mismatch else "",
                       [repr(v) for v in a._unit.values()], [repr(v) for v in b._unit.values()])
    if quotient.unit != "":
        return "{}: the quotient of the quantity and a second one that was assigned its printed unit {!r} has unit {!r}".format(
            what, printed, quotient.unit)
    return None


def judge_map(pairs):
    """the property on one exponent map (given as it would be held by the library): None or what fails"""
    import qexpy as q
    want = U.nonzero(as_fractions(pairs))
    for st in STYLES:
        s = impl_print(pairs, st)
        q.set_unit_style(_style(st))
        try:
            a = q.Measurement(1.0, 0.1)
            a._unit = OrderedDict(pairs)
            printed = a.unit
            b = q.Measurement(1.0 if st == "FRACTION" else 2.0, 0.1)   # equal central value in a distinct object / another value
            try:
                b.unit = printed
            except Exception as e:  # noqa
                return "style {}: the unit {} prints as {!r}, which the library rejects on assignment ({}: {})".format(
                    st.lower(), U._show(want), printed, type(e).__name__, str(e)[:80])
            got = U.nonzero(as_fractions(b._unit.items()))
            if got != want:
                return "style {}: the unit {} prints as {!r}, which parses back to {}".format(
                    st.lower(), U._show(want), printed, U._show(got))
            ref = U.read(printed, ext=True)
            if ref is None or U.nonzero(ref) != want:
                return "style {}: the unit {} prints as {!r}, which read with conventional precedence means {}".format(
                    st.lower(), U._show(want), printed, "nothing (not a sentence)" if ref is None else U._show(U.nonzero(ref)))
            if printed != s:
                return "style {}: a.unit is {!r} but construct_unit_string gives {!r}".format(st.lower(), printed, s)
            if canonical(pairs):
                why = use_check(a, b, printed, "style {}: the unit {}".format(st.lower(), U._show(want)))
                if why:
                    return why
        finally:
            q.set_unit_style(q.UnitStyle.EXPONENTS)
    return None


def check_quantity(y, want, label):
    """the unit of the quantity y (expected exponents want) prints, is accepted back, parses to the same exponents and
    is usable as the same unit, in both styles; y is READ (value, error, text) before it is used as an operand"""
    import qexpy as q
    want = U.nonzero(want)
    if any(v.denominator > 10 for v in want.values()) or not want:
        return None
    for st in STYLES:
        q.set_unit_style(_style(st))
        try:
            _ = (y.value, y.error, str(y))
            printed = y.unit
            b = q.Measurement(float(y.value), 0.1)          # equal central value, distinct object
            try:
                b.unit = printed
            except Exception as e:  # noqa
                return "style {}: the unit of {} prints as {!r}, which is rejected on assignment ({})".format(
                    st.lower(), label, printed, type(e).__name__)
            got = U.nonzero(as_fractions(b._unit.items()))
            if got != want:
                return "style {}: the unit of {} prints as {!r} and parses back to {} instead of {}".format(
                    st.lower(), label, printed, U._show(got), U._show(want))
            if canonical(list(y._unit.items())):
                why = use_check(y, b, printed, "style {}: the unit of {}".format(st.lower(), label))
                if why:
                    return why
        finally:
            q.set_unit_style(q.UnitStyle.EXPONENTS)
    return None


def judge_defclear(pairs):
    """compound-unit names are defined and then ALL cleared through the public API; afterwards no definition is active, so a
    unit that equals the expansion of a formerly defined name must print and read back like any other unit.  Meant to be
    run from a fresh library state that has NOT been cleared before (the definitions precede the first clear)."""
    import qexpy as q
    us = exponents_string(pairs)
    try:
        q.define_unit("Zq", us)
        q.define_unit("Wq", "Zq*yy")
        q.define_unit("N", "kg*m/s^2")
    except Exception as e:  # noqa
        q.clear_unit_definitions()
        return None
    q.clear_unit_definitions()
    why = judge_map(pairs) or judge_map([("kg", 1), ("m", 1), ("s", -2)])
    if not why:
        why = judge_api([(k, int(v) if float(v).is_integer() else v) for k, v in pairs], "same")
    return "after define_unit('Zq', {!r}), define_unit('N', 'kg*m/s^2') and clear_unit_definitions(): {}".format(us, why) if why else None


def judge_recalc(pairs, opname):
    """a derived quantity whose unit is READ, then the unit of one of its operands is re-assigned and the quantity is
    recalculated: the unit printed afterwards must be accepted back and parse to the CURRENT exponents (and back again)"""
    import qexpy as q
    q.set_unit_style(q.UnitStyle.EXPONENTS)
    us1 = exponents_string(pairs)
    pairs2 = [(k + "q", -v) for k, v in pairs][::-1] + [("kg", 2)]
    us2 = exponents_string(pairs2)
    w1, w2 = as_fractions(pairs), as_fractions(pairs2)

    def expect(w):
        if opname == "mul":
            r = dict(w); r["zz"] = r.get("zz", Fraction(0)) + 1
        elif opname == "div":
            r = dict(w); r["zz"] = r.get("zz", Fraction(0)) - 1
        else:
            r = {k: v / 2 for k, v in w.items()}
        return U.nonzero(r)
    if any(v.denominator > 10 for w in (w1, w2) for v in expect(w).values()):
        return None
    for st in STYLES:
        q.set_unit_style(_style(st))
        try:
            try:
                a = q.Measurement(4.0, 0.2, unit=us1)
                b = q.Measurement(2.0, 0.1, unit="zz")
                c = a * b if opname == "mul" else (a / b if opname == "div" else q.sqrt(a))
            except Exception:  # noqa
                return None
            history = [("as created", w1, None), ("after the operand's unit was re-assigned and recalculate()", w2, us2),
                       ("after the operand's unit was assigned back and recalculate()", w1, us1)]
            for label, w, new in history:
                if new is not None:
                    a.unit = new
                    c.recalculate()
                _ = (c.value, str(c))
                printed = c.unit                       # read
                again = c.unit                         # and read again
                d = q.Measurement(1.0, 0.1)
                try:
                    d.unit = printed
                except Exception as e:  # noqa
                    return "style {}: {}(a, ..) with a in {!r}, {}: the unit prints as {!r}, which is rejected ({})".format(
                        st.lower(), opname, us1, label, printed, type(e).__name__)
                got = U.nonzero(as_fractions(d._unit.items()))
                if got != expect(w) or again != printed:
                    return "style {}: {}(a, ..) with a in {!r}, {}: the unit prints as {!r} = {} but the current exponents are {}".format(
                        st.lower(), opname, us1, label, printed, U._show(got), U._show(expect(w)))
        finally:
            q.set_unit_style(q.UnitStyle.EXPONENTS)
    return None


def judge_api(pairs, how):
    """units produced through arithmetic, and the array edits"""
    import qexpy as q
    if how == "paths":
        return judge_paths(pairs)
    if how == "defclear":
        return judge_defclear(pairs)
    if how.startswith("recalc:"):
        return judge_recalc(pairs, how.split(":")[1])
    q.set_unit_style(q.UnitStyle.EXPONENTS)
    us = exponents_string(pairs)
    want = as_fractions(pairs)
    try:
        x = q.Measurement(4.0, 0.2, unit=us)
    except Exception as e:  # noqa
        return "creating a Measurement with unit {!r} raised {}".format(us, type(e).__name__)
    if how.startswith("combo:"):
        # products / quotients / powers of constant fractional powers: the float exponents may be one ulp off the
        # fraction they stand for (1.4 - 0.4 = 0.9999999999999999, 3 * 0.2 * 5 = 3.0000000000000004)
        if any(v.denominator != 1 or abs(v) > 3 for v in want.values()):
            return None
        m = re.fullmatch(r"combo:([0-9.]+)([/*^])([0-9.]+)", how)
        sa, op, sb = m.group(1), m.group(2), m.group(3)
        a, fa, fb = float(sa), Fraction(sa), Fraction(sb)
        try:
            if op == "/":
                y, fr = x ** a / x ** float(sb), fa - fb
            elif op == "*":
                y, fr = x ** a * x ** float(sb), fa + fb
            else:
                y, fr = (x ** a) ** int(sb), fa * fb
        except Exception:  # noqa
            return None
        return check_quantity(y, {k: v * fr for k, v in want.items()}, "x**{} {} {}, x in {!r},".format(
            sa, {"/": "/ x**", "*": "* x**", "^": "to the power"}[op], sb, us))
    if how == "powtypes":
        if any(v.denominator != 1 or abs(v) > 4 for v in want.values()):
            return None
        for tname, p, fr in power_types():
            try:
                y = x ** p
            except Exception:  # noqa
                continue
            why = check_quantity(y, {k: v * fr for k, v in want.items()}, "x ** {}({!r}), x in {!r},".format(tname, p, us))
            if why:
                return why
        return None
    try:
        if how == "sqrt":
            y, want = q.sqrt(x), {k: v / 2 for k, v in want.items()}
        elif how == "pow":
            y, want = x ** (1.5), {k: v * Fraction(3, 2) for k, v in want.items()}
        elif how == "quotient":
            z = q.Measurement(2.0, 0.1, unit="kg*zz^2")
            y = z / x
            w2 = {"kg": Fraction(1), "zz": Fraction(2)}
            for k, v in want.items():
                w2[k] = w2.get(k, Fraction(0)) - v
            want = w2
        else:
            y = x
    except Exception as e:  # noqa
        return None
    want = U.nonzero(want)
    if any(v.denominator > 10 for v in want.values()) or not want:
        return None
    why = check_quantity(y, want, "{}(x), x in {!r},".format(how, us))
    if why:
        return why
    if how == "same":
        for st in STYLES:
            for edit in (["append"], ["insert", 1], ["setitem", 0]):
                before, after = run_edit(st, us, edit)
                if before is None:
                    return "MeasurementArray(unit={!r}) raises".format(us)
                if after is None:
                    return "style {}: MeasurementArray(unit={!r}).{} raises".format(st.lower(), us, edit[0])
                for a in after:
                    if U.nonzero(as_fractions(a)) != want:
                        return "style {}: after {} on MeasurementArray(unit={!r}) an element has unit {}".format(
                            st.lower(), edit[0], us, U._show(U.nonzero(as_fractions(a))))
    return None


def _close(d, want):
    try:
        return U.nonzero(as_fractions(d.items())) == want and all(isinstance(k, str) for k in d)
    except Exception:  # noqa
        return False


def judge_paths(pairs):
    """the printed unit handed back through EVERY public path, on objects that already carry another unit (read, modify,
    read again on the SAME object), with two arrays alive at once"""
    import qexpy as q
    want = U.nonzero(as_fractions(pairs))
    for st in STYLES:
        printed = impl_print(pairs, st)
        q.set_unit_style(_style(st))
        try:
            where = "style {}: the unit {} printed as {!r}".format(st.lower(), U._show(want), printed)
            step = "Measurement(unit=...)"
            try:
                if not _close(q.Measurement(1.0, 0.1, unit=printed)._unit, want):
                    return "{}: {} gives other exponents".format(where, step)
                step = "unit setter on a quantity that already has a unit"
                m = q.Measurement(5.0, 0.5, unit="kg*zq^2")
                r0 = m.unit
                m.unit = printed
                if m.unit != printed or not _close(m._unit, want):
                    return "{}: after assigning it, the quantity reads {!r}".format(where, m.unit)
                m.unit = r0
                if m.unit != r0:
                    return "{}: assigning the old unit {!r} back gives {!r}".format(where, r0, m.unit)
                step = "MeasurementArray(unit=...)"
                arr = q.MeasurementArray([1.0, 1.0, 3.0], 0.5, unit=printed, name="arr")
                if arr.unit != printed or not all(_close(x._unit, want) for x in arr):
                    return "{}: MeasurementArray(unit=...) reads {!r}".format(where, arr.unit)
                step = "unit setter of a MeasurementArray"
                arr2 = q.MeasurementArray([1.0, 2.0], 0.5, unit="kg", name="arr")
                arr2.unit = printed
                if arr2.unit != printed or not all(_close(x._unit, want) for x in arr2):
                    return "{}: after arr.unit = ..., the array reads {!r}".format(where, arr2.unit)
                step = "append on the first of two arrays"
                arr3 = arr.append(4.0)
                if arr3.unit != printed or not all(_close(x._unit, want) for x in arr3) or arr2.unit != printed:
                    return "{}: after append the arrays read {!r} and {!r}".format(where, arr3.unit, arr2.unit)
                step = "XYDataSet(xunit=..., yunit=...)"
                d = q.XYDataSet([1.0, 2.0, 3.0], [2.0, 3.0, 4.0], xunit=printed, yunit="kg")
                d.yunit = printed
                if d.xunit != printed or d.yunit != printed or not all(_close(x._unit, want) for x in d.ydata):
                    return "{}: the data set reads xunit {!r}, yunit {!r}".format(where, d.xunit, d.yunit)
            except Exception as e:  # noqa
                return "{}: {} raises {}: {}".format(where, step, type(e).__name__, str(e)[:80])
        finally:
            q.set_unit_style(q.UnitStyle.EXPONENTS)
    return None


def power_types():
    import numpy as np
    return [("int", 2, Fraction(2)), ("float", 2.0, Fraction(2)), ("bool", True, Fraction(1)), ("np.int64", np.int64(2), Fraction(2)),
            ("np.int32", np.int32(-1), Fraction(-1)), ("np.int8", np.int8(3), Fraction(3)), ("np.float64", np.float64(0.5), Fraction(1, 2)),
            ("np.float32", np.float32(0.5), Fraction(1, 2)), ("np.float16", np.float16(-0.5), Fraction(-1, 2)),
            ("Fraction", Fraction(1, 2), Fraction(1, 2)), ("Fraction", Fraction(1, 3), Fraction(1, 3)),
            ("np.float64", np.float64(1 / 3), Fraction(1, 3)), ("float", 0.2, Fraction(1, 5)), ("int", -1, Fraction(-1)),
            ("int", 10, Fraction(10)), ("float", 1.0, Fraction(1))]


def in_domain(pairs):
    keys = [k for k, _ in pairs]
    return (len(pairs) >= 1 and len(set(keys)) == len(keys) and all(k.isascii() and k.isalpha() for k in keys)
            and all(v != 0 and Fraction(v).limit_denominator(1000).denominator <= 10
                    and abs(Fraction(v) - Fraction(v).limit_denominator(1000)) < Fraction(1, 10 ** 9) for _, v in pairs))


def shrink_map(pairs, fails):
    pairs = core.shrink_list(pairs, lambda p: bool(p) and fails(p))
    # simplify exponents
    for i, (k, v) in enumerate(list(pairs)):
        for simpler in (1, -1, 2, -2, 0.5, -0.5):
            if simpler != v and (v > 0) == (simpler > 0):
                cand = pairs[:i] + [(k, simpler)] + pairs[i + 1:]
                if fails(cand):
                    pairs = cand
                    break
    return pairs


def judge_one(kind, case):
    m = [(k, x) for k, x in case["map"]]
    return judge_map(m) if kind == "map" else judge_api(m, case.get("how", "same"))


def judge_case(kind, case):
    """one unit map (kind map / api), or a session: several of them printed one after the other in ONE fresh library
    state, the last one judged (state the library keeps between calls thereby becomes part of the input)"""
    core.fresh_impl()            # a fresh library state; deliberately NOT followed by any reset / clear call
    if "session" in case:
        why = None
        for k, c in case["session"]:
            why = judge_one(k, c)
        return "after {} earlier unit(s) printed in the same interpreter: {}".format(len(case["session"]) - 1, why) if why else None
    return judge_one(kind, case)


def search(ctx, suspects, budget):
    t0 = time.time()
    core.fresh_impl()
    U.clear_global_state()
    out, classes = [], set()
    journal = []

    def report(kind, case, why):
        import re
        cls = kind + re.sub(r"'[^']*'|\{[^}]*\}|\"[^\"]*\"", "_", why)[:60]
        if cls in classes:
            return
        classes.add(cls)
        out.append(Violation(ID, kind, case, why))

    def examine(kind, m, how=None):
        """judge one map in the running process; a failure is then re-established from a fresh library state: alone
        (and shrunk, every candidate judged from a fresh state), or else together with the shortest run of earlier cases"""
        nonlocal journal
        case = {"map": [[k, v] for k, v in m]}
        if how:
            case["how"] = how
        if how == "defclear":
            # only meaningful from a fresh library state that was never cleared: definitions, then the first clear
            why = judge_case(kind, case)
            if why:
                small = shrink_map(m, lambda p: in_domain(p) and judge_case(kind, dict(case, map=[[k, v] for k, v in p])) is not None)
                case = dict(case, map=[[k, v] for k, v in small])
                report(kind, case, judge_case(kind, case) or why)
            core.fresh_impl()
            U.clear_global_state()
            journal = []
            return
        why = judge_one(kind, case)
        if not why:
            journal.append([kind, case])
            return
        if judge_case(kind, case):
            small = shrink_map(m, lambda p: in_domain(p) and judge_case(kind, dict(case, map=[[k, v] for k, v in p])) is not None)
            case = dict(case, map=[[k, v] for k, v in small])
            report(kind, case, judge_case(kind, case) or why)
        elif judge_case(kind, {"session": journal + [[kind, case]]}):
            prefix = core.minimize_session(journal, lambda p: judge_case(kind, {"session": p + [[kind, case]]}) is not None)
            sess = {"session": prefix + [[kind, case]]}
            report(kind, sess, judge_case(kind, sess) or why)
        else:
            report(kind, case, why + " (only after the cases of this run, not reproduced from a fresh library state)")
        core.fresh_impl()
        U.clear_global_state()
        journal = []

    todo = []
    for d in suspects:
        c = d.get("case") or {}
        if d.get("kind") == "map" and in_domain([(k, v) for k, v in c.get("map", [])]):
            todo.append([(k, v) for k, v in c["map"]])
    for c in load_corpus():
        cc = c.get("case", {})
        if "session" in cc:
            why = judge_case(c.get("kind", "map"), cc)
            if why:
                report(c.get("kind", "map"), cc, why)
        elif "map" in cc:
            todo.append([(k, v) for k, v in cc["map"]])
    rng = ctx.rng
    gen = itertools.chain(todo, exhaustive_maps(2 if ctx.quick else 3))
    n = 0
    for m in gen:
        if time.time() - t0 > budget * 0.6 or len(out) >= 3:
            break
        n += 1
        examine("map", m)
    k = 0
    while time.time() - t0 < budget and len(out) < 5 and k < ctx.n(600, 20000):
        k += 1
        m = random_map(rng)
        examine("map", m)
        how = rng.choice(["sqrt", "pow", "quotient", "same", "same", "paths", "paths", "powtypes", "combo", "combo"])
        if how == "combo":
            how = COMBOS[k % len(COMBOS)] if k <= 4 * len(COMBOS) else gen_combo(rng)
        if k % 7 == 0:
            examine("map", near_map(rng))
        if k % 3 == 1:
            examine("api", [(s_, int(v) if float(v).is_integer() else v) for s_, v in m], "recalc:" + rng.choice(["mul", "div", "sqrt", "mul"]))
        if k in (2, 30) or k % 150 == 0:
            examine("api", [(s_, int(v) if float(v).is_integer() else v) for s_, v in m], "defclear")
        ints = [(s, int(v) if float(v).is_integer() else v) for s, v in m]
        examine("api", ints, how)
        if k % 5 == 0 and journal:
            # the same map again after others were printed (state kept between calls must not change the outcome)
            kind0, case0 = rng.choice(journal[-40:])
            examine(kind0, [(a, b) for a, b in case0["map"]], case0.get("how"))
    ctx.notes.append("oracle: {} enumerated maps, {} random maps with arithmetic / array edits, both styles".format(n, k))
    U.clear_global_state()
    return out[:5]


def replay(ctx, v):
    why = judge_case(v["kind"], v["case"])
    U.clear_global_state()
    return Violation(ID, v["kind"], v["case"], why) if why else None
