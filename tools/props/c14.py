"""C14 -- an uncertainty is never negative, whatever path created or changed it."""
import json
import math
import random
import os
import time
import warnings

from vlib import core, coq
from vlib.core import CorrResult, Violation, shrink_list
from vlib.coqfmt import qlit, coq_list, Interner, pv_from_py, pv_to_py, pv_to_coq
from props import corelib as CL

ID = "C14"
MANIFEST = {
    "technique": "Rocq proof of the invariant 0 <= uncertainty over every constructor path and every finite sequence of setters, "
                 "selectors and custom values (atomic rejection, r*|value| law); vm_compute correspondence of constructor grids and "
                 "setter histories; sign/atomicity oracle",
    "level_text": "C14_constructor, C14_arrays, C14_step, C14_invariant (induction over all operation sequences), C14_atomic, C14_relative and "
                  "C14_negative_rejected, and for the Monte Carlo mode statistic C14_mode_uncertainty / C14_mode_uncertainty_of_samples (the "
                  "reported uncertainty of every sample list is a non-negative multiple of a bin width), are machine-checked, closed under the global context, about a hand-written model of the validation "
                  "code of MeasuredValue / RepeatedlyMeasuredValue / DerivedValue / _get_error_array_helper / use_custom_value_and_error. "
                  "The model is tied to the code by an exhaustive grid of constructor arguments (negative, zero, positive numbers, None, "
                  "non-numbers, lists with one bad entry, wrong lengths) for Measurement, (value, error) operands, MeasurementArray and "
                  "XYDataSet, and by random setter histories on single, repeated and calculated quantities; the oracle checks the sign of "
                  "every uncertainty and that a rejected request leaves value, uncertainty and class unchanged.",
    "level_note": "Trusted: Coq kernel; hand-written model validated by correspondence; that a calculated quantity's own propagated "
                  "uncertainty is >= 0 is a hypothesis here for the derivative method and the mean/std statistic (sqrt of a checked sum: C01; "
                  "sample standard deviation: C02/C16) and a theorem for the mode statistic; statistics "
                  "of a repeated measurement are inputs (their values are C10); NaN/inf arguments excluded.",
    "design_ref": "DESIGN.md section 4 C14",
}
GEN = []
PROPS_FILE = "Props/C14.v"
MODEL_TARGETS = ["Model/UncertCases.v", "Model/MCCases.v"]
EXTRA_TARGETS = ["Model/UncertCases.v", "Model/MCCases.v"]
TRUSTED = ["Model/Uncert.v hand-written validation model, tied by correspondence",
           "Model/MC.v find_mode (C16's hand-written model of utils.find_mode_and_uncertainty), tied here by the same direct calls "
           "as in C16; theorems C14_mode_uncertainty, C14_mode_uncertainty_of_samples"]
ASSUMPTIONS = ["model and correspondence: arguments are ints, bools, finite floats, None, strings, lists of those (no NaN/inf); numpy "
               "scalars, Fraction and the keyword spellings of the constructor are exercised by the oracle only",
               "the propagated uncertainty of a calculated quantity is non-negative when it is created (C01/C02)"]

HEADER = ("From Coq Require Import List ZArith QArith Bool String.\nImport ListNotations.\nOpen Scope string_scope.\n"
          "From QV Require Import Base.Py Base.CaseLib Model.Uncert Model.UncertCases.\nOpen Scope Q_scope.\n")
EXN = {"ValueError": "ValueError", "TypeError": "TypeError", "IndexError": "IndexError", "KeyError": "KeyError"}
KIND = {"MeasuredValue": 0, "RepeatedlyMeasuredValue": 1, "DerivedValue": 2}
NUMS = [-2.5, -1, -0.125, 0, 0.0, 0.125, 0.5, 1, 2, 3.5, True, -1e-9, 0.3 - 0.1 * 3, -1e-300, 1e-9]
JUNK = [None, "1", "x", [1]]


def q():
    return CL.q()


def outcome(e):
    return "Accepted" if e is None else "(Rejected {})".format(EXN.get(type(e).__name__, "OtherError"))


def coq_outcome(o):
    return o


def pvc(x):
    return pv_to_coq(pv_from_py(x))


# ---- constructors --------------------------------------------------------------------------------
def constructor_cases(rng, n_random):
    """Measurement(v, e) and (v, e) operands"""
    cases = []
    grid = [(v, e) for v in (-3.5, 0.0, 2.0) for e in NUMS + JUNK]
    for _ in range(n_random):
        grid.append((rng.choice([-8, -0.5, 0, 1.5, 7]), rng.choice(NUMS + JUNK)))
    for v, e in grid:
        for form in ("ctor", "operand"):
            if form == "operand" and e is None:
                continue
            CL.reset_world()
            try:
                with warnings.catch_warnings():
                    warnings.simplefilter("ignore")
                    if form == "ctor":
                        m = q().Measurement(v, e)
                    else:
                        base = q().Measurement(1.0, 0.5)
                        m = (base + (v, e))._formula.operands[1]
                cases.append({"form": form, "v": v, "e": pv_from_py(e), "out": "Accepted", "err": float(m.error),
                              "val": float(m.value)})
            except Exception as ex:  # noqa
                o = outcome(ex)
                if form == "operand" and type(ex).__name__ == "UndefinedOperationError":
                    # a non-real entry of the pair: wrap_in_experimental_value -> MeasuredValue raises
                    # IllegalArgumentError, which is not a TypeError, so it propagates unchanged
                    o = "(Rejected OtherError)"
                cases.append({"form": form, "v": v, "e": pv_from_py(e), "out": o, "err": 0.0, "val": float(v)})
    return cases


def array_cases(rng, n_random):
    cases = []
    datas = [[1.0, -2.0, 0.0], [4.0, 5.5], [0.0], [-1.5, -2.5, 3.0, 8.0]]

    def variants(n):
        out = [None, 0.5, 0, -0.25, True, "0.1"]
        out += [[0.5] * n, [0.0] * n, [0.5] * (n - 1) + [-0.5], [0.5] * (n + 1), [0.5] * (n - 1) + ["x"]]
        return out
    combos = []
    for d in datas:
        vs = variants(len(d))
        for e in vs:
            combos.append((d, e, None))
            combos.append((d, None, e))
        combos.append((d, 0.5, -1.0))
        combos.append((d, -0.5, 1.0))
        combos.append((d, ["x"] * len(d), 0.25))
        combos.append((d, "x", [0.25] * len(d)))
    for _ in range(n_random):
        d = rng.choice(datas)
        combos.append((d, rng.choice(variants(len(d))), rng.choice(variants(len(d)))))
    for d, e, r in combos:
        for form in ("array", "xy", "repeated", "wrap", "xy-wrap", "wrap-derived"):
            if form not in ("array", "wrap", "wrap-derived") and r is not None:
                continue
            if form == "repeated" and len(d) < 2:
                continue
            CL.reset_world()
            try:
                with warnings.catch_warnings():
                    warnings.simplefilter("ignore")
                    if form == "array":
                        kw = {}
                        if e is not None:
                            kw["error"] = e
                        if r is not None:
                            kw["relative_error"] = r
                        arr = q().MeasurementArray(list(d), **kw)
                        errs = [float(x) for x in arr.errors]
                    elif form == "xy":
                        ds = q().XYDataSet(list(d), list(d), xerr=e, yerr=None)
                        errs = [float(x) for x in ds.xerr]
                    elif form in ("wrap", "xy-wrap", "wrap-derived"):
                        # arrays / data sets built from EXISTING quantities: a rejected request must leave them unchanged
                        if form == "wrap-derived":
                            base = q().Measurement(1.0, 0.25)
                            elems = [base * x + 0.5 for x in d]
                        else:
                            elems = [q().Measurement(x, 0.75) for x in d]
                        before_elems = [observe(x) for x in elems]
                        if form == "xy-wrap":
                            existing = q().MeasurementArray(elems)
                            ds = q().XYDataSet(existing, list(d), xerr=e)
                            errs = [float(x) for x in ds.xerr]
                        else:
                            kw = {}
                            if e is not None:
                                kw["error"] = e
                            if r is not None:
                                kw["relative_error"] = r
                            arr = q().MeasurementArray(elems, **kw)
                            errs = [float(x) for x in arr.errors]
                    else:
                        m = q().Measurement(list(d), e)
                        errs = [float(x.error) for x in m._raw_data]
                o = "Accepted"
            except Exception as ex:  # noqa
                o, errs = outcome(ex), []
            case = {"form": form, "data": d, "error": pv_from_py(e), "rel": pv_from_py(r), "out": o, "errs": errs}
            if form in ("wrap", "xy-wrap", "wrap-derived"):
                if o != "Accepted":
                    after_elems = [observe(x) for x in elems]
                    changed = [(i, b, a) for i, (b, a) in enumerate(zip(before_elems, after_elems)) if a != b]
                    if changed:
                        case["changed"] = "element {} was {} and is {} after the rejected request".format(*changed[0])
                elif e is None and r is None:
                    errs = None      # existing quantities keep their own uncertainties: nothing to compare with the helper
            case["errs"] = errs
            cases.append(case)
    return cases


# ---- setter histories ----------------------------------------------------------------------------
def make_quantity(kind, rng):
    """returns (python object, description)"""
    CL.reset_world()
    qq = q()
    with warnings.catch_warnings():
        warnings.simplefilter("ignore")
        if kind == "single":
            m = qq.Measurement(rng.choice([-5.0, -0.5, 2.0, 7.5, 0.0]), rng.choice([0.0, 0.25, 1.0]))
        elif kind == "repeated":
            data = [rng.choice([1.0, 1.5, 2.0, 2.5, 3.0, -1.0, 4.5]) for _ in range(rng.randrange(2, 6))]
            if len(set(data)) < 2:
                data[0] += 0.5
            errs = rng.choice([None, 0.5, [rng.choice([0.25, 0.5, 1.0]) for _ in data], [0.0] + [0.5] * (len(data) - 1)])
            m = qq.Measurement(data, errs)
        else:
            a = qq.Measurement(rng.choice([-5.0, 2.0, 4.0]), 0.5)
            b = qq.Measurement(rng.choice([3.0, -1.5]), 0.25)
            k = rng.choice([-2, -0.5, 3, -1, 2.5])
            rep = qq.Measurement([1.0, 2.0, 4.5], [0.5, 0.25, 0.5])
            arr = qq.MeasurementArray([1.5, -2.0], 0.25)
            # calculated results of every simple shape, negative factors and operands included (an uncertainty is a
            # non-negative number whatever the sign of the factor that scales it)
            if rng.random() < 0.4:
                qq.set_correlation(a, b, rng.choice([1, -1, 1.0, -1.0, 0.5, -0.75]))    # fully (anti)correlated sources too
            m = rng.choice([lambda: a * b, lambda: a - b, lambda: a / b, lambda: -a - b, lambda: 2 * a - b, lambda: a + b, lambda: k * a, lambda: a * k, lambda: a / k, lambda: -a,
                            lambda: k / a, lambda: k - a, lambda: k * rep, lambda: arr[1] * k, lambda: (k * a) + b,
                            lambda: a ** 2, lambda: qq.sqrt(abs(k) * qq.Measurement(4.0, 0.5))])()
            if kind == "derived-mc":
                qq.set_monte_carlo_sample_size(60)
                m.error_method = "monte-carlo"
    return m


def observe(m):
    with warnings.catch_warnings():
        warnings.simplefilter("ignore")
        try:
            return {"cls": type(m).__name__, "value": float(m.value), "error": float(m.error)}
        except Exception as ex:  # the quantity can no longer be read: recorded, judged by the oracle
            return {"cls": type(m).__name__, "value": None, "error": None,
                    "unreadable": "{}: {}".format(type(ex).__name__, str(ex)[:120])}


def stats_of(m):
    if type(m).__name__ != "RepeatedlyMeasuredValue":
        return None
    with warnings.catch_warnings():
        warnings.simplefilter("ignore")
        ewm, perr = m.error_weighted_mean, m.propagated_error
    return {"std": float(m.std), "eom": float(m.error_on_mean),
            "ewm": None if math.isnan(ewm) else float(ewm), "perr": None if math.isnan(perr) else float(perr)}


def gen_ops(rng, n, kind):
    ops = []
    for _ in range(n):
        r = rng.random()
        arg = rng.choice(NUMS + JUNK + [rng.choice(NUMS)] * 6)
        if r < 0.25:
            ops.append(["set_value", arg])
        elif r < 0.5:
            ops.append(["set_error", arg])
        elif r < 0.7:
            ops.append(["set_rel", arg])
        elif r < 0.9 and kind == "repeated":
            ops.append([rng.choice(["use_std", "use_eom", "use_ewm", "use_perr"])])
        elif kind == "derived-mc" and r < 0.82:
            ops.append(["custom", rng.choice(NUMS + JUNK[:2]), rng.choice(NUMS + JUNK[:2])])
        elif kind == "derived-mc" and r < 0.95:
            ops.append(["use_mode", rng.choice([None, 0.5, 0.68, 0.9, 1, 1.5, -0.5, "x", 0.25])])
        else:
            ops.append(["set_error", arg])
    return ops


def apply_op(m, op):
    with warnings.catch_warnings():
        warnings.simplefilter("ignore")
        try:
            t = op[0]
            if t == "set_value":
                m.value = op[1]
            elif t == "set_error":
                m.error = op[1]
            elif t == "set_rel":
                m.relative_error = op[1]
            elif t == "use_std":
                m.use_std_for_uncertainty()
            elif t == "use_eom":
                m.use_error_on_mean_for_uncertainty()
            elif t == "use_ewm":
                m.use_error_weighted_mean_as_value()
            elif t == "use_perr":
                m.use_propagated_error_for_uncertainty()
            elif t == "custom":
                m.mc.use_custom_value_and_error(op[1], op[2])
            elif t == "use_mode":
                m.mc.use_mode_with_confidence(op[1])
            return None
        except Exception as ex:  # noqa
            return ex


def run_quantity_history(kind, seed_rng, ops=None, n=None):
    import random
    sub = random.Random(seed_rng.randrange(2 ** 40))      # always drawn: a replay with given ops sees the same quantity
    import numpy as np
    np.random.seed(seed_rng.randrange(2 ** 31))        # Monte Carlo draws of this history are reproducible from the seed
    m = make_quantity(kind, seed_rng)
    start = observe(m)
    st = stats_of(m)
    if ops is None:
        ops = gen_ops(sub, n, kind)
    trace = []
    for op in ops:
        before = observe(m)
        ex = apply_op(m, op)
        after = observe(m)
        trace.append({"op": op, "out": outcome(ex), "before": before, "after": after})
    return {"kind": kind, "start": start, "stats": st, "ops": ops, "trace": trace}


# ---- Coq encoding --------------------------------------------------------------------------------------
def coq_stats(st):
    if st is None:
        return "no_stats"
    return "{{| st_std := {}; st_eom := {}; st_ewm := {}; st_perr := {} |}}".format(
        qlit(st["std"]), qlit(st["eom"]),
        "None" if st["ewm"] is None else "(Some {})".format(qlit(st["ewm"])),
        "None" if st["perr"] is None else "(Some {})".format(qlit(st["perr"])))


def coq_op(op, after=None):
    t = op[0]
    if t == "set_value":
        return "(SetValue {})".format(pvc(op[1]))
    if t == "set_error":
        return "(SetError {})".format(pvc(op[1]))
    if t == "set_rel":
        return "(SetRelError {})".format(pvc(op[1]))
    if t == "custom":
        return "(SetCustom {} {})".format(pvc(op[1]), pvc(op[2]))
    if t == "use_mode":
        return "(UseMode {} {} {})".format(pvc(op[1]), qlit(after["value"]), qlit(after["error"]))
    return {"use_std": "UseStd", "use_eom": "UseEom", "use_ewm": "UseEwm", "use_perr": "UsePerr"}[t]


def coq_history(h, I):
    k = {"MeasuredValue": "KSingle", "RepeatedlyMeasuredValue": "KRepeated", "DerivedValue": "KDerived"}[h["start"]["cls"]]
    q0 = "(mk {} {} {} {})".format(k, qlit(h["start"]["value"]), qlit(h["start"]["error"]), I(coq_stats(h["stats"])))
    steps = coq_list(["({}, {}, {}%nat, {}, {})".format(
        I(coq_op(t["op"], t["after"])), t["out"], KIND[t["after"]["cls"]], qlit(t["after"]["value"]), qlit(t["after"]["error"]))
        for t in h["trace"]])
    return "({}, {})".format(q0, steps)


def correspondence(ctx):
    res = CorrResult()
    rng = ctx.rng
    cc = constructor_cases(rng, ctx.n(20, 300))
    ac = array_cases(rng, ctx.n(40, 600))
    hs = []
    for _ in range(ctx.n(150, 2500)):
        kind = rng.choice(["single", "repeated", "derived", "derived-mc"])
        seed = rng.randrange(2 ** 40)
        hs.append(run_quantity_history(kind, random.Random(seed), n=rng.randrange(3, 14)))
        hs[-1]["seed"] = seed
    res.evaluations = len(cc) + len(ac) + len(hs)
    res.traces = len(hs)
    for c in cc:
        res.count("ctor:" + c["form"] + ":" + c["out"])
        res.nontrivial.add(core.canonical_key("c", [c["form"], c["v"], c["e"]]))
    for c in ac:
        res.count("array:" + c["form"] + ":" + c["out"])
        res.nontrivial.add(core.canonical_key("a", [c["form"], c["data"], c["error"], c["rel"]]))
    for h in hs:
        outs = {t["out"] for t in h["trace"]}
        for t in h["trace"]:
            res.count(h["kind"] + ":" + t["op"][0] + ":" + t["out"])
        if "Accepted" in outs and len(outs) > 1:
            res.nontrivial.add(core.canonical_key("h", [h["kind"], h["start"], h["ops"]]))
    res.rule = ("(i) grid + random Measurement(v, e) and (v, e)-operand constructions with e negative/zero/positive/None/non-number; "
                "(ii) MeasurementArray / XYDataSet / Measurement(list) with no, common, per-element (one negative, wrong length, non-number) "
                "and relative uncertainties; (iii) random setter histories (value, error, relative error with every argument kind, statistic "
                "selectors, custom Monte Carlo pair) on single, repeated and calculated quantities, observing class, value and uncertainty "
                "after each call. Every constructor case is distinct by arguments; a history is non-trivial when it has an accepted and a "
                "rejected call")
    res.samples = [cc[0], ac[3], {"kind": hs[0]["kind"], "ops": hs[0]["ops"][:6]}]
    shards, index = [], []
    for k in range(0, len(cc), 200):
        chunk = cc[k:k + 200]
        body = coq_list(["({}, {}, {}, {})".format(qlit(c["v"]), pv_to_coq(c["e"]), c["out"], qlit(c["err"])) for c in chunk])
        shards.append(HEADER + "Definition cases := {}.\nEval vm_compute in (bad_indices check_construct cases).\n".format(body))
        index.append(("ctor", chunk))
    # (relative uncertainties of arrays built from existing quantities are not supported by the library: abs() of the
    #  object array raises TypeError before anything is changed; those cases are checked by the oracle only)
    ac_model = [c for c in ac if c["errs"] is not None and c["form"] != "wrap-derived"
                and not (c["form"] == "wrap" and c["rel"] != ["none"])]
    for k in range(0, len(ac_model), 150):
        chunk = ac_model[k:k + 150]
        body = coq_list(["({}, {}, {}, {}, {})".format(
            coq_list([qlit(x) for x in c["data"]]), pv_to_coq(c["error"]), pv_to_coq(c["rel"]), c["out"],
            coq_list([qlit(x) for x in c["errs"]])) for c in chunk])
        shards.append(HEADER + "Definition cases := {}.\nEval vm_compute in (bad_indices check_array cases).\n".format(body))
        index.append(("array", chunk))
    for h in hs:
        if any(t["after"].get("unreadable") for t in h["trace"]):
            res.disagreements.append({"name": "implementation: a setter left a quantity that cannot be read", "kind": "history",
                                      "case": {"kind": h["kind"], "seed": h["seed"], "ops": h["ops"], "start": h["start"]}})
    hs = [h for h in hs if not any(t["after"].get("unreadable") for t in h["trace"])]
    for k in range(0, len(hs), 60):
        chunk = hs[k:k + 60]
        I = Interner()
        body = coq_list([coq_history(h, I) for h in chunk])
        shards.append(HEADER + I.text() + "Definition cases := {}.\nEval vm_compute in (bad_indices check_history cases).\n".format(body))
        index.append(("history", chunk))
    # the model of find_mode_and_uncertainty (Model/MC.v, theorems C14_mode_uncertainty*) is C16's: tie it here as well
    try:
        from props import c16, mc_common
        mcases = c16.small_scope_mode_cases()[:120] + [c16.gen_mode_case(rng) for _ in range(ctx.n(200, 3000))]
        mobs = [c16.run_find_mode(c) for c in mcases]
        keep = [(c, o) for c, o in zip(mcases, mobs) if o != ["skipped"]]
        for k in range(0, len(keep), 400):
            I = Interner()
            body = coq_list([c16.coq_mode_case(c, o, I) for c, o in keep[k:k + 400]])
            shards.append(mc_common.HEADER + I.text() + "Definition cases := {}.\n"
                          "Eval vm_compute in (bad_indices check_mode cases).\n".format(body))
            index.append(("mode", [dict(c, observed=o) for c, o in keep[k:k + 400]]))
        res.evaluations += len(keep)
        for _c in keep:
            res.count("mode:find_mode_and_uncertainty")
        res.extra["find_mode_cases"] = len(keep)
    except Exception as ex:  # noqa  (the tie is then reported as not established)
        res.disagreements.append({"name": "Model.MC.find_mode tie could not be run: {}: {}".format(type(ex).__name__, str(ex)[:120]),
                                  "case": None})
    bads, logs = coq.run_case_files(ID, shards, keep=getattr(ctx, "keep_cases", False))
    for (kind, chunk), bad, log in zip(index, bads, logs):
        if bad is None:
            res.disagreements.append({"name": "case file did not evaluate ({}): {}".format(kind, log.strip().split("\n")[-1][:200]),
                                      "case": None})
            continue
        for i in bad[0]:
            c = chunk[i]
            name = {"mode": "Model.MC.find_mode vs utils.find_mode_and_uncertainty",
                    "ctor": "Model.Uncert.construct vs Measurement(v, e)",
                    "array": "Model.Uncert.error_array vs MeasurementArray/XYDataSet/_get_error_array_helper",
                    "history": "Model.Uncert.step vs value/error/relative_error setters, use_* selectors, custom pair"}[kind]
            case = c if kind != "history" else {"kind": c["kind"], "seed": c.get("seed"), "ops": c["ops"], "start": c["start"]}
            res.disagreements.append({"name": name, "kind": kind, "case": case})
    CL.reset_world()
    return res


# ---- oracle ------------------------------------------------------------------------------------------
def ok_number(x):
    return isinstance(x, float) and not math.isnan(x) and x >= 0


def oracle_history(h):
    if not ok_number(h["start"]["error"]):
        return "a {} quantity ({}) starts with uncertainty {}".format(h["kind"], h["start"]["cls"], h["start"]["error"])
    for i, t in enumerate(h["trace"]):
        if t["after"].get("unreadable"):
            return "step {} {} ({}) left a quantity whose value/uncertainty cannot be read: {}".format(
                i, t["op"], t["out"], t["after"]["unreadable"])
        if not ok_number(t["after"]["error"]):
            return "step {} {}: the uncertainty is {}".format(i, t["op"], t["after"]["error"])
        if t["out"] != "Accepted" and t["after"] != t["before"]:
            return "step {} {} was rejected ({}) but changed the quantity from {} to {}".format(
                i, t["op"], t["out"], t["before"], t["after"])
        if t["op"][0] == "set_rel" and isinstance(t["op"][1], (int, float)) and not isinstance(t["op"][1], bool):
            r = t["op"][1]
            if r >= 0:
                if t["out"] != "Accepted":
                    return "step {}: relative uncertainty {} was rejected".format(i, r)
                exp = r * abs(t["before"]["value"])
                if abs(t["after"]["error"] - exp) > 1e-12 * (1 + exp):
                    return "step {}: relative uncertainty {} on value {} gives uncertainty {} (expected {})".format(
                        i, r, t["before"]["value"], t["after"]["error"], exp)
            elif t["out"] == "Accepted":
                return "step {}: negative relative uncertainty {} was accepted".format(i, r)
        if t["op"][0] == "set_error" and isinstance(t["op"][1], (int, float)) and not isinstance(t["op"][1], bool):
            if t["op"][1] < 0 and t["out"] == "Accepted":
                return "step {}: negative uncertainty {} was accepted".format(i, t["op"][1])
            if t["op"][1] >= 0 and (t["out"] != "Accepted" or t["after"]["error"] != float(t["op"][1])):
                return "step {}: uncertainty {} gives {} ({})".format(i, t["op"][1], t["after"]["error"], t["out"])
    return None


def keyword_constructor_cases():
    """Measurement(v [, e], relative_error=r) and the keyword spellings of the uncertainty: whatever the library does
    with the keywords (the unchanged tree ignores relative_error for a single measurement), the result has an uncertainty
    >= 0 or the call is rejected.  Oracle only: the model does not describe these spellings."""
    out = []
    for v in (-3.5, 0.0, 2.5):
        for r in NUMS:
            for kw in ({"relative_error": r}, {"error": 0.25, "relative_error": r}, {"error": r}, {"error": r, "relative_error": 0.1}):
                CL.reset_world()
                try:
                    with warnings.catch_warnings():
                        warnings.simplefilter("ignore")
                        m = q().Measurement(v, **kw)
                        err = float(m.error)
                except Exception:  # noqa
                    continue
                if not ok_number(err):
                    out.append(("ctor-kw", {"form": "ctor-kw", "v": v, "kw": {k: (x if not isinstance(x, float) else x) for k, x in kw.items()}},
                                "Measurement({}, {}) has uncertainty {}".format(v, ", ".join("{}={}".format(k, x) for k, x in kw.items()), err)))
    return out


def typed_number_cases():
    """the same numbers as numpy scalars of every width, Fraction and bool: constructor, (value, error) operand, error and
    relative_error setters of measurements and calculated quantities.  Oracle only (the model's numbers are untyped)."""
    import numpy as np
    from fractions import Fraction
    out = []
    types = [("np.float64", np.float64), ("np.float32", np.float32), ("np.float16", np.float16), ("np.int64", np.int64),
             ("np.int8", np.int8), ("Fraction", Fraction), ("bool", bool)]
    for tname, ty in types:
        for x in (-1, 0, 1, -0.5, 0.5):
            if tname in ("np.int64", "np.int8", "bool") and x != int(x):
                continue
            if tname == "bool" and x < 0:
                continue
            num = ty(x)
            for how in ("ctor", "operand", "set_error", "set_rel", "derived_set_error", "derived_set_rel", "array_error"):
                CL.reset_world()
                qq = q()
                try:
                    with warnings.catch_warnings():
                        warnings.simplefilter("ignore")
                        before = None
                        if how == "ctor":
                            m = qq.Measurement(2.5, num)
                        elif how == "operand":
                            m = (qq.Measurement(1.0, 0.5) + (2.5, num))._formula.operands[1]
                        elif how == "array_error":
                            m = qq.MeasurementArray([1.0, 2.0], num)[1]
                        else:
                            m = qq.Measurement(-2.5, 0.25) if not how.startswith("derived") else qq.Measurement(-2.5, 0.25) * 2
                            before = (float(m.value), float(m.error))
                            try:
                                if how.endswith("set_error"):
                                    m.error = num
                                else:
                                    m.relative_error = num
                            except Exception:  # noqa
                                if (float(m.value), float(m.error)) != before:
                                    out.append(("typed", {"form": "typed", "type": tname, "x": x, "how": how},
                                                "{} with {}({}) was rejected but changed the quantity from {} to {}".format(
                                                    how, tname, x, before, (float(m.value), float(m.error)))))
                                continue
                        err = float(m.error)
                except Exception:  # noqa
                    continue
                if not ok_number(err):
                    out.append(("typed", {"form": "typed", "type": tname, "x": x, "how": how},
                                "{} with the number {}({}) gives uncertainty {}".format(how, tname, x, err)))
    return out


def item_assignment_cases():
    """arr[i] = (value, error) / number / measurement with an invalid uncertainty: rejected AND the element unchanged"""
    out = []
    for pair in ((10, -0.6), (10, "x"), (10, None), ("x", 0.5), (10, -1e-9)):
        for idx in (0, 1, -1):
            CL.reset_world()
            arr = q().MeasurementArray([1.0, 2.0, 3.0], 0.25, unit="m", name="t")
            before = [(float(x.value), float(x.error), str(x.unit), str(x.name)) for x in arr]
            try:
                with warnings.catch_warnings():
                    warnings.simplefilter("ignore")
                    arr[idx] = pair
                rejected = None
            except Exception as ex:  # noqa
                rejected = type(ex).__name__
            after = [(float(x.value), float(x.error), str(x.unit), str(x.name)) for x in arr]
            case = {"form": "setitem", "v": repr(pair), "e": idx}
            if rejected and after != before:
                out.append(("array", dict(case, data=[], error=None, rel=None),
                            "arr[{}] = {!r} was rejected ({}) but changed the array from {} to {}".format(idx, pair, rejected, before, after)))
            if any(not ok_number(x[1]) for x in after):
                out.append(("array", dict(case, data=[], error=None, rel=None),
                            "arr[{}] = {!r} ({}) leaves uncertainties {}".format(idx, pair, rejected or "accepted", [x[1] for x in after])))
    return out


def oracle_constructors(rng, n):
    out = keyword_constructor_cases() + typed_number_cases() + item_assignment_cases()
    for c in constructor_cases(rng, n):
        if c["out"] == "Accepted" and not ok_number(c["err"]):
            out.append(("ctor", c, "{} with ({}, {}) has uncertainty {}".format(
                "Measurement" if c["form"] == "ctor" else "a (value, error) operand", c["v"], c["e"], c["err"])))
    for c in array_cases(rng, n):
        if c.get("changed"):
            out.append(("array", c, "{} constructor with existing quantities {} error {} relative_error {} was rejected ({}) but {}".format(
                c["form"], c["data"], c["error"], c["rel"], c["out"], c["changed"])))
        if c["out"] == "Accepted" and c["errs"] is not None and any(not ok_number(x) for x in c["errs"]):
            out.append(("array", c, "{} constructor with data {} error {} relative_error {} has uncertainties {}".format(
                c["form"], c["data"], c["error"], c["rel"], c["errs"])))
    return out


def search(ctx, suspects, budget):
    import random
    t0 = time.time()
    out = []
    for kind, case, why in oracle_constructors(ctx.rng, ctx.n(5, 100))[:2]:
        out.append(Violation(ID, kind, case, why))
    todo = [s["case"] for s in suspects if s.get("kind") == "history" and s.get("case")]
    n = 0
    while len(out) < 3:
        if todo:
            c = todo.pop(0)
            h = replay_history(c)
            h["seed"] = c.get("seed")
        elif time.time() - t0 > budget:
            break
        else:
            kind = ctx.rng.choice(["single", "repeated", "derived", "derived-mc"])
            seed = ctx.rng.randrange(2 ** 40)
            h = run_quantity_history(kind, random.Random(seed), n=ctx.rng.randrange(3, 14))
            h["seed"] = seed
        n += 1
        why = oracle_history(h)
        if why:
            case = {"kind": h["kind"], "seed": h.get("seed"), "ops": h["ops"], "start": h["start"]}
            if h.get("seed") is not None:
                small = shrink_list(h["ops"], lambda ops: oracle_history(
                    run_quantity_history(h["kind"], random.Random(h["seed"]), ops=ops)) is not None)
                h2 = run_quantity_history(h["kind"], random.Random(h["seed"]), ops=small)
                case["ops"], why = small, oracle_history(h2) or why
            out.append(Violation(ID, "history", case, why))
    ctx.notes.append("oracle: constructor grids + {} setter histories".format(n))
    CL.reset_world()
    return out


def replay_history(case):
    import random
    if case.get("seed") is not None:
        return run_quantity_history(case["kind"], random.Random(case["seed"]), ops=case["ops"])
    # a suspect from the correspondence: rebuild a quantity of that kind (start values may differ)
    return run_quantity_history(case["kind"], random.Random(1), ops=case["ops"])


def replay(ctx, v):
    if v["kind"] == "history":
        why = oracle_history(replay_history(v["case"]))
    else:
        import random
        found = [w for k, c, w in oracle_constructors(random.Random(0), 0)
                 if k == v["kind"] and all(c.get(f) == v["case"].get(f) for f in ("form", "v", "e", "data", "error", "rel", "kw", "type", "x", "how"))]
        why = found[0] if found else None
    CL.reset_world()
    return Violation(ID, v["kind"], v["case"], why) if why else None
