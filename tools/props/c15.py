"""C15 -- error-method selection is respected and derivative results are deterministic."""
import json
import os
import time

from vlib import core, coq
from vlib.core import CorrResult, Violation, shrink_list
from props import statelib as SL
from props import corelib as CL
from props import c05

ID = "C15"
MANIFEST = {
    "technique": "Rocq proof over the evaluator state machine: selection rule, dispatch of reads, non-interference of derivative-method "
                 "reads (fresh evaluation of formula/values/uncertainties/correlations for every reachable state); vm_compute correspondence "
                 "of histories rich in method switches; erase-the-switches determinism oracle",
    "level_text": "C15_selection, C15_reported, C15_fresh and C15_deterministic are machine-checked for any number type and operator tables and, "
                  "through C05_invariant, hold in every state reachable by any finite history: a derivative-method read of a quantity that is "
                  "not stale is a function of formula, source values, uncertainties and correlations only. The state machine is tied to the "
                  "implementation by random histories dominated by q.set_error_method, per-quantity assignment (enum and string), "
                  "reset_error_method, Monte Carlo accesses and creation of new results; the oracle replays each history with every method "
                  "switch and Monte Carlo access erased, under different seeds, and demands bit-identical derivative results.",
    "level_note": "Trusted: Coq kernel; hand-written state machine validated by correspondence; 'not stale' (no source change since the "
                  "last recalculate or creation) is the documented precondition of up-to-date reads (C05); Monte Carlo numbers abstracted.",
    "design_ref": "DESIGN.md section 4 C15",
}
GEN = ["OpsTable"]
PROPS_FILE = "Props/C15.v"
MODEL_TARGETS = ["Model/CoreStateQ.v"]
EXTRA_TARGETS = ["Model/CoreStateQ.v"]
TRUSTED = c05.TRUSTED
ASSUMPTIONS = c05.ASSUMPTIONS


def correspondence(ctx):
    res = CorrResult()
    rng = ctx.rng
    n = ctx.n(160, 3000)
    cases = []
    for _ in range(n):
        ops = SL.gen_history(rng, rng.randrange(10, 40), mc_share=0.9, seeds=True)
        s, outs = SL.run_history(ops)
        cases.append((ops, outs))
        res.evaluations += 1
        res.traces += 1
        kinds = set()
        for op, o in zip(ops, outs):
            res.count(op[0] + ":" + o[0])
            kinds.add(op[0])
        if ({"set_global", "set_own"} & kinds) and any(o[0] == "gen" for o in outs) and any(o[0] in ("val", "err") for o in outs):
            res.nontrivial.add(core.canonical_key("h", ops))
    res.rule = ("random histories (10-39 operations) as in C05 but dominated by method operations (global / per quantity, enum or string, "
                "reset, invalid selections, mc access, sample size, Monte Carlo settings, re-seeding of numpy, singular-point formulas); non-trivial = switches a method and contains both a derivative-method and a Monte Carlo "
                "read; distinct by content")
    res.samples = [{"history": cases[0][0][:10], "observed": cases[0][1][:10]}]
    shards, index = SL.shards_for(cases)
    bads, logs = coq.run_case_files(ID, shards, keep=getattr(ctx, "keep_cases", False))
    for idx, bad, log in zip(index, bads, logs):
        if bad is None:
            res.disagreements.append({"name": "case file did not evaluate: " + log.strip().split("\n")[-1][:200], "case": None})
            continue
        for i in bad[0]:
            res.disagreements.append({"name": "Model.CoreState.step vs error_method / set_error_method / reads",
                                      "kind": "history", "case": cases[idx[i]][0]})
    CL.reset_world()
    return res


def oracle(ops, rng):
    try:
        why = SL.oracle_history(ops, check_recalc=False, check_methods=True)
        if why:
            return why
        return SL.determinism_oracle(ops, rng)
    except Exception as e:
        return "the implementation raised {}: {}".format(type(e).__name__, str(e)[:120])


def invalid_method_oracle():
    """an invalid per-quantity method is rejected and leaves the selection unchanged"""
    import warnings
    CL.reset_world()
    q = CL.q()
    a, b = q.Measurement(5, 0.5), q.Measurement(4, 0.25)
    r = a * b
    for bad in ("auto", "Derivative", "", 3, None):
        r.error_method = "monte-carlo"
        try:
            r.error_method = bad
            return "r.error_method = {!r} was accepted".format(bad)
        except ValueError:
            pass
        if r.error_method != q.ErrorMethod.MONTE_CARLO:
            return "a rejected assignment r.error_method = {!r} changed the selection to {}".format(bad, r.error_method)
    return None


def search(ctx, suspects, budget):
    import random
    t0 = time.time()
    out = []
    todo = [s["case"] for s in suspects if s.get("case")]
    d = os.path.join(core.VERIF, "corpus", ID)
    if os.path.isdir(d):
        for f in sorted(os.listdir(d)):
            if f.endswith(".json"):
                todo.append(json.load(open(os.path.join(d, f)))["case"])
    why = invalid_method_oracle()
    if why:
        out.append(Violation(ID, "invalid-method", {"call": "r.error_method = <invalid>"}, why))
    n = 0
    while len(out) < 3:
        if todo:
            ops = todo.pop(0)
        elif time.time() - t0 > budget:
            break
        else:
            ops = SL.gen_history(ctx.rng, ctx.rng.randrange(8, 30), mc_share=0.9, seeds=True)
        n += 1
        sub = random.Random(ctx.rng.randrange(2 ** 30))
        why = oracle(ops, sub)
        if why:
            n_meas = len([o for o in ops if o[0] == "meas"])

            def fails(rest):
                try:
                    return oracle(ops[:n_meas] + rest, random.Random(1)) is not None and \
                        "raised" not in (oracle(ops[:n_meas] + rest, random.Random(1)) or "raised")
                except Exception:
                    return False
            small = ops[:n_meas] + shrink_list(ops[n_meas:], fails)
            why = oracle(small, random.Random(1)) or why
            out.append(Violation(ID, "history", small, why))
    ctx.notes.append("oracle: {} histories replayed with and without method switches / Monte Carlo accesses".format(n))
    CL.reset_world()
    return out


def replay(ctx, v):
    import random
    if v["kind"] == "invalid-method":
        why = invalid_method_oracle()
    else:
        why = oracle(v["case"], random.Random(1))
    CL.reset_world()
    return Violation(ID, v["kind"], v["case"], why) if why else None
