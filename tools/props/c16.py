"""C16 -- Monte Carlo strategies report functions of the one retrievable sample set."""
import json
import math
import os
import random
import time
from fractions import Fraction

import numpy as np

from vlib import core, coq
from vlib.core import CorrResult, Violation, shrink_list
from vlib.coqfmt import qlit, zlit, coq_list, Interner
from props import mc_common as mc
from props.mc_common import fx, fr

ID = "C16"
MANIFEST = {
    "technique": "Rocq proof over a hand-written model of find_mode_and_uncertainty (loop invariant of the outward bin walk: "
                 "smallest covering k, termination within len-1 steps from any bin) and of the MonteCarloEvaluator / "
                 "MonteCarloSettings state machine (invariant over all operation histories with numpy.random.normal as an "
                 "oracle stream) + vm_compute correspondence with injected dyadic offsets + independent brute-force oracle",
    "level_text": "Machine-checked theorems C16_mode, C16_mode_total (every count vector of length >= 1, every start bin, every "
                  "confidence <= 1), C16_mean_std, C16_mode_state, C16_custom, C16_same_samples, C16_redraw, C16_size, C16_copy "
                  "(every finite history of reads, strategy/confidence/range/sample-size changes, custom pairs, recalculation "
                  "and mutation of returned arrays) about an executable Gallina model that is run against the implementation "
                  "on every check: find_mode_and_uncertainty directly on random and exhaustively enumerated small count "
                  "vectors, numpy.histogram against exact binning, and operation histories with numpy.random.normal replaced "
                  "by recorded dyadic offsets. Proof is the right level because the property quantifies over all histograms, "
                  "confidences and setting sequences, which induction covers and sampling cannot.",
    "level_note": "Trusted: Coq kernel; the hand-written model Model/MC.v (tied by correspondence, not by translation); "
                  "numpy.histogram / numpy.mean / numpy.std as oracles (histogram re-computed exactly and compared on generated "
                  "inputs); float rounding (count < confidence*total is compared exactly in Q; inputs whose float product rounds "
                  "across an integer are excluded and counted); Python bools as sample sizes are outside the "
                  "stated domain.",
    "design_ref": "DESIGN.md section 4 C16",
}
GEN = []
PROPS_FILE = "Props/C16.v"
MODEL_TARGETS = ["Model/MCCases.v"]
EXTRA_TARGETS = ["Model/MCCases.v"]
TRUSTED = [
    "Model/MC.v: hand-written model of find_mode_and_uncertainty, numpy.histogram bin membership, MonteCarloEvaluator and "
    "MonteCarloSettings (tied by the correspondence run, not generated)",
    "numpy.random.normal replaced in-process by recorded dyadic offsets; numpy.histogram, numpy.mean, numpy.std, numpy.ma "
    "treated as oracles and re-computed exactly",
]
ASSUMPTIONS = [
    "histogram counts are non-negative integers (numpy.histogram output; proved for the model's exact histogram)",
    "the confidence level is a real number in [0, 1] (enforced by the setter, proved as an invariant); 0 is accepted by "
    "the setter (then k = 0) although the property speaks of (0, 1]; use_mode_with_confidence ignores a falsy argument",
    "sample sizes are ints, not bools (True is accepted by the setter and makes numpy.random.normal raise): bools are not "
    "generated; 0 means 'follow the global size' (modelled)",
    "the mode strategy uses ALL stored samples (numpy.histogram ignores the mask of the configured range): modelled as is, "
    "the property only promises the range restriction for mean / standard deviation",
    "the 'over 10 percent' warning divides by the GLOBAL sample size (modelled as is, compared in the correspondence, not "
    "part of the property); set_xrange with one tuple argument always raises TypeError (modelled)",
    "a later change of the global size leaves an already drawn sample set (by design): sizes are checked right after a draw",
    "float rounding: confidence*total across an integer, samples within rounding distance of a bin edge or of a range "
    "boundary, and sample sets one ulp wide (numpy cannot make 100 bins) are excluded from the tie and counted in the evidence",
]


# =====================================================================================================
# (i) find_mode_and_uncertainty directly
# =====================================================================================================
SHAPES = ["spike", "first", "last", "plateau", "uniform", "zeros", "two", "ramp_up", "ramp_down", "sparse", "edge_heavy"]


def gen_counts(rng):
    L = rng.choice([100] * 7 + [1, 2, 3, 5, 10, 37, 150])
    shape = rng.choice(SHAPES)
    if shape == "zeros":
        n = [0] * L
    elif shape == "plateau":
        n = [rng.choice([3, 3, 3, 2])] * L
        if rng.random() < 0.5:
            a = rng.randrange(L)
            for i in range(a, min(L, a + rng.randint(1, 5))):
                n[i] = 9
    elif shape == "uniform":
        n = [rng.randint(0, 20) for _ in range(L)]
    elif shape == "sparse":
        n = [rng.choice([0, 0, 0, 1, 2]) for _ in range(L)]
    elif shape == "ramp_up":
        n = [i + rng.randint(0, 2) for i in range(L)]
    elif shape == "ramp_down":
        n = [L - i + rng.randint(0, 2) for i in range(L)]
    else:
        n = [rng.randint(0, 6) for _ in range(L)]
        if shape == "first":
            n[0] = 40 + rng.randint(0, 10)
        elif shape == "last":
            n[-1] = 40 + rng.randint(0, 10)
        elif shape == "spike":
            n[rng.randrange(L)] = 50
        elif shape == "two":
            a, b = rng.randrange(L), rng.randrange(L)
            n[a] = n[b] = 30
        elif shape == "edge_heavy":
            n[0] = n[-1] = 25
            n[rng.randrange(L)] = 25 + rng.choice([0, 1])
    return shape, n


def gen_conf(rng, total):
    for _ in range(20):
        r = rng.random()
        if r < 0.2:
            c = 1.0
        elif r < 0.3:
            c = 2.0 ** -20
        elif r < 0.65:
            c = rng.randint(1, 63) / 64.0
        elif r < 0.7:
            c = 0.0
        elif r < 0.8 and total > 0:     # exactly the fraction held by a prefix of the counts: count == conf * total
            c = rng.randint(1, total) / float(total)
        else:
            c = rng.choice([0.68, 0.9, 0.95, 0.5, 0.99, 0.3])
        if mc.threshold_agrees(c, Fraction(c), total):
            return c
    return 0.5


def gen_mode_case(rng):
    shape, n = gen_counts(rng)
    start = rng.randint(-64, 64) / 8.0
    w = rng.randint(1, 5) * 2.0 ** -rng.randint(0, 4)
    sc = rng.choice([1.0] * 6 + mc.SCALES)          # histograms of data of size 1e-9, 1e-12, 1e9 as well
    if rng.random() < 0.05:
        start += 2.0 ** 30                          # narrow histogram far from the origin
    bins = [(start + i * w) * sc for i in range(len(n) + 1)]
    return {"shape": shape, "n": n, "bins": [fx(b) for b in bins], "conf": fx(gen_conf(rng, sum(n)))}


TIMEOUTS = [0]


def run_find_mode(case):
    """-> ["ok", value_hex, error_hex] | ["exn", name] | ["timeout"] | ["skipped"] (after 6 calls that did not return)"""
    import qexpy.utils.utils as U
    if TIMEOUTS[0] >= 6:
        return ["skipped"]
    n = np.array(case["n"], dtype=np.int64)
    bins = np.array([float.fromhex(b) for b in case["bins"]])
    try:
        with mc.time_limit(0.3):
            v, e = U.find_mode_and_uncertainty(n, bins, float.fromhex(case["conf"]))
        return ["ok", fx(v), fx(e)]
    except TimeoutError:
        TIMEOUTS[0] += 1
        return ["timeout"]
    except Exception as ex:  # noqa
        return ["exn", type(ex).__name__]


def coq_mode_case(case, ob, intern):
    obs = "(Some ({}, {}))".format(mc.cq(ob[1]), mc.cq(ob[2])) if ob[0] == "ok" else "None"
    m = max([abs(float.fromhex(b)) for b in case["bins"]] + [0.0]) or 1.0
    return "({}, {}, {}, {}, {})".format(mc.coq_atol(m), intern(coq_list([zlit(x) for x in case["n"]])),
                                     intern(coq_list([mc.cq(b) for b in case["bins"]])), mc.cq(case["conf"]), obs)


def small_scope_mode_cases():
    out = []
    for L in (1, 2, 3, 4):
        for code in range(3 ** L):
            n = [(code // 3 ** i) % 3 for i in range(L)]
            for c in (0.25, 0.5, 0.75, 1.0):
                out.append({"shape": "small", "n": n, "bins": [fx(float(i)) for i in range(L + 1)], "conf": fx(c)})
    return out


# =====================================================================================================
# numpy.histogram against the exact binning
# =====================================================================================================
def gen_hist_case(rng):
    r = rng.random()
    N = rng.choice([1, 2, 3, 8, 16, 40, 64])
    if r < 0.5:      # dyadic edges: min = a, max = a + 100 * 2^-j, samples on a 2^-(j+2) grid -> many exactly on edges
        j = rng.randint(0, 3)
        a = rng.randint(-32, 32) / 4.0
        width = 100 * 2.0 ** -j
        xs = [a, a + width] + [a + rng.randint(0, 400) * 2.0 ** -(j + 2) for _ in range(max(0, N - 2))]
        rng.shuffle(xs)
        kind = "dyadic-edges"
    elif r < 0.6:
        xs = [rng.randint(-20, 20) / 4.0] * N
        kind = "all-equal"
    elif r < 0.65:
        xs = []
        kind = "empty"
    else:
        xs = [rng.randint(-1000, 1000) / 64.0 + rng.choice([0.0, 1.0 / 3.0, 0.1]) for _ in range(N)]
        kind = "generic"
    sc = rng.choice([1.0] * 5 + mc.SCALES)
    return {"kind": kind, "xs": [fx(x * sc) for x in xs]}


def hist_case_ok(case):
    xs = [fr(x) for x in case["xs"]]
    if case["kind"] == "dyadic-edges":
        return True
    return not mc.near_edge(xs, eps=Fraction(1, 10 ** 9))


def run_hist(case):
    xs = np.array([float.fromhex(x) for x in case["xs"]], dtype=float)
    n, edges = np.histogram(xs, bins=100)
    return [int(v) for v in n], [fx(e) for e in edges]


# =====================================================================================================
# (ii) operation histories
# =====================================================================================================
VALID_CONF = [["float", fx(1.0)], ["float", fx(0.5)], ["float", fx(0.75)], ["float", fx(0.25)], ["float", fx(0.875)],
              ["float", fx(0.9375)], ["float", fx(2.0 ** -10)], ["float", fx(0.0)], ["int", 1], ["int", 0], ["bool", True],
              ["float", fx(0.625)], ["float", fx(0.3125)],
              ["np", "float64", fx(0.5)], ["np", "float32", fx(0.75)], ["np", "float16", fx(0.25)], ["fraction", 1, 4],
              ["fraction", 7, 8], ["np", "int64", 1]]
BAD_CONF = [["decimal", "0.5"], ["np", "bool_", 1], ["np", "float64", fx(1.5)], ["fraction", 3, 2], ["float", fx(1.5)], ["float", fx(-0.25)], ["str", "0.5"], ["none"], ["list", [["float", fx(0.5)]]], ["int", 2],
            ["int", -1]]
FALSY_CONF = [["int", 0], ["float", fx(0.0)], ["none"], ["str", ""], ["bool", False], ["tuple", []]]


def dy(rng, lo, hi, bits=4):
    s = 2 ** bits
    if hi < lo:
        lo, hi = hi, lo
    return rng.randint(int(math.floor(lo * s)), int(math.ceil(hi * s))) / float(s)


def gen_range_args(rng, sess):
    raw = sess.raw()
    if raw:
        lo0, hi0 = min(raw), max(raw)
    else:
        lo0, hi0 = -4.0, 4.0
    span = hi0 - lo0
    if span <= 0:
        span = max(abs(lo0), 2.0 ** -40) / 2
    grid = 2.0 ** (math.floor(math.log2(span)) - 4)       # boundaries on a dyadic grid matched to the size of the data
    a = math.floor((lo0 - 0.2 * span) / grid + rng.randint(0, 13)) * grid
    b = a + rng.randint(0, 20) * grid
    r = rng.random()
    def num(x):
        r_ = rng.random()
        if r_ < 0.1:
            return ["np", "float64", fx(x)]
        return ["float", fx(x)] if r_ < 0.8 or x != int(x) else ["int", int(x)]
    if r < 0.6:
        return [num(a), num(b)]
    if r < 0.72:
        return []
    if r < 0.76:       # a very narrow or empty window
        c = math.floor(lo0 / grid + rng.randint(0, 16)) * grid
        return [num(c), num(c + rng.choice([0.0, grid]))]
    if r < 0.8:
        return [num(a), num(b), ["int", 7]]
    bad = rng.randrange(6)
    if bad == 0:
        return [["tuple", [num(a), num(b)]]]
    if bad == 1:
        return [num(b + 1.0), num(a)]
    if bad == 2:
        return [["str", "a"], num(b)]
    if bad == 3:
        return [["none"], num(b)]
    if bad == 4:
        return [num(a)]
    return [num(a), ["str", "b"]]


def gen_custom(rng):
    r = rng.random()
    v = rng.choice([["float", fx(dy(rng, -8, 8))], ["int", rng.randint(-5, 5)], ["bool", True],
                    ["np", "float64", fx(dy(rng, -8, 8))], ["fraction", rng.randint(-9, 9), 4], ["np", "int32", rng.randint(-5, 5)]])
    if r < 0.65:
        e = rng.choice([["float", fx(dy(rng, 0, 4))], ["int", rng.randint(0, 3)], ["float", fx(0.0)], ["bool", False],
                        ["np", "float32", fx(dy(rng, 0, 4))], ["fraction", rng.randint(0, 9), 8]])
        return v, e
    bad = rng.randrange(4)
    if bad == 0:
        return ["str", "x"], ["int", 1]
    if bad == 1:
        return v, ["str", "y"]
    if bad == 2:
        return v, ["float", fx(-0.5)]
    return ["none"], ["none"]


OPS_W = [("read_value", 18), ("read_error", 14), ("set_conf", 8), ("set_range", 9), ("use_mode", 9), ("use_mean_std", 5),
         ("use_custom", 7), ("set_size", 7), ("reset_size", 2), ("recalc", 4), ("samples", 6), ("inspect", 5), ("mutate", 4),
         ("set_gsize", 2), ("set_src", 3), ("sibling", 2)]


TINY_W = [("read_value", 20), ("read_error", 12), ("recalc", 10), ("set_size", 8), ("reset_size", 4), ("samples", 8),
          ("inspect", 4), ("use_mode", 5), ("use_mean_std", 4), ("use_custom", 3), ("set_conf", 3), ("set_gsize", 4)]


def gen_op(rng, sess, case):
    table = TINY_W if case.get("tiny") else OPS_W
    names = [n for n, _ in table]
    t = rng.choices(names, weights=[w for _, w in table])[0]
    if case.get("tiny") and t == "set_size":
        return [t, ["int", rng.choice([0, 1, 2, 3])]]
    if case.get("tiny") and t == "set_gsize":
        return [t, rng.choice([1, 2, 3, 4])]
    if case["ops"] and rng.random() < 0.08:
        prev = case["ops"][-1]              # the same request (valid or invalid) offered twice in a row
        if prev[0] != "mutate":
            return list(prev)
    if t in ("read_value", "read_error", "use_mean_std", "reset_size", "recalc", "samples", "inspect", "sibling"):
        return [t]
    if t == "set_conf":
        return [t, rng.choice(VALID_CONF) if rng.random() < 0.7 else rng.choice(BAD_CONF)]
    if t == "set_range":
        return [t, gen_range_args(rng, sess)]
    if t == "use_mode":
        r = rng.random()
        if r < 0.4:
            return [t, ["noarg"]]
        if r < 0.75:
            return [t, rng.choice(VALID_CONF)]
        if r < 0.85:
            return [t, rng.choice(FALSY_CONF)]
        return [t, rng.choice(BAD_CONF + [["str", "x"]])]
    if t == "use_custom":
        v, e = gen_custom(rng)
        return [t, v, e]
    if t == "set_size":
        if rng.random() < 0.72:
            return [t, ["int", rng.choice([0, 1, 2, 3, 5, 8] if case.get("small") else [0, 1, 2, 3, 5, 8, 16, 33, 64])]]
        return [t, rng.choice([["int", -1], ["float", fx(2.5)], ["str", "8"], ["none"], ["float", fx(8.0)],
                               ["np", "float64", fx(8.0)], ["fraction", 8, 1], ["decimal", "8"]])]
    if t == "mutate":
        cands = [(j, len(a)) for j, a in enumerate(sess.handed) if len(a) > 0]
        if not cands:
            return ["samples"]
        j, n = rng.choice(cands)
        return [t, j, rng.randrange(n), fx(dy(rng, -100, 100))]
    if t == "set_gsize":
        return [t, rng.choice([4, 6, 8, 12] if case.get("small") else [4, 6, 8, 12, 20, 32, 48])]
    if t == "set_src":
        singles = [i for i, s in enumerate(case["sources"]) if s["kind"] == "single"]
        if not singles:
            return ["read_value"]
        return [t, rng.choice(singles), fx(dy(rng, -6, 6, 3)), fx(rng.choice([0.0, 0.25, 0.5, 1.0, 2.0]))]
    raise ValueError(t)


def as_fraction(x):
    """exact value of a confidence level of any accepted number type"""
    if isinstance(x, (Fraction, int)) and not isinstance(x, bool):
        return Fraction(x)
    return Fraction(float(x))


def sensitive_now(sess, exact_formula):
    """rounding-sensitive situations that the exact model cannot be expected to reproduce"""
    raw = sess.raw()
    xr = sess.ev.settings.xrange
    try:
        bounds = (float(xr[0]), float(xr[1])) if xr else None
    except (TypeError, ValueError, IndexError):
        bounds = None                 # not a pair of numbers (left behind by a rejected request): nothing to judge here
    if bounds and not exact_formula:      # a sample within rounding distance of a range boundary
        big = max([abs(x) for x in raw] + [0.0])
        for x in raw:
            for b in bounds:
                if abs(x - b) <= 1e-9 * max(big, abs(b)):
                    return "near-range-boundary"
    if sess.strategy() != "Mode":
        return None
    xs = [Fraction(x) for x in raw]
    conf = sess.ev.settings.confidence
    conf_model = Fraction(17, 25) if (isinstance(conf, float) and conf == 0.68) else as_fraction(conf)
    if not mc.threshold_agrees(conf, conf_model, len(raw)):
        return "threshold"
    if raw:
        try:
            n, _ = np.histogram(np.array(raw), bins=100)
        except ValueError:      # samples one ulp apart: numpy cannot make 100 bins (equal in exact arithmetic)
            return "histogram-degenerate-range"
        if [int(v) for v in n] != mc.exact_hist(xs)[0]:
            return "histogram"
        if not exact_formula and mc.near_edge(xs, eps=Fraction(1, 10 ** 9)):
            return "near-edge"
    return None


def gen_history_case(rng, seed, corr_profile=False):
    k = rng.choice([1, 1, 2, 2, 3])
    allow_div = rng.random() < 0.35
    sources, scaled = mc.gen_sources(rng, k)
    tiny = rng.random() < 0.15
    if tiny:    # sqrt of a value near 0 with 1-3 draws: whole simulations are undefined, the next one is not
        k = 1
        sources = [{"kind": "single", "value": fx(rng.choice([0.0, 0.25, -0.25, 0.5])), "error": fx(1.0)}]
    # readings-based sources carry 53-bit uncertainties: keep the exact arithmetic of the model small for them
    small = any(s["kind"] == "repeated" for s in sources)
    if small:
        allow_div = False
    case = {"seed": seed, "okind": rng.choice(mc.OFFSET_KINDS), "g": rng.choice([8, 12] if small else [8, 12, 16, 24, 32, 48]),
            "sources": sources, "corr": [], "small": small,
            "defs": mc.gen_defs(rng, k, allow_div=allow_div, depth=2 if small else 3),
            "method": rng.choice(["global", "own", "global-str", "own-str"]), "ops": [], "pre_read": rng.random() < 0.3,
            "dirty": rng.random() < 0.25}
    if tiny:
        case["defs"] = [rng.choice([["sqrtsq", ["var", 0]], ["add", ["sqrtsq", ["var", 0]], ["cst", fx(1.0)]],
                                    ["mul", ["sqrtsq", ["var", 0]], ["var", 0]]])]
        case["g"] = rng.choice([1, 2, 3])
        case["tiny"] = True
        case["okind"] = rng.choice(["uniform", "coarse", "two"])
    if allow_div and rng.random() < 0.5:
        case["okind"] = "coarse"
    exact_formula = not any(mc.tree_has(d, "div", case["defs"]) or mc.tree_has(d, "sqrtsq", case["defs"])
                            for d in case["defs"]) and \
        all(s["kind"] == "single" for s in case["sources"]) and not scaled
    script = mc.Script(seed, case["okind"])
    obs, why = [], None
    with mc.patched_normal(script):
        try:
            sess = mc.Session(case, script)
            prelude = len(script.calls)
            for _ in range(rng.randint(5, 26)):
                o = gen_op(rng, sess, case)
                case["ops"].append(o)
                obs.append(sess.step(o))
                if obs[-1][0] == ["exn", "Timeout"]:      # the implementation does not return: the history ends here
                    break
                if o[0] in ("read_value", "read_error"):
                    why = why or sensitive_now(sess, exact_formula)
        finally:
            mc.reset_globals()
    run0 = {"obs": obs, "srcs": sess.src_snapshot}
    if not why and mc.ill_conditioned(case, run0):
        why = "ill-conditioned"
    run = {"obs": obs, "calls": script.calls[prelude:], "order": sess.order, "pos": sess.pos, "srcs": sess.src_snapshot,
           "corr": sess.corr_matrix}
    return case, run, why


def history_features(case, run):
    """branch tags exercised by a history (measured from the observations, not assumed)"""
    tags = set()
    strat = "MeanStd"
    for o, (ob, w1, w2) in zip(case["ops"], run["obs"]):
        if ob[0] == "exn":
            tags.add("exn:" + o[0])
        if o[0] == "inspect" and ob[0] == "info":
            strat = ob[3]
            if ob[4] is not None:
                tags.add("range-set")
        if o[0] in ("read_value", "read_error") and ob[1] is None:
            tags.add("undefined-result")
        if o[0] == "samples" and not ob[1]:
            tags.add("empty-sample-set")
        if w2:
            tags.add("warn10")
        tags.add(o[0])
    if len(run["calls"]) > len(run["order"]):
        tags.add("redraw")
    if case.get("pre_read") and len(case["defs"]) > 1:
        tags.add("intermediate-read-before-use")
    if case.get("dirty"):
        tags.add("session-after-other-simulation")
    big = max([abs(float.fromhex(v)) for v, _, _ in run["srcs"]] + [0.0])
    if big and (big < 1e-6 or big > 1e6):
        tags.add("scaled-data")
    for o in case["ops"]:
        if any(isinstance(a, list) and a and a[0] in ("np", "fraction", "decimal") for a in o[1:]) or \
                (o[0] == "set_range" and any(a[0] in ("np", "fraction", "decimal") for a in o[1])):
            tags.add("numpy/Fraction/Decimal-argument")
    return tags


# =====================================================================================================
# correspondence
# =====================================================================================================
def correspondence(ctx):
    res = CorrResult()
    rng = ctx.rng
    shards, index = [], []

    # (i) direct tie of find_mode_and_uncertainty
    mode_cases = small_scope_mode_cases() + [gen_mode_case(rng) for _ in range(ctx.n(2000, 40000))]
    mode_obs = []
    TIMEOUTS[0] = 0
    for c in list(mode_cases):
        ob = run_find_mode(c)
        if ob == ["skipped"]:
            mode_cases.remove(c)
            res.count("mode:skipped-after-timeouts")
            continue
        mode_obs.append(ob)
        res.evaluations += 1
        res.count("mode:" + c["shape"] + (":conf=1" if float.fromhex(c["conf"]) == 1.0 else ""))
        n = c["n"]
        m = max(range(len(n)), key=lambda i: (n[i], -i))
        if ob[0] == "ok" and float.fromhex(ob[2]) > 0:
            res.nontrivial.add(core.canonical_key("m", [c["n"], c["conf"]]))
        if m == 0:
            res.count("mode-bin:first")
        elif m == len(n) - 1:
            res.count("mode-bin:last")
    per = 400
    for k in range(0, len(mode_cases), per):
        intern = Interner()
        body = coq_list([coq_mode_case(c, ob, intern) for c, ob in zip(mode_cases[k:k + per], mode_obs[k:k + per])])
        shards.append(mc.HEADER + intern.text() + "Definition cases := {}.\n"
                      "Eval vm_compute in (bad_indices check_mode cases).\n".format(body))
        index.append(("mode", k))

    # numpy.histogram against exact binning
    hist_cases, dropped_h = [], 0
    while len(hist_cases) < ctx.n(150, 1500):
        c = gen_hist_case(rng)
        if not hist_case_ok(c):
            dropped_h += 1
            continue
        hist_cases.append(c)
    hist_obs = [run_hist(c) for c in hist_cases]
    for c in hist_cases:
        res.evaluations += 1
        res.count("hist:" + c["kind"])
    for k in range(0, len(hist_cases), 50):
        body = coq_list(["({}, {}, {}, {})".format(
            mc.coq_atol(max([abs(float.fromhex(x)) for x in c["xs"]] + [0.0]) or 1.0),
            coq_list([mc.cq(x) for x in c["xs"]]), coq_list([zlit(v) for v in n]),
                                               coq_list([mc.cq(e) for e in edges]))
                         for c, (n, edges) in zip(hist_cases[k:k + 50], hist_obs[k:k + 50])])
        shards.append(mc.HEADER + "Definition cases := {}.\nEval vm_compute in (bad_indices check_hist cases).\n".format(body))
        index.append(("hist", k))

    # (ii) operation histories (corpus of earlier disagreements first)
    hist_runs, dropped = [], {}
    for c in load_corpus():
        if c.get("kind") == "history":
            hist_runs.append((c["case"], mc.run_case(c["case"])))
    target = ctx.n(200, 3000)
    seedbase = rng.getrandbits(48)
    i = 0
    while len(hist_runs) < target and i < 3 * target:
        i += 1
        case, run, why = gen_history_case(rng, "{}-{}".format(seedbase, i))
        if why:
            dropped[why] = dropped.get(why, 0) + 1
            continue
        hist_runs.append((case, run))
    for case, run in hist_runs:
        res.evaluations += 1
        res.traces += 1
        tags = history_features(case, run)
        for t in tags:
            res.count("history:" + t)
        res.count("history:sources={}".format(len(run["order"])))
        if len(tags & {"redraw", "range-set", "use_custom", "use_mode"}) >= 2:
            res.nontrivial.add(core.canonical_key("h", case))
    hs, hidx = mc.history_shards(hist_runs, per=25)
    for s, k in zip(hs, hidx):
        shards.append(s)
        index.append(("history", k))

    bads, logs = coq.run_case_files(ID, shards, keep=getattr(ctx, "keep_cases", False))
    total_bad = sum(len(b[0]) for b in bads if b)
    res.extra["disagreeing_cases_total"] = total_bad
    per_kind = {}
    for (kind, base), bad, log in zip(index, bads, logs):
        if bad is not None:      # report at most 6 disagreements per kind (the total is in the evidence)
            keep = max(0, 6 - per_kind.get(kind, 0))
            per_kind[kind] = per_kind.get(kind, 0) + len(bad[0])
            bad = [bad[0][:keep]]
        if bad is None:
            res.disagreements.append({"name": "case file did not evaluate ({} shard at {}): {}".format(
                kind, base, log.strip().split("\n")[-1][:200]), "case": None})
            continue
        for j in bad[0]:
            if kind == "mode":
                res.disagreements.append({"name": "Model.MC.find_mode vs utils.find_mode_and_uncertainty", "kind": "mode",
                                          "case": dict(mode_cases[base + j], observed=mode_obs[base + j])})
            elif kind == "hist":
                res.disagreements.append({"name": "Model.MC.hist vs numpy.histogram", "kind": "hist",
                                          "case": hist_cases[base + j]})
            else:
                res.disagreements.append({"name": "Model.MC.step vs MonteCarloEvaluator/MonteCarloSettings",
                                          "kind": "history", "case": hist_runs[base + j][0]})
    res.exhaustive = True
    res.rule = ("(i) find_mode_and_uncertainty called directly on count vectors: ALL vectors of length 1-4 over {0,1,2} x "
                "confidence {1/4,1/2,3/4,1} (exhaustive small scope) plus random vectors of length 1-150 (mostly 100) in 11 "
                "shapes (mode in first / last bin, plateaus, zeros, two equal maxima ...) with dyadic edges and confidences "
                "1, 2^-20, k/64, 0, count/total and decimal levels whose float product does not round across an integer; "
                "(ii) numpy.histogram(bins=100) against exact bin membership (dyadic edges with samples on the edges, equal "
                "samples, empty, generic); (iii) histories of 5-26 operations (reads, confidence, range, strategies, custom "
                "pairs, sample sizes, recalculate, samples(), mutation of returned arrays, global size, source edits; ~30% "
                "malformed arguments) on formulas of 1-3 sources with numpy.random.normal replaced by recorded dyadic "
                "offsets. non-trivial = a find_mode case whose walk makes at least one step, or a history exercising at "
                "least two of redraw / range / custom / mode")
    res.samples = [{"find_mode": dict(mode_cases[-1], observed=mode_obs[-1])},
                   {"history": {k: hist_runs[-1][0][k] for k in ("sources", "defs", "g", "ops")}}]
    res.extra["dropped_rounding_sensitive"] = dict(dropped, histogram_cases=dropped_h)
    res.extra["small_scope_mode_cases"] = len(small_scope_mode_cases())
    return res


# =====================================================================================================
# the property-level oracle (independent of the Coq model)
# =====================================================================================================
def check_mode_oracle(case):
    """find_mode_and_uncertainty against brute force: centre of the FIRST fullest bin, smallest covering k"""
    n = case["n"]
    bins = [fr(b) for b in case["bins"]]
    conf = fr(case["conf"])
    if not mc.threshold_agrees(float(conf), conf, sum(n)):
        return None
    ob = run_find_mode(case)
    if ob[0] == "skipped":
        return None
    if ob[0] == "timeout":
        return "find_mode_and_uncertainty does not return for counts {} and confidence {}".format(n, float(conf))
    if ob[0] == "exn":
        return "find_mode_and_uncertainty raises {} for counts {} and confidence {}".format(ob[1], n, float(conf))
    m, k = mc.brute_mode(n, conf)
    centre = (bins[m] + bins[m + 1]) / 2
    w = bins[m + 1] - bins[m]
    v, e = fr(ob[1]), fr(ob[2])
    tol = Fraction(1, 10 ** 9)
    if abs(v - centre) > tol * (1 + abs(centre)):
        return "value {} is not the centre {} of the fullest bin {} (counts {})".format(float(v), float(centre), m, n)
    if abs(e - k * w) > tol * (1 + abs(k * w)):
        return ("uncertainty {} is not k*binwidth = {}*{} with k the smallest number of bins around bin {} holding "
                "{} of {} samples (counts {})".format(float(e), k, float(w), m, float(conf), sum(n), n))
    return None


def shrink_mode_case(case):
    def fails(c):
        return check_mode_oracle(c) is not None
    c = dict(case)
    # shorten the vector from either end, then lower the counts
    changed = True
    while changed and len(c["n"]) > 1:
        changed = False
        for cut in ("tail", "head"):
            if len(c["n"]) <= 1:
                break
            if cut == "tail":
                cand = dict(c, n=c["n"][:-1], bins=c["bins"][:-1])
            else:
                cand = dict(c, n=c["n"][1:], bins=c["bins"][1:])
            try:
                if fails(cand):
                    c, changed = cand, True
            except Exception:  # noqa
                pass
    for i in range(len(c["n"])):
        for v in (0, 1):
            if c["n"][i] > v:
                cand = dict(c, n=c["n"][:i] + [v] + c["n"][i + 1:])
                try:
                    if fails(cand):
                        c = cand
                        break
                except Exception:  # noqa
                    pass
    return c


class Tracker:
    """what the property text lets a user expect, tracked alongside the implementation"""

    def __init__(self):
        self.custom = None


def exact_mean_var(xs):
    n = len(xs)
    if n == 0:
        return None, None
    m = sum(xs) / n
    if n == 1:
        return m, None
    return m, sum((x - m) ** 2 for x in xs) / (n - 1)


def close(a, b, tol=Fraction(1, 10 ** 8), scale=Fraction(1)):
    """relative comparison; the absolute slack is tied to the size of the data ([scale]), never a fixed number"""
    return abs(a - b) <= tol * (abs(a) + abs(b)) + tol * scale / 1000


def check_reported(sess, S):
    """value / error of the derived value against brute-force recomputation from the retrieved samples S"""
    r = sess.res
    try:
        with mc.time_limit(0.75):
            v1, e1 = r.value, r.error
            v2, e2 = r.value, r.error
    except TimeoutError:
        return "reading value / error does not return (strategy {}, confidence {})".format(
            sess.ev.settings.strategy, sess.ev.settings.confidence)
    except ValueError as ex:
        if "Too many bins" in str(ex):
            # a sample set only a few ulps wide (e.g. 2^30 + tiny spread): 100 equal-width bins do not exist in double
            # precision, numpy refuses; outside what the property can mean by "100 equal-width histogram bins"
            return None
        raise
    same = lambda a, b: (mc.num_obs(a) == mc.num_obs(b))
    if not (same(v1, v2) and same(e1, e2)):
        return "repeated reads differ: ({}, {}) then ({}, {})".format(v1, e1, v2, e2)
    m = r.mc
    strat, conf, xr = mc.STRAT[m.strategy], m.confidence, m.xrange
    if xr:
        try:
            ok_ = len(xr) == 2 and float(xr[0]) <= float(xr[1])
        except (TypeError, ValueError):
            ok_ = False
        if not ok_:
            return "the configured range reads back as {!r}, which is not a range".format(xr)
    xs = [Fraction(float(x)) for x in S]
    sc = max([abs(x) for x in xs] + [Fraction(0)]) or Fraction(1)
    v, e = mc.num_obs(v1), mc.num_obs(e1)
    if strat == "Custom":
        if sess.tracker.custom is None:
            return "custom strategy reports ({}, {}) although no custom pair is in force".format(v1, e1)
        cv, ce = sess.tracker.custom
        if v is None or e is None or fr(v) != Fraction(float(cv)) or fr(e) != Fraction(float(ce)):
            return "custom pair ({}, {}) was set but ({}, {}) is reported".format(cv, ce, v1, e1)
        return None
    if strat == "MeanStd":
        if xr:
            xs = [x for x in xs if Fraction(xr[0]) <= x <= Fraction(xr[1])]
        mean, var = exact_mean_var(xs)
        if (mean is None) != (v is None) or (mean is not None and not close(fr(v), mean, scale=sc)):
            return "value {} is not the mean {} of the {} retrievable samples{}".format(
                v1, None if mean is None else float(mean), len(xs), " inside the range {}".format(xr) if xr else "")
        # conditioning-aware: relative to the variance itself, apart from the second-order effect of the rounded mean
        if (var is None) != (e is None) or \
                (var is not None and abs(fr(e) ** 2 - var) > var / 10 ** 7 + (sc / 10 ** 13) ** 2):
            return "uncertainty {} is not the sample standard deviation {} (ddof=1) of the {} retrievable samples{}".format(
                e1, None if var is None else math.sqrt(var), len(xs), " inside the range {}".format(xr) if xr else "")
        return None
    # mode: numpy's own histogram of the retrieved samples, brute force over k
    arr = np.array([float(x) for x in S], dtype=float)
    try:
        n, bins = np.histogram(arr, bins=100)
    except ValueError:
        return None
    n = [int(c) for c in n]
    cf = as_fraction(conf)
    if not mc.threshold_agrees(conf, cf, sum(n)):
        return None
    mm, k = mc.brute_mode(n, cf)
    centre = (Fraction(float(bins[mm])) + Fraction(float(bins[mm + 1]))) / 2
    w = Fraction(float(bins[mm + 1])) - Fraction(float(bins[mm]))
    if v is None or not close(fr(v), centre, scale=sc):
        return "mode strategy: value {} is not the centre {} of the fullest histogram bin ({}) of the retrievable samples".format(
            v1, float(centre), mm)
    if e is None or not close(fr(e), k * w, scale=sc):
        return ("mode strategy: uncertainty {} is not {} bin widths ({}), the smallest number around bin {} holding {} of the "
                "{} samples".format(e1, k, float(k * w), mm, float(conf), sum(n)))
    return None


PRESERVING = {"read_value", "read_error", "set_conf", "set_range", "use_mode", "use_mean_std", "use_custom", "samples",
              "inspect", "mutate", "set_gsize", "sibling"}


def settings_snapshot(sess):
    """range, confidence, strategy, sample size as the public API reads them back"""
    m = sess.res.mc
    xr = m.xrange
    try:
        rng_ = tuple(float(x) for x in xr) if xr else ()
    except (TypeError, ValueError):
        rng_ = repr(xr)             # whatever was left there
    return (rng_, float(m.confidence), mc.STRAT[m.strategy], int(m.sample_size))


def check_history_oracle(case, total_formula=None):
    """replays a history and checks after every operation what the property promises; returns None or a description"""
    import warnings
    with warnings.catch_warnings():
        warnings.simplefilter("ignore")
        return _check_history_oracle(case, total_formula)


def _check_history_oracle(case, total_formula=None):
    script = mc.Script(case["seed"], case["okind"])
    with mc.patched_normal(script):
        try:
            sess = mc.Session(case, script)
            sess.tracker = Tracker()
            k = len(sess.order)
            if total_formula is None:
                total_formula = not any(mc.tree_has(d, "div", case["defs"]) or mc.tree_has(d, "sqrtsq", case["defs"])
                                        for d in case["defs"])
            S_prev, calls_prev, expect_redraw = None, len(script.calls), True
            size_at_draw = None
            import qexpy as q
            rejected_since_fresh = False
            own_expected = 0            # the per-quantity size the USER configured (0 = none): tracked here, not read back
            glob_expected = q.get_settings().monte_carlo_sample_size
            for idx, o in enumerate(case["ops"]):
                # the size a redraw triggered by this operation will use
                eff_before = own_expected if own_expected else glob_expected
                if o[0] == "mutate" and (o[1] >= len(sess.handed) or o[2] >= len(sess.handed[o[1]])):
                    continue
                settings_call = o[0] in ("set_conf", "set_range", "use_mode", "use_custom", "set_size")
                before = settings_snapshot(sess) if settings_call else None
                ob, wpd, w10 = sess.step(o)
                if settings_call and ob[0] == "exn" and ob[1] != "Timeout":
                    after = settings_snapshot(sess)
                    if after != before:
                        diff = [n_ for n_, x_, y_ in zip(("range", "confidence", "strategy", "sample size"), before, after)
                                if x_ != y_]
                        return ("step {} {}: the request was rejected ({}) but changed the {}: {} before, {} after".format(
                            idx, o, ob[1], " and ".join(diff), before, after))
                    rejected_since_fresh = True
                if ob == ["exn", "Timeout"]:
                    return "step {} {}: the call does not return".format(idx, o)
                ok = ob[0] != "exn"
                if o[0] == "set_size" and ok:
                    own_expected = pv_num(o[1])
                elif o[0] == "reset_size":
                    own_expected = 0
                elif o[0] == "set_gsize":
                    glob_expected = o[1]
                if o[0] == "use_custom":
                    if ok:
                        sess.tracker.custom = (pv_num(o[1]), pv_num(o[2]))
                if o[0] == "samples":
                    arr = sess.handed[-1]
                    if sess.ev.raw_samples is arr or np.shares_memory(arr, sess.ev.raw_samples):
                        return "step {}: samples() returned the stored array itself, not a copy".format(idx)
                # observe the stored sample set through the public API
                S = sess.res.mc.samples()
                calls_now = len(script.calls)
                drew = calls_now > calls_prev
                if drew:
                    size_at_draw = None
                if o[0] in PRESERVING and not expect_redraw and S_prev is not None and len(S_prev) > 0:
                    if drew or len(S) != len(S_prev) or any(a != b for a, b in zip(S, S_prev)):
                        return ("step {} {}: the stored sample set changed although only confidence / range / strategy / "
                                "reads were involved".format(idx, o))
                if o[0] in ("recalc", "reset_size") or (o[0] == "set_size" and ok):
                    if not drew:
                        return "step {} {}: no new samples were drawn".format(idx, o)
                    want = own_expected if own_expected else glob_expected
                    if total_formula and len(S) != want:
                        return ("step {} {}: {} samples retrieved, configured size is {} ({}, global size {})".format(
                            idx, o, len(S), want,
                            "per-quantity size {}".format(own_expected) if own_expected else "no per-quantity size",
                            glob_expected))
                    shown = sess.res.mc.sample_size
                    if shown != want:
                        return "step {} {}: mc.sample_size reads {}, configured size is {} ({}, global size {})".format(
                            idx, o, shown, want,
                            "per-quantity size {}".format(own_expected) if own_expected else "no per-quantity size",
                            glob_expected)
                    if calls_now - calls_prev < k:
                        return "step {} {}: fewer than {} source draws".format(idx, o, k)
                why = check_reported(sess, S)
                if why:
                    return "step {} {}: {}".format(idx, o, why)
                S2 = sess.res.mc.samples()
                if len(S2) != len(S) or any(a != b for a, b in zip(S, S2)):
                    return "step {} {}: reading value and error changed the stored sample set".format(idx, o)
                S_prev, calls_prev, expect_redraw = S, len(script.calls), False
        finally:
            mc.reset_globals()
    return None


def pv_num(j):
    if j[0] == "float":
        return float.fromhex(j[1])
    if j[0] == "bool":
        return int(j[1])
    if j[0] in ("np", "fraction", "decimal"):
        return mc.to_py(j)
    return j[1]


def gen_oracle_case(rng, seed):
    """histories for the oracle: total formulas (so that sizes are checkable), larger samples, real or scripted offsets"""
    k = rng.choice([1, 1, 2, 3])
    shape = rng.choice(["generic", "generic", "square", "negsquare", "product"])
    if shape == "square":         # right-skewed: mode in the first bins
        defs = [["mul", ["var", 0], ["var", 0]]]
        k = 1
    elif shape == "negsquare":    # left-skewed: mode in the last bins
        defs = [["neg", ["mul", ["var", 0], ["var", 0]]]]
        k = 1
    elif shape == "product":
        k = 2
        defs = [["mul", ["var", 0], ["var", 1]]]
    else:
        defs = mc.gen_defs(rng, k, allow_div=False)
    sources, _ = mc.gen_sources(rng, k, repeated_ok=False)
    if shape in ("square", "negsquare"):
        sources = [{"kind": "single", "value": fx(rng.choice([0.0, 0.25, 0.5])), "error": fx(1.0)}]
    case = {"seed": seed, "okind": rng.choice(["real", "real", "uniform", "low", "high", "peak"]),
            "g": rng.choice([50, 200, 1000]), "sources": sources, "corr": [], "defs": defs,
            "method": rng.choice(["global", "own", "global-str", "own-str"]), "ops": [],
            "dirty": rng.random() < 0.3, "pre_read": rng.random() < 0.3}
    ops = []
    for _ in range(rng.randint(3, 14)):
        t = rng.choices(["set_conf", "set_range", "use_mode", "use_mean_std", "use_custom", "set_size", "recalc", "samples",
                         "mutate", "read_value", "reset_size", "set_gsize", "size_pattern"],
                        weights=[5, 4, 6, 3, 3, 4, 2, 3, 3, 2, 2, 2, 2])[0]
        if t == "set_gsize":
            ops.append([t, rng.choice([20, 50, 80, 200, 1000])])
            if rng.random() < 0.3:
                ops.append(["sibling"])
            continue
        if t == "size_pattern":     # un-pin (or pin), change the global size, draw again
            first = rng.choice([["reset_size"], ["set_size", ["int", rng.choice([case["g"], 30, 64])]], ["set_size", ["int", 0]]])
            ops += [first, ["set_gsize", rng.choice([g_ for g_ in (20, 50, 80, 200) if g_ != case["g"]])],
                    rng.choice([["recalc"], ["recalc"], ["reset_size"]])]
            continue
        if t == "set_conf":
            ops.append([t, rng.choice(VALID_CONF + [["float", fx(0.9)], ["float", fx(0.95)]])
                        if rng.random() < 0.85 else rng.choice(BAD_CONF)])
        elif t == "set_range":
            c = float.fromhex(sources[0]["value"])
            a, b = sorted([dy(rng, c - 3, c + 3), dy(rng, c - 3, c + 6)])
            if rng.random() < 0.3:      # a rejected request, then something that makes the next read compute afresh
                bad = rng.choice([[["float", fx(b + 1.0)], ["float", fx(a)]], [["str", "a"], ["float", fx(b)]], [["float", fx(a)]],
                                  [["float", fx(a)], ["none"]], [["tuple", [["float", fx(a)], ["float", fx(b)]]]]])
                ops += [["set_range", bad], ["read_value"],
                        rng.choice([["recalc"], ["use_mode", ["noarg"]], ["use_mean_std"], ["set_conf", ["float", fx(0.5)]]]),
                        ["read_value"]]
                continue
            ops.append([t, rng.choice([[["float", fx(a)], ["float", fx(b)]], [], [["float", fx(-1000.0)], ["float", fx(1000.0)]]])])
        elif t == "use_mode":
            ops.append([t, rng.choice([["noarg"], ["noarg"], ["float", fx(0.9)], ["float", fx(1.0)], ["float", fx(0.5)],
                                       ["float", fx(0.25)]])])
        elif t == "use_custom":
            v, e = gen_custom(rng)
            ops.append([t, v, e])
        elif t == "set_size":
            ops.append([t, ["int", rng.choice([0, 7, 30, 100, 333, 1500])] if rng.random() < 0.85 else ["int", -3]])
        elif t == "mutate":
            ops.append(["samples"])
            ops.append(["mutate", sum(1 for o in ops if o[0] == "samples") - 1, 0, fx(12345.0)])
        else:
            ops.append([t])
    ops += [["samples"], ["mutate", sum(1 for o in ops if o[0] == "samples"), 0, fx(-54321.0)], ["read_value"]]
    case["ops"] = ops
    return case


def range_family():
    """a small deterministic family of range histories that every run checks first: set / read / remove / read and
    set / read / set another / read / remove / read, for the mean-and-std and the mode strategy, offsets from the real
    generator (seeded) and scripted ones: after each step value / error must be the statistics of the retrievable samples
    restricted to the range in force (all of them once the range is removed)"""
    src = lambda v, e: {"kind": "single", "value": fx(v), "error": fx(e)}
    rng_ = lambda a, b: ["set_range", [["float", fx(a)], ["float", fx(b)]]]
    rd = [["read_value"], ["read_error"]]
    out = []
    for okind in ("real", "uniform"):
        for strat in ("mean", "mode"):
            head = [["use_mode", ["float", fx(0.5)]]] if strat == "mode" else []
            for name, body in (
                    ("set-read-remove-read", [rng_(6.5, 7.5)] + rd + [["set_range", []]] + rd),
                    ("read-set-read-remove-read", rd + [rng_(6.75, 8.0)] + rd + [["set_range", []]] + rd),
                    ("set-read-set-another-read-remove-read", [rng_(6.0, 7.0)] + rd + [rng_(7.0, 8.5)] + rd + [["set_range", []]] + rd),
                    ("set-read-rejected(reversed)-read-recalc-read",
                     [rng_(6.5, 7.5)] + rd + [rng_(8.0, 6.0)] + rd + [["recalc"]] + rd),
                    ("rejected(reversed)-read-switch-strategy-read",
                     rd + [rng_(7.5, 6.5)] + rd + [["use_mode", ["noarg"]] if strat == "mean" else ["use_mean_std"]] + rd +
                     [["recalc"]] + rd),
                    ("set-rejected(non-number)-recalc-read",
                     [rng_(6.5, 7.5)] + rd + [["set_range", [["str", "a"], ["float", fx(8.0)]]], ["recalc"]] + rd),
                    ("set-rejected(one tuple)-recalc-read",
                     [rng_(6.5, 7.5), ["set_range", [["tuple", [["float", fx(6.0)], ["float", fx(7.0)]]]]], ["recalc"]] + rd),
                    ("set-read-switch-strategy-remove-read",
                     [rng_(6.5, 7.5)] + rd + [["use_mode", ["noarg"]] if strat == "mean" else ["use_mean_std"]] + rd +
                     [["set_range", []]] + rd + [["use_mean_std"] if strat == "mean" else ["use_mode", ["noarg"]]] + rd)):
                out.append({"seed": "range-family-{}-{}-{}".format(okind, strat, name), "okind": okind, "g": 200 if okind == "real" else 48,
                            "sources": [src(5.0, 0.5), src(2.0, 0.25)], "corr": [], "defs": [["add", ["var", 0], ["var", 1]]],
                            "method": "global", "ops": head + body})
    return out


def search(ctx, suspects, budget):
    t0 = time.time()
    rng = ctx.rng
    out = []
    todo_mode = [s["case"] for s in suspects if s.get("kind") == "mode" and s.get("case")]
    todo_hist = [s["case"] for s in suspects if s.get("kind") == "history" and s.get("case")]
    for c in load_corpus():
        (todo_mode if c.get("kind") == "mode" else todo_hist).append(c["case"])
    todo_hist += range_family()      # suspects first, then the corpus, then the deterministic range histories
    n_mode = n_hist = 0
    seen = set()
    TIMEOUTS[0] = 0
    # find_mode_and_uncertainty against brute force
    pool = small_scope_mode_cases()
    while True:
        if todo_mode:
            c = todo_mode.pop(0)
        elif pool:
            c = pool.pop()
        elif time.time() - t0 > budget * 0.4 or n_mode > ctx.n(1500, 30000):
            break
        else:
            c = gen_mode_case(rng)
        n_mode += 1
        why = check_mode_oracle(c)
        if why:
            small = shrink_mode_case(c)
            why = check_mode_oracle(small) or why
            key = why.split(" for counts")[0][:60] if "raises" in why or "return" in why else why[:40]
            if key in seen:
                continue
            seen.add(key)
            out.append(Violation(ID, "mode", {k: small[k] for k in ("n", "bins", "conf")}, why))
            if len([v for v in out if v.kind == "mode"]) >= 2:
                break
    # histories
    seedbase = rng.getrandbits(48)
    while len(out) < 4:
        if todo_hist:
            c = todo_hist.pop(0)
            total = None
        elif time.time() - t0 > budget or n_hist > ctx.n(60, 1500):
            break
        else:
            c = gen_oracle_case(rng, "o{}-{}".format(seedbase, n_hist))
            total = True
        n_hist += 1
        try:
            why = check_history_oracle(c, total)
        except RuntimeError:
            continue
        if why:
            def fails(ops, c=c, total=total):
                return check_history_oracle(dict(c, ops=ops), total) is not None
            small_ops = shrink_list(c["ops"], fails)
            small = dict(c, ops=small_ops)
            why = check_history_oracle(small, total) or why
            key = why.split(": ", 1)[-1][:50]
            if key in seen:
                continue
            seen.add(key)
            out.append(Violation(ID, "history", small, why))
    ctx.notes.append("oracle: {} find_mode cases, {} histories".format(n_mode, n_hist))
    return out


def load_corpus():
    d = os.path.join(core.VERIF, "corpus", ID)
    out = []
    if os.path.isdir(d):
        for f in sorted(os.listdir(d)):
            if f.endswith(".json"):
                out.append(json.load(open(os.path.join(d, f))))
    return out


def replay(ctx, v):
    if v["kind"] == "mode":
        why = check_mode_oracle(v["case"])
    else:
        why = check_history_oracle(v["case"])
    return Violation(ID, v["kind"], v["case"], why) if why else None
