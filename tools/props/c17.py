"""C17 -- MeasurementArray edits and aggregates match a list-of-pairs model."""
import json
import math
import os
import time
import warnings
from fractions import Fraction

from vlib import core, coq
from vlib.core import CorrResult, Violation, shrink_list
from vlib.coqfmt import qlit, coq_list, coq_option, codepoints, zlit, natlit, Interner

ID = "C17"
MANIFEST = {
    "technique": "Rocq refinement proof (heap of shared element objects + arrays as id lists, abstraction to a Python list "
                 "of (value, uncertainty) pairs commutes with append / insert / delete / item assignment, by induction "
                 "over every finite edit history) + vm_compute correspondence of the model with the implementation on "
                 "random edit histories + independent list-of-pairs / Fraction oracle",
    "level_text": "Machine-checked theorems (C17_constructor, C17_append, C17_insert, C17_delete, C17_setitem, C17_units_names, "
                  "C17_source_unchanged, C17_step, C17_history, C17_aggregates, C17_name_roundtrip, closed under the global context; "
                  "C17_aggregates_R over the reals) about a hand-written "
                  "Gallina model of ExperimentalValueArray's edit methods in which elements are heap objects shared between "
                  "the source array and the result, exactly as numpy object arrays share references. The model is run against "
                  "the implementation on random edit histories (every operand kind, every valid and some invalid indices, "
                  "aliased operands, several arrays sharing elements) comparing values, errors, names, units of ALL arrays "
                  "after every edit, and an independent plain-Python list-of-pairs oracle searches for a concrete failing "
                  "history. Proof is the right level: the property quantifies over all histories, covered by induction.",
    "level_note": "Trusted: Coq kernel; the hand-written model Model/Arrays.v (tied by correspondence only, no translator); "
                  "numpy's append/insert/delete/object-array indexing are oracles (their list semantics is what the model "
                  "assumes); unit strings are tokens (print/parse round trip is C13); float rounding in sqrt/mean/std is "
                  "compared to 1e-9, aggregates are stated on squares in Q.",
    "design_ref": "DESIGN.md section 4 C17",
}
GEN = []
PROPS_FILE = "Props/C17.v"
MODEL_TARGETS = ["Model/ArraysCases.v"]
EXTRA_TARGETS = ["Model/ArraysCases.v"]
TRUSTED = [
    "Model/Arrays.v: hand-written model of append/insert/delete/__setitem__/constructor/aggregates (tied by correspondence)",
    "numpy np.append / np.insert / np.delete / object-array item access (list surgery semantics assumed by the model)",
]
ASSUMPTIONS = [
    "element objects of one array are distinct and edit operands are fresh objects (the same Measurement stored twice aliases: "
    "NoDup hypothesis of C17_setitem / C17_units_names / C17_history)",
    "mean() and std() are quantified over arrays with at least two elements (ddof=1 gives nan for one element)",
    "indices are integers; initial arrays are built from numbers (not from existing ExperimentalValue objects)",
    "unit strings are compared in their printed canonical form, default unit style (round trip is C13)",
    "values are finite dyadic floats; names contain no newline",
]

# ---- vocabulary -------------------------------------------------------------------------------
UNITS = [("", ""), ("m", "m"), ("s", "s"), ("kg*m/s^2", "kg⋅m⋅s^-2"),
         ("kg⋅m^2⋅s^-2", "kg⋅m^2⋅s^-2"), ("m^2", "m^2"), ("V/A", "V⋅A^-1"), ("1/s", "s^-1")]
UNIT_TOKEN = {}
for _i, (_inp, _canon) in enumerate(UNITS):
    UNIT_TOKEN.setdefault(_canon, _i)
CANON = dict(UNITS)
NAMES = ["", "", "x", "len", "t1", "a_b", "v_x2", "m 2", "λ", "_"]
INDEXLIKE_NAMES = ["run_2", "_5", "a_1_2", "x_0"]
EXN = {"ValueError": "ValueError", "TypeError": "TypeError", "IndexError": "IndexError", "KeyError": "KeyError",
       "IllegalArgumentError": "OtherError"}
import decimal as _decimal
BAD = {"decimal": (_decimal.Decimal("1.5"), "TypeError"), "str": ("x", "TypeError"), "none": (None, "TypeError"), "triple": ((1, 2, 3), "TypeError"),
       "pairstr": ((1, "a"), "OtherError"), "nested": ([1, 2], "TypeError"), "dict": ({}, "TypeError")}


def _q():
    import qexpy as q
    return q


def reset_globals():
    q = _q()
    q.reset_correlations()
    q.clear_unit_definitions()
    q.reset_default_configuration()
    import qexpy.data.data as dt
    dt.ExperimentalValue._register.clear()


def unit_token(s):
    return UNIT_TOKEN.get(s, 999)


# a Fraction assigned to an item is stored as it is; once all values are Fractions / ints, std() and mean() raise
# TypeError (np.sqrt of a Fraction) -- reported; until decided, Fraction is not used as the bare number of an item
# assignment (it still is an append / insert operand and a member of pairs, which the library converts to float)
FRACTION_AS_BARE_NUMBER = True
NP_TYPES = ["int64", "int32", "int8", "uint8", "float64", "float32"]


def frac(x):
    """exact rational of a number: JSON form (plain or typed), Python / numpy scalar, Fraction"""
    if isinstance(x, dict):
        return Fraction(x["v"][0], x["v"][1]) if x["t"] == "Fraction" else frac(x["v"])
    if isinstance(x, Fraction):
        return x
    if isinstance(x, bool):
        return Fraction(int(x))
    if isinstance(x, int):
        return Fraction(x)
    f = float(x)
    if f != f or f in (float("inf"), float("-inf")):
        return None
    return Fraction(f)


def num(j):
    """JSON number -> Python object. Plain ints / floats / bools stay what they are;
    {"t": "int64", "v": 5} is the numpy scalar np.int64(5); {"t": "Fraction", "v": [5, 2]} is Fraction(5, 2)
    (all of them are numbers.Real)"""
    if isinstance(j, dict):
        if j["t"] == "Fraction":
            return Fraction(j["v"][0], j["v"][1])
        import numpy as np
        return getattr(np, j["t"])(j["v"])
    return j


# ---- running one session (correspondence format) on the implementation ------------------------------
def build_item(it, pool):
    t = it[0]
    if t == "num":
        return num(it[1])
    if t == "pair":
        return (num(it[1]), num(it[2]))
    if t == "meas":
        return pool[it[1]]
    if t == "bad":
        return BAD[it[1]][0]
    raise ValueError(it)


def build_operand(o, pool, store):
    import numpy as np
    t = o[0]
    if t == "list":
        return [build_item(x, pool) for x in o[1]]
    if t == "ndarray":
        return np.array([float(x) for x in o[1]])
    if t == "arr":
        return store[o[1]]
    return build_item(o, pool)


def build_errspec(sp):
    t = sp[0]
    if t == "none":
        return {}
    if t == "common":
        return {"error": sp[1]}
    if t == "each":
        return {"error": list(sp[1])}
    if t == "rcommon":
        return {"relative_error": sp[1]}
    if t == "reach":
        return {"relative_error": list(sp[1])}
    raise ValueError(sp)


def make_array(spec):
    """spec = [data, errspec, name, unit_in]"""
    q = _q()
    data, sp, name, unit = spec[:4]
    style = spec[4] if len(spec) > 4 else "kw"
    kw = build_errspec(sp)
    if name != "":
        kw["name"] = name
    if unit != "":
        kw["unit"] = unit
    if style == "pos" and "error" in kw:            # MeasurementArray(data, error, ...)
        return q.MeasurementArray(list(data), kw.pop("error"), **kw)
    if style == "data":                              # MeasurementArray(data=..., error=...)
        return q.MeasurementArray(data=list(data), **kw)
    if style == "nd":                                # numpy arrays instead of lists
        import numpy as np
        kw = {k: (np.array(v) if isinstance(v, list) else v) for k, v in kw.items()}
        return q.MeasurementArray(np.array(list(data)), **kw)
    return q.MeasurementArray(list(data), **kw)


def make_meas(spec):
    q = _q()
    v, e, name, unit = spec
    kw = {}
    if name != "":
        kw["name"] = name
    if unit != "":
        kw["unit"] = unit
    return q.Measurement(v, e, **kw)


def exec_op(op, pool, store):
    """returns the exception class name (mapped) or None"""
    try:
        with warnings.catch_warnings():
            warnings.simplefilter("ignore")
            t = op[0]
            if t == "mk":
                store.append(make_array(op[1:]))
            elif t == "meas":
                pool.append(make_meas(op[1:]))
            elif t == "append":
                store.append(store[op[1]].append(build_operand(op[2], pool, store)))
            elif t == "insert":
                store.append(store[op[1]].insert(op[2], build_operand(op[3], pool, store)))
            elif t == "delete":
                store.append(store[op[1]].delete(op[2]))
            elif t == "set":
                store[op[1]][op[2]] = build_operand(op[3], pool, store)
            elif t == "read":
                read_everything(store[op[1]] if op[1] < len(store) else None, pool)
            elif t in ("link", "linkel"):
                link_op(op, pool, store)
            else:
                raise ValueError(op)
        return None
    except Exception as e:  # noqa
        return EXN.get(type(e).__name__, "Crash:" + type(e).__name__ + ":" + str(e)[:80])


def link_op(op, pool, store):
    """declare two measurements correlated: ["link", j1, j2, how, x] user measurements j1, j2;
    ["linkel", k, i1, i2, how, x] two elements of array k; how = "corr" (factor x) | "cov" (x * s1 * s2).
    Not an operation of the arrays: whatever it raises (zero uncertainty ...) is ignored"""
    q = _q()
    try:
        if op[0] == "link":
            a, b, how, x = pool[op[1]], pool[op[2]], op[3], op[4]
        else:
            arr = store[op[1]]
            a, b, how, x = arr[op[2]], arr[op[3]], op[4], op[5]
        if how == "corr":
            q.set_correlation(a, b, x)
        else:
            q.set_covariance(a, b, x * a.error * b.error)
    except Exception:  # noqa
        pass


HARNESS_OPS = ("read", "link", "linkel")


def read_everything(arr, pool=()):
    """evaluate / print an array (and the user's measurements) through every public reading path; must not change
    anything"""
    q = _q()
    import numpy as np
    for m in pool:
        _ = str(m), repr(m), m.value, m.error, m.relative_error, m.name, m.unit
    if arr is None:
        return
    _ = str(arr), repr(arr), arr.values, arr.errors, arr.name, arr.unit, len(arr), list(arr)
    for x in arr:
        _ = str(x), x.value, x.error, x.relative_error, x.std
    if len(arr):
        _ = arr.sum(), q.sum(arr), np.sum(arr), arr[0], arr[-1]
    if len(arr) >= 2:
        _ = arr.mean(), arr.std(), arr.error_on_mean(), q.mean(arr), q.std(arr)
        with warnings.catch_warnings():
            warnings.simplefilter("ignore")
            _ = arr.error_weighted_mean(), arr.propagated_error()


def low_precision(v):
    import numpy as np
    return isinstance(v, np.floating) and v.dtype.itemsize < 8


def low_precision_array(a):
    """are the aggregates of this array computed in less than double precision? (dtype float32, or an object
    array -- values of mixed Python / numpy types -- with float32 members)"""
    dt_ = a.values.dtype
    if dt_.kind == "f" and dt_.itemsize < 8:
        return True
    return dt_.kind == "O" and any(low_precision(x.value) for x in a)


def obs_elem(x):
    return [frac(x.value), frac(x.error), x.name, x.unit]


def obs_state(pool, store):
    return [[obs_elem(x) for x in a] for a in store], [obs_elem(x) for x in pool]


def obs_aggs(store):
    out = []
    with warnings.catch_warnings():
        warnings.simplefilter("ignore")
        for k, a in enumerate(store):
            if len(a) and low_precision_array(a):
                continue      # numpy computes the aggregates of an all-float32 array in float32: not a 1e-9 matter
            s = a.sum()
            rest = None
            if len(a) >= 2:
                m = a.mean()
                rest = [frac(m.value), frac(m.error), frac(a.std())]
                mname, munit = m.name, m.unit
            else:
                mname, munit = ("mean of {}".format(a.name) if a.name else ""), a.unit
            out.append([k, frac(s.value), frac(s.error), rest, s.name, mname, s.unit, munit])
    return out


def run_session(ops):
    reset_globals()
    pool, store, steps = [], [], []
    for op in ops:
        e = exec_op(op, pool, store)
        arrays, pl = obs_state(pool, store)
        steps.append((op, e, arrays, pl))
    return steps, obs_aggs(store)


# ---- generators -------------------------------------------------------------------------------
def bare_ok(o):
    """may this item be the right-hand side of an item assignment?"""
    return FRACTION_AS_BARE_NUMBER or not (o[0] == "num" and isinstance(o[1], dict) and o[1]["t"] == "Fraction")


def gen_bare(rng):
    """the bare number of an item assignment"""
    while True:
        x = gen_num(rng, True)
        if FRACTION_AS_BARE_NUMBER or not (isinstance(x, dict) and x["t"] == "Fraction"):
            return x


# values that coincide across distinct objects (and int / float of equal value), special values
COMMON_VALUES = [0, 1, -1, 2, 2.0, 10, 100, 0.0, 1.0, 0.5]
# every generated value and uncertainty is multiplied by SCALE (a power of two, so the floats stay exact):
# data around 1e-9 / 1e-12 / 1e9 next to the ordinary ones
SCALES = [2.0 ** -30, 2.0 ** -40, 2.0 ** 30]
SCALE = 1


def scaled(x):
    if SCALE == 1:
        return x
    return float(frac(x) * Fraction(SCALE))


def gen_num(rng, allow_bool=False):
    if rng.random() < 0.15:
        return scaled(rng.choice(COMMON_VALUES))
    return scaled(gen_num0(rng, allow_bool))


def gen_num0(rng, allow_bool=False):
    k = rng.randrange(-2 ** 10, 2 ** 10)
    j = rng.choice([0, 0, 1, 2, 3, 4])
    r = rng.random()
    if j == 0 and r < 0.5:
        return k
    if r > 0.97 and allow_bool:
        return True      # a bool is a numbers.Real (not inside array data: numpy turns it into np.bool_)
    if r > 0.72 and allow_bool:
        # every other numbers.Real: numpy scalars (e.g. an item taken from an integer numpy array), Fraction
        t = rng.choice(NP_TYPES + ["Fraction"])
        if t == "Fraction":
            return {"t": t, "v": [k, 2 ** j]}
        if t.startswith("float"):
            return {"t": t, "v": k / 2 ** j}
        if t == "uint8":
            return {"t": t, "v": abs(k) % 200}
        return {"t": t, "v": k % 100 if t == "int8" else k}
    return k / 2 ** j


def gen_err(rng):
    return scaled(gen_err0(rng))


def gen_err0(rng):
    r = rng.random()
    if r < 0.15:
        return 0
    if r < 0.2:
        return 2.0 ** -40        # one tiny uncertainty among ordinary ones
    return rng.randrange(0, 2 ** 6) / 2 ** rng.choice([0, 1, 2, 3, 5])


def gen_perr(rng):
    """the uncertainty inside a (value, error) pair: also as a numpy scalar"""
    e = gen_err(rng)
    r = rng.random()
    if r < 0.1:
        return {"t": "float32", "v": float(e)}
    if r < 0.2:
        return {"t": "float64", "v": float(e)}
    if r < 0.25 and float(e).is_integer():
        return {"t": "int64", "v": int(e)}
    return e


def gen_errspec(rng, n, malformed=False):
    k = rng.randrange(5)
    if malformed:
        m = rng.randrange(4)
        if m == 0:
            return ["each", [gen_err(rng) for _ in range(n + 1)]]
        if m == 1:
            return ["common", -0.5]
        if m == 2 and n:
            l = [gen_err(rng) for _ in range(n)]
            l[rng.randrange(n)] = -1
            return ["each", l]
        return ["reach", [0.5] * (n + 2)]
    if k == 0:
        return ["none"]
    if k == 1:
        return ["common", gen_err(rng)]
    if k == 2:
        return ["each", [gen_err(rng) for _ in range(n)]]
    if k == 3:
        return ["rcommon", rng.choice([0, 0.5, 0.25, 0.125, 1, 2])]
    return ["reach", [rng.choice([0, 0.5, 0.25, 0.125, 1]) for _ in range(n)]]


def gen_name(rng, indexlike=True):
    if indexlike and rng.random() < 0.15:
        return rng.choice(INDEXLIKE_NAMES)
    return rng.choice(NAMES)


def gen_unit(rng):
    return rng.choice(UNITS)[0] if rng.random() < 0.7 else ""


def gen_mk(rng, indexlike=True, malformed=False, minlen=1):
    n = rng.choice([1, 1, 2, 2, 3, 4, 5])
    n = max(n, minlen)
    if rng.random() < 0.1:
        # data that is large against its spread (|mean| / std ~ 1e5): distinct integers around a big offset, so that
        # the two-pass variance stays within the 1e-9 of the model comparison and a cancelling formula does not
        off = rng.choice([10 ** 5, 2 ** 17, 10 ** 6, -(10 ** 5)])
        data = [off + d for d in rng.sample(range(-20, 21), n)]
        return ["mk", data, gen_errspec(rng, n, malformed), gen_name(rng, indexlike), gen_unit(rng)]
    mk = ["mk", [gen_num(rng) for _ in range(n)], gen_errspec(rng, n, malformed), gen_name(rng, indexlike), gen_unit(rng)]
    if rng.random() < 0.3:
        mk.append(rng.choice(["pos", "data", "nd"]))    # other spellings of the same constructor call
    return mk


MEAS_NAMES = ["", "", "mm", "q_3", "x", "len", "x_0", "t1"]      # also names that arrays (and their elements) carry


def gen_meas(rng):
    return ["meas", gen_num(rng), gen_err(rng), rng.choice(MEAS_NAMES), gen_unit(rng)]


class SessionGen:
    """generates a session while running it, so that indices can be aimed at the real lengths"""

    def __init__(self, rng, alias=0.08, malformed=0.12):
        self.rng, self.alias, self.malformed = rng, alias, malformed
        self.ops, self.pool, self.store = [], [], []
        self.used = set()

    def do(self, op):
        e = exec_op(op, self.pool, self.store)
        self.ops.append(op)
        if e is not None and op[0] not in HARNESS_OPS and self.rng.random() < 0.5:
            exec_op(op, self.pool, self.store)        # the same rejected call offered again
            self.ops.append(op)
        return e

    def fresh_meas(self):
        rng = self.rng
        free = [j for j in range(len(self.pool)) if j not in self.used]
        if self.pool and rng.random() < self.alias:
            return rng.randrange(len(self.pool))
        if free and rng.random() < 0.3:
            j = rng.choice(free)
        else:
            self.do(gen_meas(rng))
            j = len(self.pool) - 1
        self.used.add(j)
        return j

    def item(self, allow_bad=True):
        rng = self.rng
        r = rng.random()
        if allow_bad and r < self.malformed / 2:
            return ["bad", rng.choice(sorted(BAD))]
        if allow_bad and r < self.malformed:
            return ["pair", gen_num(rng), -0.5]
        if r < 0.4:
            return ["num", gen_num(rng, True)]
        if r < 0.7:
            return ["pair", gen_num(rng, True), gen_perr(rng)]
        return ["meas", self.fresh_meas()]

    def operand(self, k):
        rng = self.rng
        r = rng.random()
        if r < 0.55:
            return self.item()
        if r < 0.75:
            return ["list", [self.item() for _ in range(rng.choice([0, 1, 2, 2, 3]))]]
        if r < 0.82:
            return ["ndarray", [gen_num(rng) for _ in range(rng.choice([1, 2, 3]))]]
        if self.store and rng.random() < self.alias:
            return ["arr", rng.randrange(len(self.store))]
        self.do(gen_mk(rng, minlen=1))
        return ["arr", len(self.store) - 1]

    def index(self, n, incl_end):
        rng = self.rng
        hi = n if incl_end else n - 1
        if rng.random() < self.malformed or hi < -n:
            return rng.choice([hi + 1, -n - 1, hi + 3, -n - 2])
        return rng.randrange(-n, hi + 1)

    def edit(self):
        rng = self.rng
        if not self.store:
            self.do(gen_mk(rng))
            return
        if rng.random() < 0.15:      # objects are read (evaluated, printed, aggregated) before they are used again
            self.do(["read", rng.randrange(len(self.store))])
        r = rng.random()
        if r < 0.12 and len(self.pool) >= 2:
            # two of the user's measurements (already inside an array, about to enter one, or outsiders) are correlated
            a, b = rng.sample(range(len(self.pool)), 2)
            self.do(["link", a, b, rng.choice(["corr", "cov"]), rng.choice([0.5, -0.5, 0.9, -0.9, 1, 0.25])])
        elif r < 0.2:
            k = rng.randrange(len(self.store))
            if len(self.store[k]) >= 2:
                i, j = rng.sample(range(len(self.store[k])), 2)
                self.do(["linkel", k, i, j, rng.choice(["corr", "cov"]), rng.choice([0.5, -0.5, 0.9, -0.9, 1])])
        k = len(self.store) - 1 if rng.random() < 0.75 else rng.randrange(len(self.store))
        n = len(self.store[k])
        kind = rng.choice(["append", "append", "insert", "insert", "insert", "delete", "delete", "set", "set", "set"])
        if kind == "append":
            o = self.operand(k)
            self.do(["append", k, o])
        elif kind == "insert":
            o = self.operand(k)
            self.do(["insert", k, self.index(n, True), o])
        elif kind == "delete":
            self.do(["delete", k, self.index(n, False)])
        else:
            r = rng.random()
            if r < 0.1:
                o = self.operand(k)
            else:
                o = self.item()
            if not bare_ok(o):
                o = ["num", gen_bare(rng)]
            self.do(["set", k, self.index(n, False), o])


def gen_session(rng, n_edits):
    global SCALE
    reset_globals()
    g = SessionGen(rng)
    SCALE = rng.choice(SCALES) if rng.random() < 0.15 else 1
    try:
        if rng.random() < 0.1:
            g.do(gen_mk(rng, malformed=True))
        g.do(gen_mk(rng))
        for _ in range(n_edits):
            g.edit()
    finally:
        SCALE = 1
    return g.ops


def exhaustive_sessions():
    """small scope: every initial length 1..3 x every edit kind x every index in [-n-1, n+1] x operand kinds"""
    out = []
    operands = [["num", 7], ["pair", 7, 0.5], ["meas", 0], ["list", [["num", 7], ["pair", 8, 0.25]]], ["list", []],
                ["arr", 1], ["bad", "str"], ["pair", 1, -1],
                ["num", {"t": "int64", "v": 7}], ["num", {"t": "float32", "v": 7.5}], ["num", {"t": "Fraction", "v": [15, 2]}],
                ["pair", {"t": "int32", "v": 7}, {"t": "float32", "v": 0.5}], ["num", True]]
    for n in (1, 2, 3):
        base = [["mk", [1.5 * (i + 1) for i in range(n)], ["common", 0.5], "x", "m"],
                ["mk", [10, 20], ["each", [1, 2]], "o", "s"], ["meas", 4, 0.25, "mm", "s"]]
        for i in range(-n - 2, n + 3):
            for o in operands:
                out.append(base + [["insert", 0, i, o], ["set", 0, 0, ["num", 99]]])
                if -n - 1 <= i <= n:
                    if bare_ok(o):
                        out.append(base + [["set", 0, i, o], ["append", 0, ["num", 3]]])
            out.append(base + [["delete", 0, i], ["append", 0, ["pair", 2, 0.5]], ["delete", 0, 0]])
        for o in operands:
            out.append(base + [["append", 0, o], ["append", 0, o], ["delete", 1, -1]])
    return out


# ---- Coq encoding --------------------------------------------------------------------------------
INTERN = None


def I(t):
    return INTERN(t) if INTERN else t


def cq(x):
    return qlit(frac(x))


def cstr(s):
    return I(codepoints(s)) if s else "(@nil N)"


def cunit_in(u):
    return "{}%N".format(unit_token(CANON[u]))


def c_errspec(sp):
    t = sp[0]
    if t == "none":
        return "ENone"
    if t == "common":
        return "(ECommon {})".format(cq(sp[1]))
    if t == "each":
        return "(EEach {})".format(coq_list([cq(x) for x in sp[1]]))
    if t == "rcommon":
        return "(RCommon {})".format(cq(sp[1]))
    return "(REach {})".format(coq_list([cq(x) for x in sp[1]]))


def c_item(it):
    t = it[0]
    if t == "num":
        return "(UNum {})".format(cq(it[1]))
    if t == "pair":
        return "(UPair {} {})".format(cq(it[1]), cq(it[2]))
    if t == "meas":
        return "(UMeas {})".format(natlit(it[1]))
    return "(UBad {})".format(BAD[it[1]][1])


def c_operand(o):
    t = o[0]
    if t == "list":
        return "(UList {})".format(coq_list([c_item(x) for x in o[1]]))
    if t == "ndarray":
        return "(UList {})".format(coq_list(["(UNum {})".format(cq(float(x))) for x in o[1]]))
    if t == "arr":
        return "(UArr {})".format(natlit(o[1]))
    if t == "bad" and o[1] == "nested":      # [1, 2] as the operand itself is a list of two numbers
        return "(UList [UNum 1; UNum 2])"
    return "(UItem {})".format(c_item(o))


def c_op(op):
    t = op[0]
    if t == "mk":
        return "(MkArr {} {} {} {})".format(coq_list([cq(x) for x in op[1]]), c_errspec(op[2]), cstr(op[3]), cunit_in(op[4]))
    if t == "meas":
        return "(NewMeas {} {} {} {})".format(cq(op[1]), cq(op[2]), cstr(op[3]), cunit_in(op[4]))
    if t == "append":
        return "(Append {} {})".format(natlit(op[1]), c_operand(op[2]))
    if t == "insert":
        return "(Insert {} {} {})".format(natlit(op[1]), zlit(op[2]), c_operand(op[3]))
    if t == "delete":
        return "(Delete {} {})".format(natlit(op[1]), zlit(op[2]))
    return "(SetItem {} {} {})".format(natlit(op[1]), zlit(op[2]), c_operand(op[3]))


def c_eobs(e):
    v, err, name, unit = e
    return I("({}, {}, {}, {}%N)".format(qlit(v), qlit(err), cstr(name), unit_token(unit)))


def c_steps(steps):
    """reading is not an operation of the model: the observation after it belongs to the state the model is in"""
    return coq_list([c_step(st) for st in steps if st[0][0] not in HARNESS_OPS])


def c_step(step):
    op, e, arrays, pool = step
    return "({}, {}, {}, {})".format(
        I(c_op(op)), coq_option(e, lambda x: x),
        I(coq_list([I(coq_list([c_eobs(x) for x in a])) if a else "(@nil eobs)" for a in arrays])),
        I(coq_list([c_eobs(x) for x in pool])))


def c_agg(a):
    k, sv, se, rest, sname, mname, sunit, munit = a
    return "({}, {}, {}, {}, {}, {}, {}%N)".format(
        natlit(k), qlit(sv), qlit(se),
        coq_option(rest, lambda r: "({}, {}, {})".format(qlit(r[0]), qlit(r[1]), qlit(r[2]))),
        cstr(sname), cstr(mname), unit_token(sunit) if sunit == munit else 998)


HEADER = ("From Coq Require Import List ZArith QArith Bool.\nImport ListNotations.\n"
          "From QV Require Import Base.Py Base.CaseLib Model.Arrays Model.ArraysCases.\n")


def encodable(steps, aggs):
    """floats that are nan/inf or harness crashes cannot be transmitted"""
    for op, e, arrays, pool in steps:
        if e is not None and e.startswith("Crash"):
            return "crash: " + e
        for a in arrays + [pool]:
            for x in a:
                if x[0] is None or x[1] is None:
                    return "non-finite element"
    for a in aggs:
        if a[1] is None or a[2] is None or (a[3] and any(v is None for v in a[3])):
            return "non-finite aggregate"
    return None


# ---- correspondence --------------------------------------------------------------------------------
def self_test_units():
    q = _q()
    for inp, canon in UNITS:
        got = q.Measurement(1, 0.5, unit=inp).unit if inp else ""
        if got != canon:
            raise RuntimeError("unit table out of date: {!r} prints as {!r}, expected {!r}".format(inp, got, canon))


def correspondence(ctx):
    global INTERN
    res = CorrResult()
    rng = ctx.rng
    self_test_units()
    sessions = []
    corpus = [c["case"] for c in load_corpus() if c.get("kind") == "session"]
    exh = exhaustive_sessions()
    n_rand = ctx.n(300, 5000)
    todo = [("corpus", c) for c in corpus] + [("exhaustive", c) for c in exh]
    for _ in range(n_rand):
        todo.append(("random", None))
    for kind, ops in todo:
        if ops is None:
            ops = gen_session(rng, rng.randrange(3, 14))
        steps, aggs = run_session(ops)
        why = encodable(steps, aggs)
        if why:
            res.disagreements.append({"name": "session cannot be encoded ({})".format(why), "kind": "session", "case": ops})
            continue
        sessions.append((ops, steps, aggs))
        res.evaluations += 1
        res.traces += 1
        res.count("sessions:" + kind)
        ok_edits = 0
        for op, e, _, _ in steps:
            opk = op[0]
            if opk in ("append", "insert", "set"):
                opk += ":" + op[-1][0]
            res.count(opk + ":" + ("ok" if e is None else e))
            if e is None and op[0] in ("append", "insert", "delete", "set"):
                ok_edits += 1
        if ok_edits >= 2:
            res.nontrivial.add(core.canonical_key("s", ops))
    res.rule = ("sessions over one heap (between the edits, user measurements and array elements are declared correlated with "
                "each other through set_correlation / set_covariance): initial arrays (no / common / per-element / relative uncertainties, 10% with data "
                "that is large against its spread (integers around 1e5 .. 1e6), with and without "
                "name and unit, also names ending in _<digits>) then 3-13 random edits (append / insert / delete / item "
                "assignment; operand = number (Python int / float / bool, numpy int64 / int32 / int8 / uint8 / float64 / float32 scalar, Fraction), (value, error) pair of those, Measurement, list of those, ndarray of numbers, another "
                "MeasurementArray; target = the latest array (75%) or any older one; indices uniform over the valid range "
                "incl. negative ones, 12% out of range; 12% malformed operands; 8% aliased operands), generated against the "
                "live lengths; plus an exhaustive small scope (lengths 1-3 x every index in [-n-2, n+2] x 8 operand shapes x "
                "insert/set/delete/append followed by a second edit). After EVERY operation the values, errors, names and "
                "units of ALL arrays created so far and of all user measurements are compared with the model; at the end the "
                "aggregates sum/mean/std of every array. non-trivial = a session with at least two successful edits "
                "(distinct by content)")
    res.samples = [{"session": s[0][:6]} for s in sessions[len(exh):len(exh) + 2]] + [{"session": exh[5]}]
    res.exhaustive = False
    shards, index = [], []
    per = 40
    for k in range(0, len(sessions), per):
        chunk = sessions[k:k + per]
        INTERN = Interner()
        body = coq_list(["({}, {})".format(c_steps(steps), coq_list([c_agg(a) for a in aggs]))
                         for _, steps, aggs in chunk])
        text = HEADER + INTERN.text() + "Definition cases := {}.\nEval vm_compute in (bad_indices check_session cases).\n".format(body)
        shards.append(text)
        index.append(k)
    INTERN = None
    bads, logs = coq.run_case_files(ID, shards, keep=getattr(ctx, "keep_cases", False))
    for base, bad, log in zip(index, bads, logs):
        if bad is None:
            res.disagreements.append({"name": "case file did not evaluate (shard at {}): {}".format(
                base, log.strip().split("\n")[-1][:200]), "kind": "shard", "case": None})
            continue
        for i in bad[0]:
            ops = sessions[base + i][0]
            res.disagreements.append({"name": "Model.Arrays.step vs ExperimentalValueArray.append/insert/delete/__setitem__",
                                      "kind": "session", "case": ops})
    reset_globals()
    return res


# ---- the property-level oracle: the same history on a plain Python list of pairs -------------------
#  case = {"init": [data, errspec, name, unit], "ops": [op...]} ; every edit acts on the result of the previous one
#  op = ["append", operand] | ["insert", i, operand] | ["delete", i] | ["set", i, item]
#  operand = ["num", x] | ["pair", x, e] | ["meas", v, e, name, unit] | ["list", [item..]] | ["ndarray", [x..]]
#          | ["arr", data, errspec, name, unit]
INDEXLIKE_IN_ORACLE = True


CUR_POOL = []


def o_item_build(it):
    t = it[0]
    if t == "num":
        return num(it[1]), (frac(it[1]), Fraction(0))
    if t == "pair":
        return (num(it[1]), num(it[2])), (frac(it[1]), frac(it[2]))
    if t == "pmeas":          # a measurement of the case's pool (possibly correlated with others of the pool)
        m = CUR_POOL[it[1]]
        return m, (frac(m.value), frac(m.error))
    if t == "meas":
        m = make_meas(it[1:5])
        if len(it) > 5:           # the measurement is printed / evaluated before it is used as an operand
            _ = str(m), repr(m), m.value, m.error, m.relative_error, m.unit, m.name
        return m, (frac(it[1]), frac(it[2]))
    raise ValueError(it)


def expected_errors(data, sp):
    t = sp[0]
    n = len(data)
    if t == "none":
        return [Fraction(0)] * n
    if t == "common":
        return [frac(sp[1])] * n
    if t == "each":
        return [frac(x) for x in sp[1]]
    if t == "rcommon":
        return [frac(sp[1]) * abs(frac(x)) for x in data]
    return [frac(r) * abs(frac(x)) for r, x in zip(sp[1], data)]


def o_operand_build(o):
    import numpy as np
    t = o[0]
    if t == "list":
        built = [o_item_build(x) for x in o[1]]
        return [b[0] for b in built], [b[1] for b in built]
    if t == "ndarray":
        return np.array([float(x) for x in o[1]]), [(frac(float(x)), Fraction(0)) for x in o[1]]
    if t == "arr":
        a = make_array(o[1:])
        return a, list(zip([frac(x) for x in o[1]], expected_errors(o[1], o[2])))
    obj, pair = o_item_build(o)
    return obj, [pair]


def close(a, b, tol=Fraction(1, 10 ** 12)):
    if a is None or b is None:
        return False
    return abs(a - b) <= tol * (abs(a) + abs(b))


def check_array(tag, arr, model, name, unit):
    """None or a description: the array must equal the list of pairs, carry unit and names"""
    if len(arr) != len(model):
        return "{}: length {} but the list of pairs has {}".format(tag, len(arr), len(model))
    got = [(frac(x.value), frac(x.error)) for x in arr]
    if got != model:
        j = [i for i in range(len(model)) if got[i] != model[i]][0]
        return "{}: element {} is {} +/- {} but the list of pairs has {} +/- {}".format(
            tag, j, float(got[j][0]) if got[j][0] is not None else None,
            float(got[j][1]) if got[j][1] is not None else None, float(model[j][0]), float(model[j][1]))
    if tag.startswith("result"):
        for j, x in enumerate(arr):
            if x.unit != unit:
                return "{}: element {} has unit {!r}, the array's unit is {!r}".format(tag, j, x.unit, unit)
            if name and x.name != "{}_{}".format(name, j):
                return "{}: element {} is named {!r}, expected {!r}".format(tag, j, x.name, "{}_{}".format(name, j))
        if len(arr):
            if arr.unit != unit:
                return "{}: the array's unit is {!r}, expected {!r}".format(tag, arr.unit, unit)
            if name and arr.name != name:
                return "{}: the array's name is {!r}, expected {!r}".format(tag, arr.name, name)
    return None


def check_aggregates(arr, model):
    n = len(model)
    if n < 1:
        return None
    # an array whose stored values are float32 scalars is summed / averaged by numpy in float32
    lowp = low_precision_array(arr)
    tol = Fraction(1, 10 ** 11)
    vtol = Fraction(1, 10 ** 5) if lowp else Fraction(1, 10 ** 12)
    with warnings.catch_warnings():
        warnings.simplefilter("ignore")
        s = arr.sum()
        sx = sum(v for v, _ in model)
        se2 = sum(e * e for _, e in model)
        if not close(frac(s.value), sx, vtol) or frac(s.error) is None or frac(s.error) < 0 or not close(frac(s.error) ** 2, se2, tol):
            return "sum() is {} +/- {} but sum(x_i) = {} and sqrt(sum(s_i^2)) = {}".format(
                s.value, s.error, float(sx), math.sqrt(se2))
        if n >= 2:
            mean = sx / n
            var = sum((v - mean) ** 2 for v, _ in model) / (n - 1)
            m, sd = arr.mean(), arr.std()
            # numerical quality: the two-pass sample variance (what numpy computes) has a relative error of a few
            # eps * max|x| / std; a formula that subtracts two large moments (mean(x^2) - mean(x)^2) has
            # eps * (max|x| / std)^2 and fails this tolerance for data that is large against its spread
            big = max(abs(v) for v, _ in model)
            eps = Fraction(1, 2 ** 52)
            if var == 0:
                okz = frac(sd) is not None and abs(frac(sd)) <= Fraction(1, 10 ** 12) * big \
                    and frac(m.error) is not None and abs(frac(m.error)) <= Fraction(1, 10 ** 12) * big
                if not okz or not close(frac(m.value), mean, vtol):
                    return "mean() is {} +/- {}, std() is {} but all values equal {}: the standard deviation is 0".format(
                        m.value, m.error, sd, float(mean))
                return None
            ratio = Fraction(big * big, 1) / var          # (max|x| / std)^2, exact
            if ratio > 10 ** 4:
                from math import isqrt
                r = Fraction(isqrt(int(ratio)) + 1)         # >= max|x| / std
                tol = Fraction(1, 10 ** 11) + 256 * eps * r
            if lowp:      # only the orders of magnitude: float32 rounding of the deviations from the mean
                scale = float(var) + float(mean) ** 2 + 1
                if abs(float(sd) ** 2 - float(var)) > 1e-4 * scale or abs(float(m.error) ** 2 - float(var / n)) > 1e-4 * scale \
                        or not close(frac(m.value), mean, vtol):
                    return "mean() / std() are {} +/- {} / {} but the mean is {}, std {}".format(
                        m.value, m.error, sd, float(mean), math.sqrt(var))
                return None
            if frac(sd) is None or frac(sd) < 0 or not close(frac(sd) ** 2, var, tol):
                return "std() is {} but the sample standard deviation is {}".format(sd, math.sqrt(var))
            if not close(frac(m.value), mean, vtol) or frac(m.error) is None or frac(m.error) < 0 \
                    or not close(frac(m.error) ** 2, var / n, tol):
                return "mean() is {} +/- {} but the mean is {} and std/sqrt(n) is {}".format(
                    m.value, m.error, float(mean), math.sqrt(var / n))
            if m.unit != arr.unit or s.unit != arr.unit:
                return "sum()/mean() carry units {!r}/{!r}, the array has {!r}".format(s.unit, m.unit, arr.unit)
        # the other spellings of the same aggregates: q.sum / q.mean / q.std, np.sum / np.mean
        import numpy as np
        q = _q()
        alts = [("q.sum", q.sum(arr), s), ("np.sum", np.sum(arr), s)]
        if n >= 2:
            alts += [("q.mean", q.mean(arr), m), ("np.mean", np.mean(arr), m)]
            if q.std(arr) != sd:
                return "q.std(a) is {} but a.std() is {}".format(q.std(arr), sd)
        for label, got, ref in alts:
            if not hasattr(got, "error") or got.value != ref.value or got.error != ref.error or got.unit != ref.unit:
                return "{}(a) is {} but the method gives {}".format(label, got, ref)
    return None


def norm(i, n, incl_end):
    if i < -n or i > (n if incl_end else n - 1):
        return None
    return i + n if i < 0 else i


def check_history_oracle(case, reset=True):
    """runs the history on the implementation and on a plain list of pairs; None or the first contradiction"""
    if reset:
        reset_globals()
    init = case["init"]
    try:
        with warnings.catch_warnings():
            warnings.simplefilter("ignore")
            cur = make_array(init)
    except Exception as e:  # noqa
        return "the initial array {} cannot be built: {}: {}".format(init, type(e).__name__, e)
    global CUR_POOL
    CUR_POOL = [make_meas(spec) for spec in case.get("pool", [])]
    model = list(zip([frac(x) for x in init[0]], expected_errors(init[0], init[1])))
    name, unit = init[2], CANON[init[3]]
    why = check_array("result of the constructor", cur, model, name, unit)
    if why:
        return why
    npidx = bool(case.get("npidx"))

    def key(i):
        if npidx:
            import numpy as np
            return np.int64(i)
        return i
    for step, op in enumerate(case["ops"]):
        t = op[0]
        n = len(model)
        tag = "step {} {}".format(step, json.dumps(op))
        src, src_model = cur, list(model)
        if t in ("link", "linkel"):        # correlations between measurements are no business of the array aggregates
            link_op(op if t == "link" else ["linkel", 0] + list(op[1:]), CUR_POOL, [cur])
            why = check_aggregates(cur, model)
            if why:
                return "after " + tag + ": " + why
            continue
        if t == "read":          # printing / evaluating / aggregating must not change anything
            try:
                read_everything(cur)
            except Exception as e:  # noqa
                return "{}: reading the array raised {}: {}".format(tag, type(e).__name__, str(e)[:120])
            why = check_array("result of " + tag, cur, model, name, unit)
            if why:
                return why
            continue
        try:
            with warnings.catch_warnings():
                warnings.simplefilter("ignore")
                if t == "append":
                    obj, pairs = o_operand_build(op[1])
                    new_model = model + pairs
                    res_ = cur.append(obj)
                elif t == "insert":
                    i = norm(op[1], n, True)
                    if i is None:
                        continue
                    obj, pairs = o_operand_build(op[2])
                    new_model = model[:i] + pairs + model[i:]
                    res_ = cur.insert(key(op[1]), obj)
                elif t == "delete":
                    i = norm(op[1], n, False)
                    if i is None:
                        continue
                    new_model = model[:i] + model[i + 1:]
                    res_ = cur.delete(key(op[1]))
                elif t == "set":
                    i = norm(op[1], n, False)
                    if i is None:
                        continue
                    if op[2][0] == "num":
                        new_model = list(model)
                        new_model[i] = (frac(op[2][1]), model[i][1])
                        cur[key(op[1])] = num(op[2][1])
                    else:
                        obj, pair = o_item_build(op[2])
                        new_model = list(model)
                        new_model[i] = pair
                        cur[key(op[1])] = obj
                    res_ = cur
                else:
                    raise ValueError(op)
        except Exception as e:  # noqa
            return "{}: a valid edit raised {}: {}".format(tag, type(e).__name__, str(e)[:120])
        if len(new_model) == 0:
            name, unit = "", ""       # an empty array has no name and no unit
        why = check_array("result of " + tag, res_, new_model, name, unit)
        if why:
            return why
        if t != "set":
            why = check_array("source array after " + tag, src, src_model, None, None)
            if why:
                return why
        why = check_aggregates(res_, new_model)
        if why:
            return "after " + tag + ": " + why
        cur, model = res_, new_model
    return None


def gen_oracle_item(rng):
    r = rng.random()
    if r < 0.35:
        return ["num", gen_num(rng, True)]
    if r < 0.7:
        return ["pair", gen_num(rng, True), gen_perr(rng)]
    m = gen_meas(rng)
    return m + ["read"] if rng.random() < 0.3 else m


def gen_oracle_operand(rng):
    r = rng.random()
    if r < 0.55:
        return gen_oracle_item(rng)
    if r < 0.75:
        return ["list", [gen_oracle_item(rng) for _ in range(rng.choice([0, 1, 2, 3]))]]
    if r < 0.85:
        return ["ndarray", [gen_num(rng) for _ in range(rng.choice([1, 2, 3]))]]
    return ["arr"] + gen_mk(rng, indexlike=INDEXLIKE_IN_ORACLE)[1:]


OFFSETS = [10 ** 4, 10 ** 6, 2 ** 30, 10 ** 9, 123456789, -(10 ** 7)]


def shift_num(x, off):
    """x + off as a plain number (typed numbers become plain: small integer types would overflow)"""
    v = frac(x) + off
    return int(v) if v.denominator == 1 else float(v)


def shift_item(it, off):
    if it[0] == "num":
        return ["num", shift_num(it[1], off)]
    if it[0] == "pair":
        return ["pair", shift_num(it[1], off), it[2]]
    if it[0] == "meas":
        return ["meas", shift_num(it[1], off)] + list(it[2:])
    return it


def shift_operand(o, off):
    if o[0] == "list":
        return ["list", [shift_item(x, off) for x in o[1]]]
    if o[0] == "ndarray":
        return ["ndarray", [shift_num(x, off) for x in o[1]]]
    if o[0] == "arr":
        return ["arr", [shift_num(x, off) for x in o[1]]] + list(o[2:])
    return shift_item(o, off)


def shift_case(case, off):
    """the same history on data that is large against its spread (lengths around 1000.00x mm, timestamps ...):
    every value gets the offset, the uncertainties stay"""
    init = case["init"]
    out = dict(case, init=[[shift_num(x, off) for x in init[0]]] + list(init[1:]), ops=[])
    for op in case["ops"]:
        if op[0] == "append":
            out["ops"].append(["append", shift_operand(op[1], off)])
        elif op[0] == "insert":
            out["ops"].append(["insert", op[1], shift_operand(op[2], off)])
        elif op[0] == "set":
            out["ops"].append(["set", op[1], shift_item(op[2], off)])
        else:
            out["ops"].append(op)
    return out


def offset_cases():
    """aggregates of data with |mean| / std between 1e3 and 1e9"""
    out = []
    for data in ([1e9, 1e9 + 1, 1e9 + 2], [1000.001, 1000.002, 1000.004, 1000.003], [123456789.25, 123456789.5],
                 [2.0 ** 30 + 0.5, 2.0 ** 30 + 1.5, 2.0 ** 30 - 1, 2.0 ** 30, 2.0 ** 30 + 3], [1e6 + 0.1, 1e6 + 0.2, 1e6 + 0.4],
                 [-1e7 - 1, -1e7 + 1], [5e5] * 3):
        out.append({"init": [data, ["common", 0.5], "len", "m"],
                    "ops": [["append", ["num", data[0] + 1]], ["delete", 0], ["set", 0, ["num", data[-1] + 0.5]]]})
    return out


def gen_oracle_case(rng):
    case = gen_oracle_case0(rng)
    if rng.random() < 0.25:
        case = shift_case(case, rng.choice(OFFSETS))
    return case


def gen_oracle_case0(rng):
    global SCALE
    SCALE = rng.choice(SCALES) if rng.random() < 0.15 else 1
    try:
        return gen_oracle_case1(rng)
    finally:
        SCALE = 1


def correlated_cases():
    """correlated measurements entering one array through append, insert and item assignment"""
    pool = [[5, 0.5, "", ""], [6, 0.25, "", "m"], [10, 0.5, "n", ""], [11, 0.5, "", ""], [1, 0.125, "", ""]]
    out = []
    for how, x in (("cov", 0.9), ("corr", -0.9), ("corr", 1), ("cov", -0.5)):
        out.append({"init": [[1, 2, 3], ["each", [0.125, 0.25, 0.5]], "x", "m"], "pool": pool,
                    "ops": [["link", 0, 1, how, x], ["append", ["pmeas", 0]], ["append", ["pmeas", 1]],
                            ["link", 2, 3, how, x], ["insert", 1, ["pmeas", 2]], ["set", 3, ["pmeas", 3]],
                            ["link", 3, 4, "corr", 0.5], ["delete", 0]]})
        out.append({"init": [[7, 8, 9], ["common", 0.25], "", ""], "pool": pool,
                    "ops": [["append", ["list", [["pmeas", 0], ["pmeas", 1]]]], ["link", 0, 1, how, x],
                            ["linkel", 0, 1, how, x], ["set", 0, ["num", 4]], ["linkel", 0, -1, "corr", 0.5]]})
    return out


def gen_oracle_case1(rng):
    case = gen_oracle_case2(rng)
    if rng.random() < 0.25:
        # some measurement operands come from a pool whose members are correlated with each other and with outsiders
        pool = [gen_meas(rng)[1:] for _ in range(rng.randrange(2, 6))]
        pool = [[v, e if frac(e) > 0 else scaled(0.5), nm, u] for v, e, nm, u in pool]
        free = list(range(len(pool)))
        rng.shuffle(free)
        ops = []
        for op in case["ops"]:
            if rng.random() < 0.3:
                a, b = rng.sample(range(len(pool)), 2)
                ops.append(["link", a, b, rng.choice(["corr", "cov"]), rng.choice([0.5, -0.5, 0.9, -0.9, 1, -1])])
            it = op[-1] if op[0] in ("append", "insert", "set") else None
            if it and it[0] == "meas" and free:
                op = op[:-1] + [["pmeas", free.pop()]]
            ops.append(op)
            if rng.random() < 0.15:
                ops.append(["linkel", rng.randrange(-2, 3), rng.randrange(-2, 3), "corr", rng.choice([0.5, -0.9, 1])])
        case["pool"], case["ops"] = pool, ops
    return case


def gen_oracle_case2(rng):
    init = gen_mk(rng, indexlike=INDEXLIKE_IN_ORACLE)[1:]
    n = len(init[0])
    ops = []
    for _ in range(rng.randrange(1, 12)):
        if rng.random() < 0.12:
            ops.append(["read"])
        kind = rng.choice(["append", "insert", "insert", "delete", "delete", "set", "set"])
        if kind == "append":
            o = gen_oracle_operand(rng)
            ops.append(["append", o])
            n += operand_len(o)
        elif kind == "insert":
            o = gen_oracle_operand(rng)
            ops.append(["insert", rng.randrange(-n, n + 1), o])
            n += operand_len(o)
        elif kind == "delete":
            if n == 0:
                continue
            ops.append(["delete", rng.randrange(-n, n)])
            n -= 1
        else:
            if n == 0:
                continue
            it = gen_oracle_item(rng)
            ops.append(["set", rng.randrange(-n, n), it if bare_ok(it) else ["num", gen_bare(rng)]])
    case = {"init": init, "ops": ops}
    if rng.random() < 0.2:
        case["npidx"] = True        # the same indices as numpy integers
    return case


def operand_len(o):
    if o[0] in ("list", "ndarray"):
        return len(o[1])
    if o[0] == "arr":
        return len(o[1])
    return 1


def session_to_oracle_cases(ops):
    """a correspondence-format session that disagreed -> linear oracle cases (best effort)"""
    out = []
    mk = [op for op in ops if op[0] == "mk"]
    meas = [op for op in ops if op[0] == "meas"]
    if not mk:
        return out

    def item(it):
        if it[0] == "meas":
            return list(meas[it[1]]) if it[1] < len(meas) else ["num", 1]
        if it[0] == "bad" or (it[0] == "pair" and frac(it[2]) < 0):
            return None
        return it

    def operand(o):
        if o[0] == "list":
            l = [item(x) for x in o[1]]
            return None if any(x is None for x in l) else ["list", l]
        if o[0] == "arr":
            return ["arr"] + list(mk[min(o[1], len(mk) - 1)][1:])
        if o[0] == "ndarray":
            return o
        return item(o)
    edits = []
    for op in ops:
        if op[0] == "append":
            o = operand(op[2])
            if o:
                edits.append(["append", o])
        elif op[0] == "insert":
            o = operand(op[3])
            if o:
                edits.append(["insert", op[2], o])
        elif op[0] == "delete":
            edits.append(["delete", op[2]])
        elif op[0] == "set":
            o = operand(op[3])
            if o and o[0] in ("num", "pair", "meas"):
                edits.append(["set", op[2], o])
    for m in mk[:2]:
        try:
            expected_errors(m[1], m[2])
            if any(frac(e) < 0 for e in expected_errors(m[1], m[2])) or \
                    (m[2][0] in ("each", "reach") and len(m[2][1]) != len(m[1])):
                continue
        except Exception:  # noqa
            continue
        out.append({"init": list(m[1:]), "ops": edits})
    return out


def shrink_case(case):
    def fails(ops):
        return check_history_oracle({"init": case["init"], "ops": ops}) is not None
    extra = {k: case[k] for k in ("npidx", "pool") if case.get(k)}

    def fails(ops):  # noqa
        return check_history_oracle(dict(extra, init=case["init"], ops=ops)) is not None
    ops = shrink_list(case["ops"], fails)
    small = dict(extra, init=case["init"], ops=ops)
    if extra.get("npidx"):
        less = {k: v for k, v in extra.items() if k != "npidx"}
        try:
            if check_history_oracle(dict(less, init=case["init"], ops=ops)) is not None:
                extra = less
                small = dict(extra, init=case["init"], ops=ops)
        except Exception:  # noqa
            pass
    # try a simpler initial array
    for init in ([[1, 2], ["common", 0.5], case["init"][2], case["init"][3]],
                 [case["init"][0], case["init"][1], case["init"][2], ""],
                 [[1, 2], ["common", 0.5], case["init"][2], ""]):
        cand = dict(extra, init=init, ops=ops)
        try:
            if check_history_oracle(cand) is not None:
                small = cand
                break
        except Exception:  # noqa
            pass
    return small


def typed_number_cases():
    """every numbers.Real type as the bare number of an item assignment, of append / insert, and inside a pair"""
    out = []
    for t in NP_TYPES + ["Fraction", "bool"]:
        if t == "Fraction":
            x, e = {"t": t, "v": [7, 2]}, {"t": t, "v": [1, 4]}
        elif t == "bool":
            x, e = True, True
        elif t.startswith("float"):
            x, e = {"t": t, "v": 3.5}, {"t": t, "v": 0.25}
        else:
            x, e = {"t": t, "v": 3}, {"t": t, "v": 1}
        sets = [["set", 1, ["num", x]], ["set", -1, ["num", x]]] if bare_ok(["num", x]) else []
        out.append({"init": [[1, 2, 4], ["each", [0.5, 0.25, 0.125]], "x", "m"],
                    "ops": sets + [["append", ["num", x]],
                            ["insert", 1, ["pair", x, e]], ["set", 0, ["pair", x, e]],
                            ["append", ["list", [["num", x], ["pair", x, e]]]]]})
    return out


def search(ctx, suspects, budget):
    t0 = time.time()
    out = []
    rng = ctx.rng
    todo = []
    for s in suspects:
        if s.get("kind") == "session" and s.get("case"):
            todo += session_to_oracle_cases(s["case"])
    todo += [c["case"] for c in load_corpus() if c.get("kind") == "history"]
    todo += typed_number_cases()
    todo += offset_cases()
    todo += correlated_cases()
    n = 0
    limit = ctx.n(400, 20000)
    since = []          # what ran since the library was last imported afresh: {"case": history, "keep": no reset before it}
    chained = 0
    core.fresh_impl()
    while True:
        keep_state = False
        if todo:
            case = todo.pop(0)
        elif time.time() - t0 > budget or n >= limit:
            break
        else:
            case = gen_oracle_case(rng)
            keep_state = rng.random() < 0.4      # a session that does not begin with a reset
        n += 1
        if len(since) >= 30:
            core.fresh_impl()
            since = []
        try:
            why = check_history_oracle(case, reset=not keep_state)
        except Exception as e:  # noqa  (harness problem on a converted suspect: not a finding)
            ctx.notes.append("oracle: case skipped ({}: {})".format(type(e).__name__, str(e)[:80]))
            continue
        if keep_state:
            chained += 1
        if not why:
            since.append({"case": case, "keep": keep_state})
            continue
        # does it fail on its own in a freshly imported library, or only after what ran before it?
        core.fresh_impl()
        alone = check_history_oracle(case)
        if alone:
            small = shrink_case(case)
            core.fresh_impl()
            why = check_history_oracle(small) or alone
            out.append(Violation(ID, "history", small, why))
        else:
            prefix = core.minimize_session(since, lambda pre: run_chain(pre, case, keep_state) is not None)
            what = run_chain(prefix, case, keep_state)
            if what:
                out.append(Violation(ID, "session-history", {"prefix": prefix, "case": case, "keep": keep_state},
                                     "after {} earlier histor{} in the same interpreter: {}".format(
                                         len(prefix), "y" if len(prefix) == 1 else "ies", what)))
            else:
                ctx.notes.append("oracle: a failure that did not reproduce from a fresh import was dropped: " + why[:120])
        core.fresh_impl()
        since = []
        if len(out) >= 3:
            break
    reset_globals()
    ctx.notes.append("oracle: {} histories on a plain list of pairs ({} of them without a reset of the library state "
                     "after the previous one)".format(n, chained))
    return out


def run_chain(prefix, case, keep=False):
    """in a freshly imported library: the histories of [prefix] one after the other (each with or without the reset
    it had), then [case]"""
    core.fresh_impl()
    for c in prefix:
        try:
            check_history_oracle(c["case"], reset=not c["keep"])
        except Exception:  # noqa
            pass
    return check_history_oracle(case, reset=not keep)


def load_corpus():
    d = os.path.join(core.VERIF, "corpus", ID)
    out = []
    if os.path.isdir(d):
        for f in sorted(os.listdir(d)):
            if f.endswith(".json"):
                out.append(json.load(open(os.path.join(d, f))))
    return out


def replay(ctx, v):
    if v["kind"] == "session-history":
        why = run_chain(v["case"]["prefix"], v["case"]["case"], v["case"].get("keep", False))
        reset_globals()
        return Violation(ID, v["kind"], v["case"], why) if why else None
    why = check_history_oracle(v["case"])
    reset_globals()
    return Violation(ID, v["kind"], v["case"], why) if why else None
