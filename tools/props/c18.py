"""C18 -- Named compound units never change the physical dimension of a result."""
import time
from fractions import Fraction

from vlib import core
from vlib.core import CorrResult, Violation
from vlib.coqfmt import coq_list, coq_bool
from props import units_lib as ul

ID = "C18"
MANIFEST = {
    "technique": "Rocq proof (expansion homomorphism by induction over trees and over the recursion of __unpack_unit, exactness of "
                 "__try_pack, define/clear histories) about a model of units.py with named units + vm_compute correspondence "
                 "(definition sets x trees with named/expanded/mixed operands, direct operate/try_pack calls, histories, "
                 "recalculate) + independent Fraction expansion oracle",
    "level_text": "Machine-checked theorems (C18_dimension, C18_terminates, C18_expansion_exists/_unique, C18_unpack_expands, "
                  "C18_pack_exact, C18_shown_exact, C18_display, C18_clear, C18_define_clear_history) about the Gallina model of "
                  "operate_with_units with UNIT_DEFINITIONS: for every set of definitions with a semantic expansion E (exists and is "
                  "unique for acyclic definitions) and every tree of the domain, expanding the names in the result unit gives exactly "
                  "the dimensional analysis of the expanded operands; packing happens only on an exact power; clearing restores the "
                  "C08 behaviour after any history. The operator table and exponent arithmetic are translated from the source on "
                  "every run; __unpack_unit, __try_pack, the packing loops, define/clear are hand-modelled and run against the "
                  "implementation on the same inputs. Proof is the right level: the property quantifies over all definition sets, "
                  "trees and histories.",
    "level_note": "Trusted: Coq kernel; tools/gens/units_gen.py; the hand model of __unpack_unit (fuel-bounded: the Python "
                  "function does not terminate on cyclic definitions, which the theorems exclude by the existence of E / a rank), "
                  "__try_pack, packing loops, define_unit/clear_unit_definitions as dict updates (the unit-string parser is C12); "
                  "exact rational exponents (float arithmetic exact on the dyadic cases used).",
    "design_ref": "DESIGN.md section 4 C18",
}
GEN = ["UnitsGen"]
PROPS_FILE = "Props/C18.v"
MODEL_TARGETS = ["Model/UnitsCases.v"]
EXTRA_TARGETS = ["Model/UnitsCases.v"]
TRUSTED = [
    "tools/gens/units_gen.py: translation of UNIT_OPERATIONS and the exponent arithmetic (shared with C08)",
    "Model/Units.v: hand-written model of __unpack_unit (explicit fuel), __try_pack, the packing loops of operate_with_units and "
    "construct_unit_string, define_unit / clear_unit_definitions as dict updates, propagate_units; tied by correspondence",
    "Model/Units.v: is_expansion / xdim / dspec / in_domain / acyclic are the hand-written specification",
]
ASSUMPTIONS = [
    "definitions are acyclic (property text: names defined in terms of other names; the library raises RecursionError on a cycle)",
    "the dimensionless-intermediate limitation of C08 applies: every non-constant operand carries a unit whose expanded dimension is non-zero",
    "define_unit(name, text) stores the parsed map of text (parsing itself is C12); a definition and a unit are dicts (unique keys)",
    "a tree is built under the definitions in force at that moment (definitions do not change while one tree is being built); "
    "the model has no state besides UNIT_DEFINITIONS, so what was defined, used or redefined earlier cannot matter -- this is "
    "tied on every run by the session correspondence and judged by the session oracle; recalculate() under changed "
    "definitions is covered by the correspondence only",
    "exponents are exact rationals; float exponent arithmetic is exact on the dyadic cases generated",
]


# ---- generation ------------------------------------------------------------------------------------
def gen_tree_case(rng, malformed=False):
    h = ul.rand_history(rng, malformed=malformed)
    lg = ul.named_leafgen(h)
    related = [lg(rng) for _ in range(2)]
    t = ul.rand_tree(rng, rng.choice([1, 1, 2, 2, 3, 4]), lg, p_const=0.1, p_other=0.02 if malformed else 0.0, related=related)
    return h, t


def small_scope_cases():
    """every standard definition set x depth-1 trees over a pool of named / expanded / mixed / near-miss leaves"""
    out = []
    pool = [
        [ul.item("N", 1)], [ul.item("N", 2)], [ul.item("N", -1)], [ul.item("J", 1)], [ul.item("W", 1)],
        [ul.item("kg", 1), ul.item("m", 1), ul.item("s", -2)], [ul.item("s", -2), ul.item("m", 1), ul.item("kg", 1)],
        [ul.item("N", 1), ul.item("m", 1)], [ul.item("m", 1), ul.item("N", 1)], [ul.item("N", 1), ul.item("kg", -1)],
        [ul.item("m", 1), ul.item("s", -2)], [ul.item("kg", 2), ul.item("m", 2), ul.item("s", -4)],
        [ul.item("kg", 1), ul.item("m", 2), ul.item("s", -2)], [ul.item("kg", 1), ul.item("m", 1)],
        [ul.item("kg", 2), ul.item("m", 1), ul.item("s", -2)], [ul.item("J", 1), ul.item("s", -1)],
        [ul.item("Hz", 1)], [ul.item("s", -1)], [ul.item("Pa", 1)], [ul.item("N", 1), ul.item("m", -2)],
        [ul.item("kg", 1)], [ul.item("m", 1)], [ul.item("s", 1)],
    ]
    trees = ul.depth1_trees(pool, powers=[Fraction(2), Fraction(-1), Fraction(1, 2), Fraction(3)], with_const=False)
    trees += [ul.leaf(p) for p in pool]
    for names in ul.DEF_SETS:
        h = ul.std_history(names)
        for t in trees:
            out.append((h, t))
    return out


def gen_operate_case(rng):
    h = ul.rand_history(rng)
    lg = ul.named_leafgen(h)
    op = rng.choice(["neg", "add", "sub", "mul", "div", "sqrt"] * 3 + ["pow", "exp"])
    nargs = 1 if op in ("neg", "sqrt", "exp") else 2
    first = lg(rng)
    args = [first]
    if nargs == 2:
        k = rng.random()
        if k < 0.3:
            args.append(ul.permuted(rng, first))
        else:
            args.append(lg(rng))
    if rng.random() < 0.1:
        args[rng.randrange(len(args))] = []
    if rng.random() < 0.1:
        i = rng.randrange(len(args))
        args[i] = args[i] + [ul.item("d", 0)]
    return h, op, args


def gen_try_pack_case(rng):
    pre = ul.rand_umap(rng, ["kg", "m", "s", "A"], maxlen=3, allow_zero=rng.random() < 0.1)
    pre = [x for x in pre if x[2] <= 2 and abs(Fraction(x[1], x[2])) <= 4] or [ul.item("m", 1)]
    k = rng.random()
    r = rng.choice([Fraction(1), Fraction(2), Fraction(-1), Fraction(1, 2), Fraction(-2), Fraction(3)])
    unit = [ul.item(n, Fraction(a, b) * r) for n, a, b in pre]
    if k < 0.3:
        pass
    elif k < 0.45:
        unit = ul.permuted(rng, unit)
    elif k < 0.6 and unit:
        i = rng.randrange(len(unit))
        unit[i] = ul.item(unit[i][0], Fraction(unit[i][1], unit[i][2]) + rng.choice([1, -1, Fraction(1, 2)]))
    elif k < 0.7 and len(unit) > 1:
        unit = unit[:-1]
    elif k < 0.8:
        unit = unit + [ul.item("K", rng.choice([1, -1, 0]))]
    elif k < 0.9 and unit:
        i = rng.randrange(len(unit))
        unit[i] = ul.item(unit[i][0], 0)
    else:
        unit = ul.rand_umap(rng, ["kg", "m", "s", "A"], maxlen=3, allow_zero=True, allow_empty=True)
    return unit, pre


# ---- correspondence -----------------------------------------------------------------------------------
def correspondence(ctx):
    res = CorrResult()
    rng = ctx.rng
    cases = []
    scope = small_scope_cases()
    if ctx.quick:
        cases += rng.sample(scope, 900)
    else:
        cases += scope
        res.exhaustive = True
    for _ in range(ctx.n(900, 25000)):
        cases.append(gen_tree_case(rng, malformed=False))
    for _ in range(ctx.n(150, 1500)):
        cases.append(gen_tree_case(rng, malformed=True))
    entries = []
    for h, t in cases:
        frac = rng.random() < 0.08
        style = ul.rand_style(rng, 0.6)
        try:
            obs = ul.run_tree(h, t, frac, style=style)
        except ul.CaseInvalid:
            res.count("skipped:unit-string-not-parsed-as-intended")
            continue
        if obs.get("exc") == "crash":
            res.evaluations += 1
            res.disagreements.append({"name": "the implementation raised {} where the model returns".format(obs["what"]),
                                      "kind": "tree", "case": {"history": h, "tree": t, "frac": frac}})
            continue
        if not obs["exact"]:
            res.count("skipped:inexact-float-exponent")
            continue
        shown = ul.shown_items(obs, frac)
        res.evaluations += 1
        res.traces += 1
        res.count("defs:{}".format(len(ul.defs_of(h))))
        for o in set(ul.tree_ops(t)):
            res.count("op:" + o)
        kind = "RecursionError" if obs.get("exc") else "warned" if obs["warned"] else \
            "packed" if (len(obs["unit"]) == 1 and obs["unit"][0][0] in ul.defs_of(h)) else "unit" if obs["unit"] else "no-unit"
        res.count("result:" + kind)
        if kind in ("packed", "unit", "warned") and ul.defs_of(h) and t[0] != "leaf":
            res.nontrivial.add(core.canonical_key("t", [h, t]))

        def mk(enc, h=h, t=t, obs=obs, shown=shown, frac=frac):
            return "({}, {}, {}, {}, {})".format(enc.history(h), enc.tree(t), enc.obs(obs), enc.opt_umap(shown), coq_bool(frac))
        entries.append((mk, {"kind": "tree", "case": {"history": h, "tree": t, "frac": frac, "style": style}}))
        for k_, v_ in (style or {"plain": 1}).items():
            res.count("style:{}={}".format(k_, v_))
    # read the result, change an operand's unit through the public setter (same object), recalculate, read again
    for _ in range(ctx.n(120, 2000)):
        h = ul.rand_history(rng)
        t, idx, new = ul.gen_setunit(rng, h, ul.named_leafgen(h))
        style = ul.rand_style(rng, 0.6)
        try:
            obs = ul.run_setunit(h, t, idx, new, style=style)
        except ul.CaseInvalid:
            continue
        case = {"history": h, "tree": t, "idx": idx, "new": new, "style": style}
        if obs.get("exc") == "crash":
            res.evaluations += 1
            res.disagreements.append({"name": "the implementation raised {} where the model returns".format(obs["what"]),
                                      "kind": "tree", "case": case})
            continue
        if not obs["exact"]:
            res.count("skipped:inexact-float-exponent")
            continue
        res.evaluations += 1
        res.count("set-unit-then-recalculate")
        nt = ul.replace_leaf(t, idx, new)
        shown = ul.shown_items(obs, False)

        def mk(enc, h=h, nt=nt, obs=obs, shown=shown):
            return "({}, {}, {}, {}, false)".format(enc.history(h), enc.tree(nt), enc.obs(obs), enc.opt_umap(shown))
        entries.append((mk, {"kind": "tree", "case": case}))
    # recalculate() after the definitions changed
    rec_entries = []
    for _ in range(ctx.n(150, 1500)):
        h1, t = gen_tree_case(rng)
        h2 = rng.choice([[["clear"]], ul.std_history(rng.choice(ul.DEF_SETS)), [], ul.rand_history(rng)])
        try:
            obs = ul.run_tree(h1, t, False, recalc_history=h2)
        except ul.CaseInvalid:
            continue
        if not obs["exact"]:
            res.count("skipped:inexact-float-exponent")
            continue
        res.evaluations += 1
        res.count("recalculate")

        def mk(enc, h1=h1, h2=h2, t=t, obs=obs):
            return "({}, {}, {}, {})".format(enc.history(h1), enc.history(h2), enc.tree(t), enc.obs(obs))
        rec_entries.append((mk, {"kind": "recalc", "case": {"history": h1, "then": h2, "tree": t}}))
    op_entries = []
    for _ in range(ctx.n(300, 3000)):
        h, op, args = gen_operate_case(rng)
        try:
            obs = ul.run_operate(h, op, args)
        except ul.CaseInvalid:
            continue
        if not obs["exact"]:
            res.count("skipped:inexact-float-exponent")
            continue
        res.evaluations += 1
        res.count("operate:" + op + (":" + obs["exc"] if obs.get("exc") else ""))
        if not obs.get("exc") and obs["unit"]:
            res.nontrivial.add(core.canonical_key("o", [h, op, args]))

        def mk(enc, h=h, op=op, args=args, obs=obs):
            return "({}, {}, {}, {})".format(enc.history(h), enc.op(op), coq_list([enc.umap(a) for a in args]),
                                             "None" if obs.get("exc") else enc.obs(obs))
        op_entries.append((mk, {"kind": "operate", "case": {"history": h, "op": op, "args": args}}))
    tp_entries = []
    for _ in range(ctx.n(400, 4000)):
        unit, pre = gen_try_pack_case(rng)
        r = ul.run_try_pack(unit, pre)
        if not ul.small_dyadic([["r", r.numerator, r.denominator]]):
            res.count("skipped:inexact-float-exponent")
            continue
        res.evaluations += 1
        res.count("try_pack:" + ("packs" if r != 0 else "refuses"))
        if r != 0:
            res.nontrivial.add(core.canonical_key("p", [unit, pre]))

        def mk(enc, unit=unit, pre=pre, r=r):
            return "({}, {}, {})".format(enc.umap(unit), enc.umap(pre), enc.q(r.numerator, r.denominator))
        tp_entries.append((mk, {"kind": "try_pack", "case": {"unit": unit, "pre": pre}}))
    # sessions: define / clear / use interleaved in one interpreter state; each use is compared with the model under
    # d_run of the events so far (this is where "results depend only on the definitions in force" is tied)
    sessions = list(ul.session_templates()) if not ctx.quick else rng.sample(ul.session_templates(), 16)
    for _ in range(ctx.n(220, 3000)):
        sessions.append(ul.gen_session(rng))
    se_entries = []
    for steps in sessions:
        style = ul.rand_style(rng, 0.6)
        try:
            obs = ul.run_session(steps, style)
        except ul.CaseInvalid:
            res.count("skipped:unit-string-not-parsed-as-intended")
            continue
        if any(o.get("exc") == "crash" for o in obs):
            res.evaluations += len(obs)
            res.disagreements.append({"name": "the implementation raised {} where the model returns".format(
                [o["what"] for o in obs if o.get("exc") == "crash"][0]), "kind": "session", "case": {"steps": steps, "style": style}})
            continue
        if not all(o["exact"] for o in obs):
            res.count("skipped:inexact-float-exponent")
            continue
        showns = [ul.shown_items(o, False) for o in obs]
        res.evaluations += len(obs)
        res.traces += 1
        n_def = sum(1 for st in steps if st[0] == "define")
        names = [st[1] for st in steps if st[0] == "define"]
        redef = len(names) != len(set(names))
        res.count("session:{}".format("redefinition" if redef else "no-redefinition"))
        res.count("session-uses", len(obs))
        if redef and len(obs) >= 2:
            res.nontrivial.add(core.canonical_key("s", steps))

        def mk(enc, steps=steps, obs=obs, showns=showns):
            return enc.session(steps, obs, showns)
        se_entries.append((mk, {"kind": "session", "case": {"steps": steps, "style": style}}))
    df_entries = []
    for _ in range(ctx.n(100, 1000)):
        h = ul.rand_history(rng, malformed=rng.random() < 0.3)
        if rng.random() < 0.3:
            h = h + [["clear"]] + ul.rand_history(rng)
        try:
            got = ul.run_defs(h)
        except ul.CaseInvalid:
            continue
        res.evaluations += 1
        res.count("history:{}".format(len(h)))

        def mk(enc, h=h, got=got):
            return "({}, {})".format(enc.history(h), "(@nil (sym * umap))" if not got else coq_list(
                ["({}%positive, {})".format(ul.SYM_ID[n], enc.umap(d)) for n, d in got]))
        df_entries.append((mk, {"kind": "defs", "case": {"history": h}}))
    res.rule = ("definition histories (standard sets {N}, {N,J}, {N,J,W}, {Hz}, {Pa,N}, J before N, W before J before N; random "
                "definitions over kg,m,s,A possibly in terms of other names; redefinitions; clear in the middle; cyclic definitions in "
                "the malformed share) x trees over {neg,sqrt,+,-,*,/,**const} whose leaves are in named form (powers -3..3 and "
                "halves), partly/fully expanded form in any order, mixed form, and near misses (proportional but unequal exponents, "
                "a factor missing); all depth-1 trees over a 23-unit pool for each standard set (exhaustive in thorough, sampled in "
                "quick); observed: ordered items of ._unit, mismatch warning, .unit re-read, RecursionError. Plus recalculate() after "
                "the definitions changed, direct operate_with_units and __try_pack calls, and UNIT_DEFINITIONS after a history. "
                "Plus SESSIONS: define / clear / use steps interleaved in one interpreter state (chains N,J,W,Pa defined bottom-up "
                "or top-down, dependents used, a lower name redefined or defined late WITHOUT a clear, dependents used again; "
                "clear in the middle; random interleavings over an acyclic vocabulary), every use observed and compared with the "
                "model under the definitions in force at that step. "
                "non-trivial = a non-leaf tree under at least one definition whose result has a unit or a warning / an operate call "
                "with non-empty result / a try_pack call that packs / a session with a redefinition and >= 2 uses (distinct by content)")
    res.samples = [e[1]["case"] for e in entries[:2]] + [e[1]["case"] for e in tp_entries[:1]] + [e[1]["case"] for e in rec_entries[:1]]
    dis, failures = ul.eval_shards(ID, [("check_tree", entries), ("check_recalc", rec_entries), ("check_operate", op_entries),
                                        ("check_try_pack", tp_entries), ("check_defs", df_entries)],
                                   keep=getattr(ctx, "keep_cases", False))
    dis2, failures2 = ul.eval_shards(ID + "s", [("check_session", se_entries)], keep=getattr(ctx, "keep_cases", False), per=60)
    dis, failures = dis + dis2, failures + failures2
    for f in failures:
        res.disagreements.append({"name": f, "case": None})
    names = {"check_tree": "unit_of", "check_recalc": "propagate_units (recalculate)", "check_operate": "operate_with_units",
             "check_try_pack": "try_pack", "check_defs": "d_run (define_unit/clear_unit_definitions)",
             "check_session": "unit_of under d_run of the events so far (session)"}
    for fn, payload in dis:
        res.disagreements.append({"name": "Model.Units.{} vs implementation".format(names[fn]), "kind": payload["kind"],
                                  "case": payload["case"]})
    return res


# ---- oracle ----------------------------------------------------------------------------------------------
def check_case(case):
    if "steps" in case:
        # define / clear / use steps executed in ONE fresh library state (run_session starts with core.fresh_impl())
        return ul.oracle_session(case["steps"], case.get("style"))
    if "session" in case:
        # several (history, tree) cases evaluated one after the other in ONE fresh library state; the last one is judged
        core.fresh_impl()
        why = None
        for c in case["session"]:
            why = check_case(c)
        return "after {} earlier operation(s) in the same interpreter: {}".format(len(case["session"]) - 1, why) if why else None
    why = ul.check_one(case)
    if why:
        return why
    if case.get("clear"):
        return ul.clear_check(case.get("history", []), case["tree"])
    return None


def fails_alone(case):
    core.fresh_impl()
    return check_case(case) is not None


def report(case, why, journal=()):
    if "steps" in case:
        small = dict(case, steps=ul.shrink_session(case["steps"], case.get("style")))      # every candidate starts from a fresh library state
        return Violation(ID, "session", small, check_case(small) or why)
    if not fails_alone(case):
        # fine on its own: it fails because of what ran before it in this process -> the earlier cases become part of the input
        if check_case({"session": list(journal) + [case]}) is None:
            return Violation(ID, "tree", case, why + " (only after the cases of this run, not reproduced from a fresh library state)")
        prefix = core.minimize_session(list(journal), lambda p: check_case({"session": p + [case]}) is not None)
        sess = {"session": prefix + [case]}
        return Violation(ID, "tree", sess, check_case(sess) or why)

    if "idx" in case:
        return Violation(ID, "tree", case, why)

    def fails(h, t):
        return fails_alone(dict(case, history=h, tree=t))
    h, t = ul.shrink_case(case.get("history", []), case["tree"], fails)
    small = dict(case, history=h, tree=t)
    core.fresh_impl()
    return Violation(ID, "tree", small, check_case(small) or why)


def search(ctx, suspects, budget):
    t0 = time.time()
    rng = ctx.rng
    out, seen = [], set()
    todo = []
    for s in suspects:
        c = s.get("case")
        if c and s.get("kind") in ("tree", "recalc"):
            todo.append(dict(c) if "idx" in c else {"history": c.get("history", []), "tree": c["tree"], "frac": c.get("frac", False),
                                                     "style": c.get("style")})
        elif c and s.get("kind") == "operate" and len(c.get("args", [])) in (1, 2) and c["op"] in ul.UN_OPS + ul.BIN_OPS:
            t = [("un" if len(c["args"]) == 1 else "bin"), c["op"]] + [ul.leaf(a) for a in c["args"]]
            todo.append({"history": c.get("history", []), "tree": t, "frac": False})
        elif c and s.get("kind") == "session":
            todo.append({"steps": c["steps"], "style": c.get("style")})
    todo += [c["case"] for c in ul.load_corpus(ID) if c.get("kind") in ("tree", "session")]    # incl. {"session": [...]} journals
    todo += [{"steps": st} for st in ul.session_templates()]
    scope = small_scope_cases()
    stride = max(1, len(scope) // ctx.n(1200, 6000))
    todo += [{"history": h, "tree": t, "frac": False, "clear": i % 7 == 0} for i, (h, t) in enumerate(scope[::stride])]
    n = 0
    n_sessions = 0
    core.fresh_impl()
    journal = []          # the (history, tree) cases judged since the library was last imported afresh
    while len(out) < 3:
        if todo:
            case = todo.pop(0)
            n_sessions += 1 if "steps" in case else 0
        elif time.time() - t0 > budget:
            break
        elif rng.random() < 0.35:
            case = {"steps": ul.gen_session(rng), "style": ul.rand_style(rng, 0.6)}
            n_sessions += 1
        elif rng.random() < 0.08:
            h = ul.rand_history(rng)
            t, idx, new = ul.gen_setunit(rng, h, ul.named_leafgen(h))
            case = {"history": h, "tree": t, "idx": idx, "new": new, "style": ul.rand_style(rng, 0.6)}
        else:
            h, t = gen_tree_case(rng)
            case = {"history": h, "tree": t, "frac": rng.random() < 0.08, "clear": rng.random() < 0.15,
                    "style": ul.rand_style(rng, 0.6)}
        n += 1
        why = check_case(case)
        own_state = "steps" in case or "session" in case     # these start from a fresh library state themselves
        if why:
            v = report(case, why, journal) if not "session" in case else Violation(ID, "tree", case, why)
            if v.key not in seen:
                seen.add(v.key)
                out.append(v)
        if why or own_state:
            core.fresh_impl()      # nothing a session (or a report) left behind may leak into the next cases
            journal = []
        else:
            journal.append(case)
            if len(journal) > 400:
                core.fresh_impl()
                journal = []
    ul.reset_state()
    ctx.notes.append("oracle: {} cases checked against an independent Fraction expansion, of which {} define/clear/use "
                     "sessions (every use judged under the definitions in force at that step)".format(n, n_sessions))
    return out


def replay(ctx, v):
    why = check_case(v["case"])
    ul.reset_state()
    return Violation(ID, v["kind"], v["case"], why) if why else None
